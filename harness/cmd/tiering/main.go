// Command tiering is the C12 driver.
//
// Parent role: replays every behaviour TLC generated from specs/tiering/Tiering.tla (a
// sequence of migration cycles, each with the crash / step failures the model placed in it,
// ending in a cycle that reports no error).  Each cycle is run by a *child process* (this
// sibling binary cmd/tiering/child) that drives the real tiering.Manager.RunMigrationCycle over two
// LocalBackends and the real SQLite metadata; storage faults and crashes are realised by a
// proxy around the two storage.Backends (a crash is a SIGKILL of the child at the gate; a
// failing UpdateTier is a SQLite trigger).  After every child the parent inspects the bytes
// of every migrating file in both tiers, reads tier_files, builds the FROM clause with the
// real internal/api multi-tier path builder and lets DuckDB count the rows of every file.
// Everything observed is (a) judged against the property, (b) compared with the model's
// snapshot (drift), (c) written to an ndjson trace that TLC validates against TieringProp.
package main

import (
	"bytes"
	"context"
	"crypto/sha256"
	"database/sql"
	"encoding/hex"
	"encoding/json"
	"flag"
	"fmt"
	"os"
	"os/exec"
	"path/filepath"
	"sort"
	"strings"
	"syscall"
	"time"

	"github.com/basekick-labs/arc/internal/api"
	"github.com/basekick-labs/arc/internal/config"
	"github.com/basekick-labs/arc/internal/license"
	"github.com/basekick-labs/arc/internal/storage"
	"github.com/basekick-labs/arc/internal/tiering"
	_ "github.com/duckdb/duckdb-go/v2"
	_ "github.com/mattn/go-sqlite3"
	"github.com/rs/zerolog"
)

const (
	dbName   = "tdb"
	measName = "cpu"
)

// ---- shared -------------------------------------------------------------------------------

type rule struct {
	Op     string `json:"op"`     // WriteReader | ReadTo | Delete | Exists | ListObjects | UpdateTier
	Tier   string `json:"tier"`   // hot | cold
	File   int    `json:"file"`   // migrating file id, 0 = any path
	Nth    int    `json:"nth"`    // occurrence of (op, tier, file) within this child
	Action string `json:"action"` // crash_before | crash_after | crash_mid | fail | fail_mid
	At     string `json:"at"`     // the model's name of the fault point
}

type fileInfo struct {
	ID   int    `json:"id"`
	Path string `json:"path"`
	SHA  string `json:"sha"`
	Rows int    `json:"rows"`
}

type plan struct {
	Rules []rule     `json:"rules"`
	Files []fileInfo `json:"files"`
}

func tierCfg() *config.TieredStorageConfig {
	return &config.TieredStorageConfig{
		Enabled:                true,
		MigrationSchedule:      "0 2 * * *",
		MigrationMaxConcurrent: 1,
		MigrationBatchSize:     10,
		DefaultHotMaxAgeDays:   7,
		Cold:                   config.ColdTierConfig{Enabled: true, Backend: "s3"},
	}
}

func shaFile(p string) (string, bool) {
	b, err := os.ReadFile(p)
	if err != nil {
		return "", false
	}
	h := sha256.Sum256(b)
	return hex.EncodeToString(h[:]), true
}

func classify(root, rel, want string) string {
	got, ok := shaFile(filepath.Join(root, rel))
	if !ok {
		return "none"
	}
	if got == want {
		return "full"
	}
	return "other"
}

func appendLine(path string, v interface{}) {
	b, _ := json.Marshal(v)
	f, err := os.OpenFile(path, os.O_APPEND|os.O_CREATE|os.O_WRONLY, 0o644)
	if err != nil {
		fmt.Fprintln(os.Stderr, "trace:", err)
		os.Exit(3)
	}
	f.Write(append(b, '\n'))
	f.Close()
}

// ---- parent ---------------------------------------------------------------------------------

type mfault struct {
	File int    `json:"file"`
	At   string `json:"at"`
	Kind string `json:"kind"`
	Nth  int    `json:"nth"`
}

type mcycle struct {
	Faults    []mfault `json:"faults"`
	Ended     string   `json:"ended"`
	Hot       []bool   `json:"hot"`
	ColdFinal []bool   `json:"coldFinal"`
	ColdPart  []bool   `json:"coldPart"`
	Meta      []string `json:"meta"`
}

type scenario struct {
	HotRes  bool     `json:"hotRes"`
	ColdRes bool     `json:"coldRes"`
	Overlap bool     `json:"overlap"`
	Cycles  []mcycle `json:"cycles"`
}

type obs struct {
	Hot      []string `json:"hot"`
	Cold     []string `json:"cold"`
	ColdPart []bool   `json:"cold_part"`
	Meta     []string `json:"meta"`
}

type queryObs struct {
	OK     bool   `json:"ok"`
	Err    string `json:"err,omitempty"`
	Seen   []int  `json:"seen"`
	Clause string `json:"clause"`
}

type cycleReport struct {
	Faults   []mfault `json:"faults"`
	Rules    []rule   `json:"rules"`
	Fired    int      `json:"fired"`
	Crashed  bool     `json:"crashed"`
	Errors   int      `json:"errors"`
	Obs      obs      `json:"obs"`
	Query    queryObs `json:"query"`
	Finished bool     `json:"finished_without_error"`
	Note     string   `json:"note,omitempty"`
}

type witness struct {
	Overlap bool          `json:"candidate_list_worked_twice"`
	HotRes  bool          `json:"hot_resident"`
	ColdRes bool          `json:"cold_resident"`
	Sizes   []int         `json:"rows_per_file"`
	Cycles  []cycleReport `json:"cycles"`
	Note    string        `json:"note,omitempty"`
	Run     int           `json:"run"`
}

type finding struct {
	Signature string  `json:"signature"`
	Witness   witness `json:"witness"`
}

type runSpan struct {
	Run   int `json:"run"`
	First int `json:"first"`
	Last  int `json:"last"`
}

type result struct {
	Scenarios   int            `json:"scenarios"`
	Children    int            `json:"children"`
	Crashes     int            `json:"crashes"`
	Queries     int            `json:"queries"`
	Judged      int            `json:"queries_judged"`
	Unrealised  int            `json:"faults_unrealised"`
	Nontrivial  []string       `json:"nontrivial_keys"`
	PerPoint    map[string]int `json:"per_fault_point"`
	Violations  []finding      `json:"violations"`
	Drift       []finding      `json:"drift"`
	Samples     []witness      `json:"samples"`
	Spans       []runSpan      `json:"spans"`
	TraceLines  int            `json:"trace_lines"`
	Infra       string         `json:"infra,omitempty"`
	ChildWallMs int64          `json:"child_wall_ms"`
}

var nop = zerolog.Nop()

type template struct {
	dir   string
	files []fileInfo // migrating files (id 1..n)
	all   []fileInfo // + residents (id 8 hot, 9 cold)
}

func copyTree(src, dst string) error {
	return filepath.Walk(src, func(p string, info os.FileInfo, err error) error {
		if err != nil {
			return err
		}
		rel, _ := filepath.Rel(src, p)
		t := filepath.Join(dst, rel)
		if info.IsDir() {
			return os.MkdirAll(t, 0o755)
		}
		b, err := os.ReadFile(p)
		if err != nil {
			return err
		}
		return os.WriteFile(t, b, 0o644)
	})
}

func openManager(dir string) (*tiering.Manager, *storage.LocalBackend, *sql.DB, error) {
	db, err := sql.Open("sqlite3", filepath.Join(dir, "meta.db"))
	if err != nil {
		return nil, nil, nil, err
	}
	hb, err := storage.NewLocalBackend(filepath.Join(dir, "hot"), nop)
	if err != nil {
		return nil, nil, nil, err
	}
	cb, err := storage.NewLocalBackend(filepath.Join(dir, "cold"), nop)
	if err != nil {
		return nil, nil, nil, err
	}
	m, err := tiering.NewManager(&tiering.ManagerConfig{HotBackend: hb, ColdBackend: cb, DB: db, Config: tierCfg(),
		LicenseClient: license.VerifTieringClient(), Logger: nop})
	if err != nil {
		db.Close()
		return nil, nil, nil, err
	}
	return m, hb, db, nil
}

func writeParquet(duck *sql.DB, path string, fid, rows int) error {
	if err := os.MkdirAll(filepath.Dir(path), 0o755); err != nil {
		return err
	}
	q := fmt.Sprintf(`COPY (SELECT %d AS fid, i AS rid, random() AS v, TIMESTAMP '2025-01-01 00:00:00' + to_seconds(i) AS time FROM range(%d) t(i)) TO '%s' (FORMAT PARQUET)`,
		fid, rows, path)
	_, err := duck.Exec(q)
	return err
}

var sizeVariants = [][]int{{5, 120000}, {120000, 20000}, {20000, 5}}

func buildTemplate(duck *sql.DB, base string, hotRes, coldRes bool, variant int) (*template, error) {
	dir := filepath.Join(base, fmt.Sprintf("tpl_%v_%v_%d", hotRes, coldRes, variant))
	for _, d := range []string{"hot", "cold"} {
		if err := os.MkdirAll(filepath.Join(dir, d), 0o755); err != nil {
			return nil, err
		}
	}
	t := &template{dir: dir}
	ctx := context.Background()
	if coldRes {
		rel := dbName + "/" + measName + "/2024/06/01/00/cpu_20240601_000000_daily.parquet"
		if err := writeParquet(duck, filepath.Join(dir, "hot", rel), 9, 50); err != nil {
			return nil, err
		}
		sha, _ := shaFile(filepath.Join(dir, "hot", rel))
		m, _, db, err := openManager(dir)
		if err != nil {
			return nil, err
		}
		if err := m.RunMigrationCycle(ctx); err != nil {
			return nil, err
		}
		if _, err := db.Exec(`UPDATE tier_files SET migrated_at = datetime('now', '-5 days') WHERE path = ?`, rel); err != nil {
			return nil, err
		}
		db.Close()
		if classify(filepath.Join(dir, "cold"), rel, sha) != "full" || classify(filepath.Join(dir, "hot"), rel, sha) != "none" {
			return nil, fmt.Errorf("template: the cold resident did not migrate")
		}
		t.all = append(t.all, fileInfo{ID: 9, Path: rel, SHA: sha, Rows: 50})
	}
	rows := sizeVariants[variant]
	for i, n := range rows {
		rel := fmt.Sprintf("%s/%s/2025/01/%02d/00/cpu_202501%02d_000000_daily.parquet", dbName, measName, 5+i, 5+i)
		if err := writeParquet(duck, filepath.Join(dir, "hot", rel), i+1, n); err != nil {
			return nil, err
		}
		sha, _ := shaFile(filepath.Join(dir, "hot", rel))
		fi := fileInfo{ID: i + 1, Path: rel, SHA: sha, Rows: n}
		t.files = append(t.files, fi)
		t.all = append(t.all, fi)
	}
	if hotRes {
		y := time.Now().UTC().Add(-24 * time.Hour)
		rel := fmt.Sprintf("%s/%s/%04d/%02d/%02d/%02d/cpu_%s_daily.parquet", dbName, measName, y.Year(), int(y.Month()), y.Day(), y.Hour(), y.Format("20060102_150000"))
		if err := writeParquet(duck, filepath.Join(dir, "hot", rel), 8, 70); err != nil {
			return nil, err
		}
		sha, _ := shaFile(filepath.Join(dir, "hot", rel))
		t.all = append(t.all, fileInfo{ID: 8, Path: rel, SHA: sha, Rows: 70})
	}
	// the files are known to the tier metadata, as they are after ingestion
	m, _, db, err := openManager(dir)
	if err != nil {
		return nil, err
	}
	if _, err := m.ScanAndRegisterFiles(ctx); err != nil {
		return nil, err
	}
	db.Close()
	return t, nil
}

func rulesFor(fs []mfault, alt int) []rule {
	var rs []rule
	for _, f := range fs {
		r := rule{File: f.File, Nth: f.Nth, At: f.At + "/" + f.Kind}
		if r.Nth < 1 {
			r.Nth = 1
		}
		switch f.Kind + ":" + f.At {
		case "crash:scan":
			r.Op, r.Tier, r.Action, r.File = "ListObjects", "hot", "crash_before", 0
		case "crash:copy_begin":
			r.Op, r.Tier, r.Action = "WriteReader", "cold", "crash_before"
		case "crash:copy_mid":
			r.Op, r.Tier, r.Action = "WriteReader", "cold", "crash_mid"
		case "crash:copy_full":
			r.Op, r.Tier, r.Action = "WriteReader", "cold", "crash_full"
		case "crash:copy_end":
			r.Op, r.Tier, r.Action = "WriteReader", "cold", "crash_after"
		case "crash:src_delete":
			r.Op, r.Tier, r.Action = "Delete", "hot", "crash_before"
		case "crash:src_deleted":
			r.Op, r.Tier, r.Action = "Delete", "hot", "crash_after"
		case "crash:rec_delete":
			r.Op, r.Tier, r.Action = "Delete", "hot", "crash_before"
		case "fail:copy_begin":
			r.Op, r.Tier, r.Action = "WriteReader", "cold", "fail"
		case "fail:copy_mid":
			if alt%2 == 0 {
				r.Op, r.Tier, r.Action = "WriteReader", "cold", "fail_mid"
			} else {
				r.Op, r.Tier, r.Action = "ReadTo", "hot", "fail_mid"
			}
		case "fail:meta":
			r.Op, r.Tier, r.Action = "UpdateTier", "meta", "trigger"
		case "fail:rollback":
			r.Op, r.Tier, r.Action = "Delete", "cold", "fail"
		case "fail:src_delete":
			r.Op, r.Tier, r.Action = "Delete", "hot", "fail"
		case "fail:rec_exists":
			r.Op, r.Tier, r.Action = "Exists", "hot", "fail"
		case "fail:rec_delete":
			r.Op, r.Tier, r.Action = "Delete", "hot", "fail"
		default:
			r.Op = "?"
		}
		rs = append(rs, r)
	}
	return rs
}

func observe(dir string, t *template) (obs, error) {
	o := obs{}
	db, err := sql.Open("sqlite3", filepath.Join(dir, "meta.db"))
	if err != nil {
		return o, err
	}
	defer db.Close()
	for _, f := range t.files {
		o.Hot = append(o.Hot, classify(filepath.Join(dir, "hot"), f.Path, f.SHA))
		o.Cold = append(o.Cold, classify(filepath.Join(dir, "cold"), f.Path, f.SHA))
		_, perr := os.Stat(filepath.Join(dir, "cold", f.Path+".part"))
		o.ColdPart = append(o.ColdPart, perr == nil)
		var tier string
		err := db.QueryRow(`SELECT tier FROM tier_files WHERE path = ?`, f.Path).Scan(&tier)
		if err == sql.ErrNoRows {
			tier = "absent"
		} else if err != nil {
			return o, err
		}
		o.Meta = append(o.Meta, tier)
	}
	return o, nil
}

func runQuery(duck *sql.DB, dir string, t *template) (queryObs, error) {
	q := queryObs{}
	m, hb, db, err := openManager(dir)
	if err != nil {
		return q, err
	}
	defer db.Close()
	sqlText := "SELECT fid, count(*) FROM " + dbName + "." + measName + " GROUP BY fid"
	q.Clause = api.VerifTieredFromClause(hb, m, nop, dbName, measName, sqlText)
	rows, err := duck.Query("SELECT fid, count(*) AS c, count(DISTINCT rid) AS d " + q.Clause + " GROUP BY fid")
	for range t.files {
		q.Seen = append(q.Seen, 0)
	}
	if err != nil {
		q.Err = err.Error()
		return q, nil
	}
	defer rows.Close()
	got := map[int][2]int{}
	for rows.Next() {
		var fid, c, d int
		if err := rows.Scan(&fid, &c, &d); err != nil {
			q.Err = err.Error()
			return q, nil
		}
		got[fid] = [2]int{c, d}
	}
	if err := rows.Err(); err != nil {
		q.Err = err.Error()
		return q, nil
	}
	q.OK = true
	for _, f := range t.all {
		g := got[f.ID]
		seen := 99
		switch {
		case g[0] == 0:
			seen = 0
		case g[0] == f.Rows && g[1] == f.Rows:
			seen = 1
		case g[0] == 2*f.Rows && g[1] == f.Rows:
			seen = 2
		}
		if f.ID <= len(t.files) {
			q.Seen[f.ID-1] = seen
		} else if seen != 1 {
			// a resident file is never touched by the migration: anything but "once" is a set-up problem
			return q, fmt.Errorf("resident file %d seen %d times (rows %v)", f.ID, seen, g)
		}
	}
	return q, nil
}

func boolsToState(b []bool) []string {
	out := make([]string, len(b))
	for i, x := range b {
		if x {
			out[i] = "full"
		} else {
			out[i] = "none"
		}
	}
	return out
}

func faultPath(cs []mcycle) string {
	var parts []string
	for _, c := range cs {
		if c.Ended == "aged" {
			parts = append(parts, "window-elapsed")
		}
		for _, f := range c.Faults {
			parts = append(parts, f.At+"/"+f.Kind)
		}
	}
	if len(parts) == 0 {
		return "no-fault"
	}
	return strings.Join(parts, "+")
}

func main() {
	childBin := flag.String("child", "", "path of the child binary (cmd/tiering/child)")
	scenPath := flag.String("scenarios", "", "")
	outPath := flag.String("out", "", "")
	traceOut := flag.String("trace-out", "", "")
	seed := flag.Int("seed", 1, "")
	scratch := flag.String("scratch", "/dev/shm", "")
	flag.Parse()
	res := &result{PerPoint: map[string]int{}}
	finish := func(msg string) {
		res.Infra = msg
		b, _ := json.Marshal(res)
		os.WriteFile(*outPath, b, 0o644)
		os.Exit(0)
	}
	raw, err := os.ReadFile(*scenPath)
	if err != nil {
		fmt.Fprintln(os.Stderr, err)
		os.Exit(2)
	}
	var scs []scenario
	if err := json.Unmarshal(raw, &scs); err != nil {
		finish("bad scenarios: " + err.Error())
	}
	base, err := os.MkdirTemp(*scratch, "verif-c12-")
	if err != nil {
		finish(err.Error())
	}
	defer os.RemoveAll(base)
	duck, err := sql.Open("duckdb", "")
	if err != nil {
		finish("duckdb: " + err.Error())
	}
	defer duck.Close()
	duck.SetMaxOpenConns(1)
	self := *childBin
	tpls := map[string]*template{}
	getTpl := func(h, c bool, v int) (*template, error) {
		k := fmt.Sprintf("%v%v%d", h, c, v)
		if t, ok := tpls[k]; ok {
			return t, nil
		}
		t, err := buildTemplate(duck, base, h, c, v)
		if err == nil {
			tpls[k] = t
		}
		return t, err
	}
	os.Remove(*traceOut)
	nontrivial := map[string]bool{}
	sigCount := map[string]int{}
	line := 0
	for idx, sc := range scs {
		res.Scenarios++
		variant := (idx + *seed) % len(sizeVariants)
		t, err := getTpl(sc.HotRes, sc.ColdRes, variant)
		if err != nil {
			finish("template: " + err.Error())
		}
		dir := filepath.Join(base, "run")
		os.RemoveAll(dir)
		if err := copyTree(t.dir, dir); err != nil {
			finish("copy: " + err.Error())
		}
		runTrace := filepath.Join(base, "run.ndjson")
		os.Remove(runTrace)
		appendLine(runTrace, map[string]interface{}{"ev": "begin", "run": idx})
		w := witness{Overlap: sc.Overlap, HotRes: sc.HotRes, ColdRes: sc.ColdRes, Sizes: sizeVariants[variant], Run: idx}
		var viol []finding
		var drift string
		realised := true
		for ci, cyc := range sc.Cycles {
			if cyc.Ended == "aged" {
				// more than the 48 h reconciliation window passes while no cycle runs: only the age of
				// migrated_at changes
				mdb, err := sql.Open("sqlite3", filepath.Join(dir, "meta.db"))
				if err != nil {
					finish("aging: " + err.Error())
				}
				if _, err := mdb.Exec(`UPDATE tier_files SET migrated_at = datetime(migrated_at, '-3 days') WHERE migrated_at IS NOT NULL`); err != nil {
					finish("aging: " + err.Error())
				}
				mdb.Close()
				w.Cycles = append(w.Cycles, cycleReport{Note: "reconciliation window elapsed (migrated_at back-dated 3 days)", Errors: -1})
				continue
			}
			rules := rulesFor(cyc.Faults, idx+ci+*seed)
			for _, r := range rules {
				if r.Op == "?" {
					finish(fmt.Sprintf("scenario %d: fault %v cannot be placed", idx, cyc.Faults))
				}
			}
			pl := plan{Rules: rules, Files: t.files}
			pb, _ := json.Marshal(pl)
			pp := filepath.Join(base, "plan.json")
			os.WriteFile(pp, pb, 0o644)
			before, _ := os.ReadFile(runTrace)
			action := "cycle"
			if sc.Overlap {
				action = "overlap"
			}
			t0 := time.Now()
			cmd := exec.Command(self, "-hot", filepath.Join(dir, "hot"), "-cold", filepath.Join(dir, "cold"),
				"-meta", filepath.Join(dir, "meta.db"), "-plan", pp, "-trace", runTrace, "-action", action)
			var stderr bytes.Buffer
			cmd.Stderr = &stderr
			cmd.Env = append(os.Environ(), "TMPDIR="+base, "GOMAXPROCS=2")
			done := make(chan error, 1)
			if err := cmd.Start(); err != nil {
				finish("child start: " + err.Error())
			}
			go func() { done <- cmd.Wait() }()
			var werr error
			select {
			case werr = <-done:
			case <-time.After(120 * time.Second):
				cmd.Process.Kill()
				finish(fmt.Sprintf("scenario %d cycle %d: child did not finish in 120 s", idx, ci))
			}
			res.ChildWallMs += time.Since(t0).Milliseconds()
			res.Children++
			crashed := false
			if werr != nil {
				ee, ok := werr.(*exec.ExitError)
				if ok {
					if ws, ok := ee.Sys().(syscall.WaitStatus); ok && ws.Signaled() && ws.Signal() == syscall.SIGKILL {
						crashed = true
					}
				}
				if !crashed {
					finish(fmt.Sprintf("scenario %d cycle %d: child failed: %v %s", idx, ci, werr, stderr.String()))
				}
			}
			if crashed {
				res.Crashes++
			}
			// remove the metadata fault trigger, as a restarted process would not have it
			if mdb, err := sql.Open("sqlite3", filepath.Join(dir, "meta.db")); err == nil {
				for _, r := range rules {
					if r.Op == "UpdateTier" {
						mdb.Exec(fmt.Sprintf("DROP TRIGGER IF EXISTS verif_fail_%d", r.File))
					}
				}
				mdb.Close()
			}
			after, _ := os.ReadFile(runTrace)
			cr := cycleReport{Faults: cyc.Faults, Rules: rules, Crashed: crashed, Errors: -1}
			for _, ln := range strings.Split(string(after[len(before):]), "\n") {
				var ev map[string]interface{}
				if json.Unmarshal([]byte(ln), &ev) != nil {
					continue
				}
				switch ev["ev"] {
				case "fault":
					cr.Fired++
				case "cycle_end":
					if e, ok := ev["errors"].(float64); ok {
						cr.Errors = int(e)
					}
				}
			}
			o, err := observe(dir, t)
			if err != nil {
				finish("observe: " + err.Error())
			}
			cr.Obs = o
			appendLine(runTrace, map[string]interface{}{"ev": "obs", "hot": o.Hot, "cold": o.Cold, "meta": o.Meta})
			q, err := runQuery(duck, dir, t)
			if err != nil {
				finish(fmt.Sprintf("scenario %d: query: %v", idx, err))
			}
			cr.Query = q
			res.Queries++
			appendLine(runTrace, map[string]interface{}{"ev": "query", "ok": q.OK, "seen": q.Seen})
			cr.Finished = !crashed && cr.Errors == 0
			w.Cycles = append(w.Cycles, cr)
			for _, f := range cyc.Faults {
				res.PerPoint[f.At+"/"+f.Kind]++
			}
			if cr.Fired != len(rules) || crashed != (cyc.Ended == "crash") {
				realised = false
			}
			// ---- judge against the property statement
			last := "no-fault"
			if len(cyc.Faults) > 0 {
				lf := cyc.Faults[len(cyc.Faults)-1]
				last = lf.At + "/" + lf.Kind
			}
			for i := range t.files {
				if o.Hot[i] != "full" && o.Cold[i] != "full" {
					viol = append(viol, finding{Signature: "file-complete-in-neither-tier:after=" + last})
					break
				}
			}
			if !q.OK {
				viol = append(viol, finding{Signature: "rows-unreadable-by-query:query-error:after=" + last})
			} else {
				for _, s := range q.Seen {
					if s == 0 {
						viol = append(viol, finding{Signature: "rows-unreadable-by-query:rows-seen=0:after=" + last})
						break
					}
				}
			}
			if cr.Finished {
				res.Judged++
				bad := ""
				if q.OK {
					for _, s := range q.Seen {
						if s != 1 && s != 0 {
							bad = fmt.Sprintf("%d", s)
							if s == 99 {
								bad = "partial"
							}
							break
						}
					}
				}
				if bad != "" {
					viol = append(viol, finding{Signature: "query-after-finished-cycle:rows-seen=" + bad + ":faults=" + faultPath(sc.Cycles[:ci+1])})
				}
			}
			// ---- drift against the model's snapshot
			if realised && drift == "" {
				wantHot, wantCold := boolsToState(cyc.Hot), boolsToState(cyc.ColdFinal)
				if fmt.Sprint(o.Hot) != fmt.Sprint(wantHot) || fmt.Sprint(o.Cold) != fmt.Sprint(wantCold) ||
					fmt.Sprint(o.Meta) != fmt.Sprint(cyc.Meta) || fmt.Sprint(o.ColdPart) != fmt.Sprint(cyc.ColdPart) {
					drift = fmt.Sprintf("cycle %d: observed hot=%v cold=%v part=%v meta=%v, Tiering.tla hot=%v cold=%v part=%v meta=%v",
						ci, o.Hot, o.Cold, o.ColdPart, o.Meta, wantHot, wantCold, cyc.ColdPart, cyc.Meta)
				}
				if ci == len(sc.Cycles)-1 && !cr.Finished {
					drift = fmt.Sprintf("cycle %d: Tiering.tla expects a cycle that reports no error, observed crashed=%v errors=%d", ci, crashed, cr.Errors)
				}
			}
			if !realised {
				break
			}
		}
		if !realised {
			res.Unrealised++
			if len(res.Drift) < 5 {
				w2 := w
				w2.Note = "a planned fault did not fire or fired differently: the code no longer performs the step the model places it at"
				res.Drift = append(res.Drift, finding{Signature: "fault-point-not-reached:" + faultPath(sc.Cycles), Witness: w2})
			}
		} else if drift != "" && len(res.Drift) < 5 {
			w2 := w
			w2.Note = drift
			res.Drift = append(res.Drift, finding{Signature: "state-differs-from-Tiering.tla:" + faultPath(sc.Cycles), Witness: w2})
		}
		for _, v := range viol {
			if sc.Overlap {
				v.Signature += ":candidates-worked-twice"
			}
			sigCount[v.Signature]++
			if sigCount[v.Signature] <= 2 {
				v.Witness = w
				res.Violations = append(res.Violations, v)
			}
		}
		// append this run to the global trace
		rb, _ := os.ReadFile(runTrace)
		n := strings.Count(string(rb), "\n")
		f, err := os.OpenFile(*traceOut, os.O_APPEND|os.O_CREATE|os.O_WRONLY, 0o644)
		if err != nil {
			finish(err.Error())
		}
		f.Write(rb)
		f.Close()
		res.Spans = append(res.Spans, runSpan{Run: idx, First: line + 1, Last: line + n})
		line += n
		nontrivial[fmt.Sprintf("%v|%v|%v|%d|%s", sc.Overlap, sc.HotRes, sc.ColdRes, variant, faultPath(sc.Cycles))] = true
		if len(res.Samples) < 3 && len(sc.Cycles) > 1 && idx%37 == 5 {
			res.Samples = append(res.Samples, w)
		}
	}
	res.TraceLines = line
	for k := range nontrivial {
		res.Nontrivial = append(res.Nontrivial, k)
	}
	sort.Strings(res.Nontrivial)
	for s, n := range sigCount {
		res.PerPoint["violations:"+s] = n
	}
	b, _ := json.Marshal(res)
	if err := os.WriteFile(*outPath, b, 0o644); err != nil {
		fmt.Fprintln(os.Stderr, err)
		os.Exit(2)
	}
}

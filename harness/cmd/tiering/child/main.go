// Command child is the crash-able half of the C12 driver: one migration cycle of the real
// tiering.Manager over two LocalBackends behind a fault proxy (see ../main.go).  It is a
// separate small binary so that starting it costs milliseconds (no DuckDB, no internal/api).
package main

import (
	"bytes"
	"context"
	"crypto/sha256"
	"database/sql"
	"encoding/hex"
	"encoding/json"
	"errors"
	"flag"
	"fmt"
	"io"
	"os"
	"path/filepath"
	"strings"
	"sync"
	"syscall"

	"github.com/basekick-labs/arc/internal/config"
	"github.com/basekick-labs/arc/internal/license"
	"github.com/basekick-labs/arc/internal/storage"
	"github.com/basekick-labs/arc/internal/tiering"
	_ "github.com/mattn/go-sqlite3"
	"github.com/rs/zerolog"
)

// ---- shared -------------------------------------------------------------------------------

type rule struct {
	Op     string `json:"op"`     // WriteReader | ReadTo | Delete | Exists | ListObjects | UpdateTier
	Tier   string `json:"tier"`   // hot | cold
	File   int    `json:"file"`   // migrating file id, 0 = any path
	Nth    int    `json:"nth"`    // occurrence of (op, tier, file) within this child
	Action string `json:"action"` // crash_before | crash_after | crash_mid | fail | fail_mid
	At     string `json:"at"`     // the model's name of the fault point
}

type fileInfo struct {
	ID   int    `json:"id"`
	Path string `json:"path"`
	SHA  string `json:"sha"`
	Rows int    `json:"rows"`
}

type plan struct {
	Rules []rule     `json:"rules"`
	Files []fileInfo `json:"files"`
}

func tierCfg() *config.TieredStorageConfig {
	return &config.TieredStorageConfig{
		Enabled:                true,
		MigrationSchedule:      "0 2 * * *",
		MigrationMaxConcurrent: 1,
		MigrationBatchSize:     10,
		DefaultHotMaxAgeDays:   7,
		Cold:                   config.ColdTierConfig{Enabled: true, Backend: "s3"},
	}
}

func shaFile(p string) (string, bool) {
	b, err := os.ReadFile(p)
	if err != nil {
		return "", false
	}
	h := sha256.Sum256(b)
	return hex.EncodeToString(h[:]), true
}

func classify(root, rel, want string) string {
	got, ok := shaFile(filepath.Join(root, rel))
	if !ok {
		return "none"
	}
	if got == want {
		return "full"
	}
	return "other"
}

func appendLine(path string, v interface{}) {
	b, _ := json.Marshal(v)
	f, err := os.OpenFile(path, os.O_APPEND|os.O_CREATE|os.O_WRONLY, 0o644)
	if err != nil {
		fmt.Fprintln(os.Stderr, "trace:", err)
		os.Exit(3)
	}
	f.Write(append(b, '\n'))
	f.Close()
}

// ---- child: fault proxy ---------------------------------------------------------------------

var errInjected = errors.New("verif: injected storage fault")

type injector struct {
	mu     sync.Mutex
	counts map[string]int
	rules  []rule
	byPath map[string]fileInfo
	trace  string
	roots  map[string]string
}

func (in *injector) match(op, tier, path string) *rule {
	in.mu.Lock()
	defer in.mu.Unlock()
	id := 0
	if fi, ok := in.byPath[filepath.ToSlash(path)]; ok {
		id = fi.ID
	}
	k := fmt.Sprintf("%s|%s|%d", op, tier, id)
	in.counts[k]++
	n := in.counts[k]
	for i := range in.rules {
		r := &in.rules[i]
		if r.Op == op && r.Tier == tier && r.File == id && r.Nth == n {
			return r
		}
	}
	return nil
}

func (in *injector) die(r *rule) {
	appendLine(in.trace, map[string]interface{}{"ev": "fault", "soft": false, "kind": "crash", "at": r.At, "file": r.File, "action": r.Action})
	syscall.Kill(os.Getpid(), syscall.SIGKILL)
	select {}
}

func (in *injector) failed(r *rule) {
	appendLine(in.trace, map[string]interface{}{"ev": "fault", "soft": true, "kind": "fail", "at": r.At, "file": r.File, "action": r.Action})
}

// logOp records a storage mutation of a migrating file with the state of the file afterwards
func (in *injector) logOp(kind, tier, path string, err error) {
	fi, ok := in.byPath[strings.TrimSuffix(filepath.ToSlash(path), ".part")]
	if !ok || strings.HasSuffix(path, ".part") {
		return
	}
	ev := map[string]interface{}{"ev": "op", "kind": kind, "tier": tier, "f": fi.ID, "post": classify(in.roots[tier], fi.Path, fi.SHA)}
	if err != nil {
		ev["err"] = err.Error()
	}
	appendLine(in.trace, ev)
}

type tierBackend struct {
	storage.Backend
	tier string
	in   *injector
}

type killReader struct {
	r    io.Reader
	left int64
	trip func()
}

func (k *killReader) Read(p []byte) (int, error) {
	if k.left <= 0 {
		k.trip()
		return 0, errInjected
	}
	if int64(len(p)) > k.left {
		p = p[:k.left]
	}
	n, err := k.r.Read(p)
	k.left -= int64(n)
	return n, err
}

type failWriter struct {
	w    io.Writer
	left int64
}

func (f *failWriter) Write(p []byte) (int, error) {
	if f.left <= 0 {
		return 0, errInjected
	}
	if int64(len(p)) > f.left {
		n, _ := f.w.Write(p[:f.left])
		f.left = 0
		return n, errInjected
	}
	n, err := f.w.Write(p)
	f.left -= int64(n)
	return n, err
}

func (b *tierBackend) WriteReader(ctx context.Context, path string, r io.Reader, size int64) error {
	rl := b.in.match("WriteReader", b.tier, path)
	if rl != nil {
		switch rl.Action {
		case "crash_before":
			b.in.die(rl)
		case "fail":
			b.in.failed(rl)
			return fmt.Errorf("write %s: %w", path, errInjected)
		case "fail_mid":
			b.in.failed(rl)
			r = &killReader{r: r, left: size / 2, trip: func() {}}
		case "crash_mid":
			r = &killReader{r: r, left: size / 2, trip: func() { b.in.die(rl) }}
		case "crash_full":
			// every byte has been handed to the real backend (and written to <path>.part) when the
			// next Read arrives: the process dies between the last write and the rename
			r = &killReader{r: r, left: size, trip: func() { b.in.die(rl) }}
		}
	}
	err := b.Backend.WriteReader(ctx, path, r, size)
	b.in.logOp("write", b.tier, path, err)
	if rl != nil && rl.Action == "crash_after" {
		b.in.die(rl)
	}
	return err
}

func (b *tierBackend) Write(ctx context.Context, path string, data []byte) error {
	err := b.Backend.Write(ctx, path, data)
	b.in.logOp("write", b.tier, path, err)
	return err
}

func (b *tierBackend) ReadTo(ctx context.Context, path string, w io.Writer) error {
	rl := b.in.match("ReadTo", b.tier, path)
	if rl != nil && rl.Action == "fail_mid" {
		b.in.failed(rl)
		var sz int64
		if st, err := b.Backend.StatFile(ctx, path); err == nil {
			sz = st
		}
		w = &failWriter{w: w, left: sz / 2}
	}
	return b.Backend.ReadTo(ctx, path, w)
}

func (b *tierBackend) Delete(ctx context.Context, path string) error {
	rl := b.in.match("Delete", b.tier, path)
	if rl != nil {
		switch rl.Action {
		case "crash_before":
			b.in.die(rl)
		case "fail":
			b.in.failed(rl)
			return fmt.Errorf("delete %s: %w", path, errInjected)
		}
	}
	err := b.Backend.Delete(ctx, path)
	b.in.logOp("delete", b.tier, path, err)
	if rl != nil && rl.Action == "crash_after" {
		b.in.die(rl)
	}
	return err
}

func (b *tierBackend) Exists(ctx context.Context, path string) (bool, error) {
	rl := b.in.match("Exists", b.tier, path)
	if rl != nil && rl.Action == "fail" {
		b.in.failed(rl)
		return false, fmt.Errorf("exists %s: %w", path, errInjected)
	}
	return b.Backend.Exists(ctx, path)
}

func (b *tierBackend) ListObjects(ctx context.Context, prefix string) ([]storage.ObjectInfo, error) {
	rl := b.in.match("ListObjects", b.tier, "")
	if rl != nil && rl.Action == "crash_before" {
		b.in.die(rl)
	}
	ol, ok := b.Backend.(storage.ObjectLister)
	if !ok {
		return nil, errors.New("no ObjectLister")
	}
	return ol.ListObjects(ctx, prefix)
}

func (b *tierBackend) RemoveDirectory(ctx context.Context, path string) error {
	dr, ok := b.Backend.(storage.DirectoryRemover)
	if !ok {
		return errors.New("no DirectoryRemover")
	}
	return dr.RemoveDirectory(ctx, path)
}

func (b *tierBackend) DeleteBatch(ctx context.Context, paths []string) error {
	for _, p := range paths {
		if err := b.Delete(ctx, p); err != nil {
			return err
		}
	}
	return nil
}

func childMain(hot, cold, meta, planPath, trace, action string) {
	raw, err := os.ReadFile(planPath)
	if err != nil {
		fmt.Fprintln(os.Stderr, err)
		os.Exit(3)
	}
	var pl plan
	if err := json.Unmarshal(raw, &pl); err != nil {
		fmt.Fprintln(os.Stderr, err)
		os.Exit(3)
	}
	in := &injector{counts: map[string]int{}, rules: pl.Rules, byPath: map[string]fileInfo{}, trace: trace,
		roots: map[string]string{"hot": hot, "cold": cold}}
	for _, f := range pl.Files {
		in.byPath[f.Path] = f
	}
	db, err := sql.Open("sqlite3", meta)
	if err != nil {
		fmt.Fprintln(os.Stderr, err)
		os.Exit(3)
	}
	defer db.Close()
	for _, r := range pl.Rules {
		if r.Op == "UpdateTier" {
			var p string
			for _, f := range pl.Files {
				if f.ID == r.File {
					p = f.Path
				}
			}
			db.Exec(`CREATE TABLE IF NOT EXISTS verif_calls (f INTEGER)`)
			db.Exec(`DELETE FROM verif_calls`)
			// fails exactly the n-th UpdateTier(cold) of this file in this process (RAISE(FAIL) keeps the counter row)
			q := fmt.Sprintf(`CREATE TRIGGER IF NOT EXISTS verif_fail_%d BEFORE UPDATE OF tier ON tier_files
				WHEN NEW.tier = 'cold' AND NEW.path = '%s' BEGIN
				INSERT INTO verif_calls VALUES (%d);
				SELECT RAISE(FAIL, 'verif: injected metadata fault') WHERE (SELECT count(*) FROM verif_calls WHERE f = %d) = %d; END`,
				r.File, p, r.File, r.File, r.Nth)
			if _, err := db.Exec(q); err != nil {
				fmt.Fprintln(os.Stderr, "trigger:", err)
				os.Exit(3)
			}
			appendLine(trace, map[string]interface{}{"ev": "fault", "soft": true, "kind": "fail", "at": r.At, "file": r.File, "action": "trigger"})
		}
	}
	var logBuf bytes.Buffer
	logger := zerolog.New(&logBuf)
	nop := zerolog.Nop()
	hb, err := storage.NewLocalBackend(hot, nop)
	if err != nil {
		fmt.Fprintln(os.Stderr, err)
		os.Exit(3)
	}
	cb, err := storage.NewLocalBackend(cold, nop)
	if err != nil {
		fmt.Fprintln(os.Stderr, err)
		os.Exit(3)
	}
	m, err := tiering.NewManager(&tiering.ManagerConfig{
		HotBackend:    &tierBackend{Backend: hb, tier: "hot", in: in},
		ColdBackend:   &tierBackend{Backend: cb, tier: "cold", in: in},
		DB:            db,
		Config:        tierCfg(),
		LicenseClient: license.VerifTieringClient(),
		Logger:        logger,
	})
	if err != nil {
		fmt.Fprintln(os.Stderr, "NewManager:", err)
		os.Exit(3)
	}
	ctx := context.Background()
	appendLine(trace, map[string]interface{}{"ev": "cycle_begin", "action": action})
	errs := -1
	switch action {
	case "cycle":
		if err := m.RunMigrationCycle(ctx); err != nil {
			fmt.Fprintln(os.Stderr, "cycle:", err)
			os.Exit(3)
		}
		// the cycle's own account of itself: the "Migration cycle completed" log record
		for _, ln := range strings.Split(logBuf.String(), "\n") {
			var rec map[string]interface{}
			if json.Unmarshal([]byte(ln), &rec) == nil && rec["message"] == "Migration cycle completed" {
				if e, ok := rec["errors"].(float64); ok {
					errs = int(e)
				}
			}
		}
	case "overlap":
		errs = m.VerifOverlappedCycle(ctx)
	case "reconcile":
		_, _, e := m.VerifReconcile(ctx)
		errs = e
	}
	appendLine(trace, map[string]interface{}{"ev": "cycle_end", "errors": errs})
	os.Exit(0)
}

func main() {
	hot := flag.String("hot", "", "")
	cold := flag.String("cold", "", "")
	meta := flag.String("meta", "", "")
	planPath := flag.String("plan", "", "")
	trace := flag.String("trace", "", "")
	action := flag.String("action", "cycle", "")
	flag.Parse()
	childMain(*hot, *cold, *meta, *planPath, *trace, *action)
}

// Command writeauth replays the TLC-enumerated write requests of specs/writeauth/WriteAuth.tla
// on the real write path and judges C32 on three legs:
//
//	live     real handlers (MessagePack columnar/row/batch/array, line protocol via /write,
//	         /api/v2/write, /api/v1/write/line-protocol, LP and CSV import) with a recording
//	         RBACChecker that allows (prod, cpu|mem) only -> real ArrowBuffer (+ real wal.Writer)
//	         -> flush -> recording storage backend
//	replica  the WAL payloads the live leg handed to the replication hook, applied with the real
//	         replication.Receiver.applyEntry + Coordinator.buildReplicationIngestHandler to a
//	         second ArrowBuffer -> flush
//	replay   the same payloads written to a WAL and recovered by the overlaid arc binary through
//	         createWALRecoveryCallback / createColumnarRecoveryCallback (cmd/arc/main.go)
//
// A stored file path is database/measurement/...; every stored (database, measurement) must be a
// pair whose write permission was checked (and granted) for this request, under a database the
// request named in its header / query (or "default").
package main

import (
	"bytes"
	"context"
	"encoding/base64"
	"encoding/json"
	"flag"
	"fmt"
	"io"
	"mime/multipart"
	"net"
	"net/http"
	"net/http/httptest"
	"os"
	"os/exec"
	"path/filepath"
	"sort"
	"strings"
	"sync"

	"github.com/Basekick-Labs/msgpack/v6"
	"github.com/apache/arrow-go/v18/parquet/file"
	"github.com/basekick-labs/arc/internal/api"
	"github.com/basekick-labs/arc/internal/auth"
	"github.com/basekick-labs/arc/internal/cluster"
	"github.com/basekick-labs/arc/internal/cluster/replication"
	"github.com/basekick-labs/arc/internal/config"
	"github.com/basekick-labs/arc/internal/ingest"
	"github.com/basekick-labs/arc/internal/wal"
	"github.com/gofiber/fiber/v2"
	"github.com/rs/zerolog"
	"github.com/valyala/fasthttp/fasthttputil"
)

type decoy struct {
	Name string `json:"name"`
	Pos  string `json:"pos"`
	Vt   string `json:"vt"`
}

type scenario struct {
	Form     string     `json:"form"`
	Hdr      string     `json:"hdr"`
	Q        string     `json:"q"`
	Meas     string     `json:"meas"`
	Dup      string     `json:"dup"`
	Decoys   []decoy    `json:"decoys"`
	Db       string     `json:"db"`
	Rejected bool       `json:"rejected"`
	Checks   [][]string `json:"checks"`
	Live     [][]string `json:"live"`
	Wal      string     `json:"wal"`
	Replay   [][]string `json:"replay"`
	Replica  [][]string `json:"replica"`
}

type finding struct {
	Signature string      `json:"signature"`
	Witness   interface{} `json:"witness"`
}

type result struct {
	Infra       string         `json:"infra,omitempty"`
	Requests    int            `json:"requests"`
	Accepted    int            `json:"accepted"`
	Rejected    int            `json:"rejected"`
	WalEntries  int            `json:"wal_entries"`
	ReplayJobs  int            `json:"replay_jobs"`
	ReplayLeg   bool           `json:"replay_leg"`
	Sequences   int            `json:"sequences"`
	SeqRows     map[string]int `json:"sequence_rows_per_leg"`
	PerForm     map[string]int `json:"per_form"`
	PerLegFiles map[string]int `json:"files_per_leg"`
	Violations  []finding      `json:"violations"`
	Drift       []finding      `json:"drift"`
	Samples     []interface{}  `json:"samples"`
}

// ---------------------------------------------------------------- recording pieces

type recBackend struct {
	mu     sync.Mutex
	writes []string
	rows   map[string]int // "db/measurement" -> rows of the Parquet files written there
}

// parquetRows reads the row count from the Parquet footer.
func parquetRows(data []byte) int {
	rd, err := file.NewParquetReader(bytes.NewReader(data))
	if err != nil {
		return -1
	}
	defer rd.Close()
	return int(rd.NumRows())
}

func pairKey(path string) string {
	seg := strings.Split(path, "/")
	if len(seg) < 3 {
		return path
	}
	return seg[0] + "/" + seg[1]
}

func (b *recBackend) Write(ctx context.Context, path string, data []byte) error {
	n := 0
	if len(data) > 0 {
		n = parquetRows(data)
	}
	b.mu.Lock()
	b.writes = append(b.writes, path)
	if b.rows == nil {
		b.rows = map[string]int{}
	}
	b.rows[pairKey(path)] += n
	b.mu.Unlock()
	return nil
}

func (b *recBackend) takeRows() map[string]int {
	b.mu.Lock()
	r := b.rows
	b.rows = nil
	b.writes = nil
	b.mu.Unlock()
	if r == nil {
		r = map[string]int{}
	}
	return r
}
func (b *recBackend) WriteReader(ctx context.Context, path string, r io.Reader, size int64) error {
	_, _ = io.Copy(io.Discard, r)
	return b.Write(ctx, path, nil)
}
func (b *recBackend) take() []string {
	b.mu.Lock()
	w := b.writes
	b.writes = nil
	b.rows = nil
	b.mu.Unlock()
	return w
}
func (b *recBackend) Read(ctx context.Context, path string) ([]byte, error) {
	return nil, fmt.Errorf("not found")
}
func (b *recBackend) ReadTo(ctx context.Context, path string, w io.Writer) error {
	return fmt.Errorf("not found")
}
func (b *recBackend) ReadToAt(ctx context.Context, path string, w io.Writer, off int64) error {
	return fmt.Errorf("not found")
}
func (b *recBackend) StatFile(ctx context.Context, path string) (int64, error) { return -1, nil }
func (b *recBackend) List(ctx context.Context, prefix string) ([]string, error) {
	return nil, nil
}
func (b *recBackend) Delete(ctx context.Context, path string) error         { return nil }
func (b *recBackend) Exists(ctx context.Context, path string) (bool, error) { return false, nil }
func (b *recBackend) Close() error                                          { return nil }
func (b *recBackend) Type() string                                          { return "verifmem" }
func (b *recBackend) ConfigJSON() string                                    { return "{}" }

type check struct {
	Db, Meas, Perm string
	Allowed        bool
}

// recChecker allows write on (prod, cpu) and (prod, mem) and records every question asked.
type recChecker struct {
	mu     sync.Mutex
	checks []check
}

func (r *recChecker) IsRBACEnabled() bool { return true }
func (r *recChecker) CheckPermission(req *auth.PermissionCheckRequest) *auth.PermissionCheckResult {
	home := "prod" // tenant 1 (token 7) may write prod, tenant 2 (token 8) may write other
	if req.TokenInfo != nil && req.TokenInfo.ID == 8 {
		home = "other"
	}
	if req.TokenInfo != nil && req.TokenInfo.ID == 9 {
		home = "default" // tenant 3
	}
	ok := req.Permission == "write" && req.Database == home && (req.Measurement == "cpu" || req.Measurement == "mem")
	r.mu.Lock()
	r.checks = append(r.checks, check{strings.Clone(req.Database), strings.Clone(req.Measurement), req.Permission, ok})
	r.mu.Unlock()
	if ok {
		return &auth.PermissionCheckResult{Allowed: true, Source: "rbac"}
	}
	return &auth.PermissionCheckResult{Allowed: false, Source: "denied", Reason: "verif: not in the allowed set"}
}
func (r *recChecker) CheckPermissionsBatch(reqs []*auth.PermissionCheckRequest) []*auth.PermissionCheckResult {
	out := make([]*auth.PermissionCheckResult, len(reqs))
	for i, q := range reqs {
		out[i] = r.CheckPermission(q)
	}
	return out
}
func (r *recChecker) take() []check {
	r.mu.Lock()
	c := r.checks
	r.checks = nil
	r.mu.Unlock()
	return c
}

// ---------------------------------------------------------------- request construction

const tsSec = int64(1700000000)

func measOf(s string) []string {
	switch s {
	case "ok":
		return []string{"cpu"}
	case "okmem":
		return []string{"mem"}
	case "denied":
		return []string{"secret"}
	case "mixed":
		return []string{"cpu", "secret"}
	default:
		return []string{"cpu", "mem"}
	}
}

func decoyStr(d decoy) string {
	if d.Name == "database" || d.Name == "_database" {
		return "other"
	}
	return "secret"
}

func decoyVal(d decoy) interface{} {
	if d.Vt == "int" {
		return int64(5)
	}
	return decoyStr(d)
}

// payloadMeas lists the measurement names the payload of the scenario carries.
func payloadMeas(sc *scenario) []string {
	switch sc.Dup {
	case "m_ok_denied":
		return []string{"cpu", "secret"} // first, last
	case "m_denied_ok":
		return []string{"secret", "cpu"}
	}
	return measOf(sc.Meas)
}

type kv struct {
	k string
	v interface{}
}

// encodeMapPairs writes a MessagePack map from an ordered list of pairs; keys may repeat
// (no encoder API produces that, so the map header and the pairs are written one by one).
func encodeMapPairs(pairs []kv) ([]byte, error) {
	var buf bytes.Buffer
	enc := msgpack.NewEncoder(&buf)
	if err := enc.EncodeMapLen(len(pairs)); err != nil {
		return nil, err
	}
	for _, p := range pairs {
		if err := enc.EncodeString(p.k); err != nil {
			return nil, err
		}
		if err := enc.Encode(p.v); err != nil {
			return nil, err
		}
	}
	return buf.Bytes(), nil
}

// withDup turns a top-level payload map into ordered pairs with the scenario's duplicate keys:
// the first occurrence leads, the differing last occurrence trails.
func withDup(sc *scenario, m map[string]interface{}) []kv {
	var pairs []kv
	pm := payloadMeas(sc)
	switch sc.Dup {
	case "m_ok_denied", "m_denied_ok":
		pairs = append(pairs, kv{"m", pm[0]})
	case "db_dup":
		pairs = append(pairs, kv{"database", "other"}, kv{"_database", "other"}, kv{"m", m["m"]})
	default:
		pairs = append(pairs, kv{"m", m["m"]})
	}
	keys := make([]string, 0, len(m))
	for k := range m {
		if k != "m" {
			keys = append(keys, k)
		}
	}
	sort.Strings(keys)
	for _, k := range keys {
		pairs = append(pairs, kv{k, m[k]})
	}
	switch sc.Dup {
	case "m_ok_denied", "m_denied_ok":
		pairs = append(pairs, kv{"m", pm[1]})
	case "db_dup":
		pairs = append(pairs, kv{"database", "prod"}, kv{"_database", "prod"})
	}
	return pairs
}

func buildRequest(sc *scenario) (*http.Request, error) {
	ms := measOf(sc.Meas)
	var path, ctype string
	var body []byte
	qkey := "db"
	mkRow := func(m string) map[string]interface{} {
		fields := map[string]interface{}{"v": 1.5}
		tags := map[string]interface{}{"src": "verif"}
		for _, d := range sc.Decoys {
			if d.Pos == "tag" {
				tags[d.Name] = decoyVal(d)
			} else {
				fields[d.Name] = decoyVal(d)
			}
		}
		return map[string]interface{}{"m": m, "t": tsSec * 1000, "fields": fields, "tags": tags}
	}
	mkCol := func(m string) map[string]interface{} {
		cols := map[string]interface{}{"time": []interface{}{tsSec * 1000000}, "v": []interface{}{1.5}}
		for _, d := range sc.Decoys {
			cols[d.Name] = []interface{}{decoyVal(d)}
		}
		return map[string]interface{}{"m": m, "columns": cols}
	}
	lpLines := func() []byte {
		var sb strings.Builder
		for _, m := range ms {
			sb.WriteString(m + ",src=verif")
			for _, d := range sc.Decoys {
				if d.Pos == "tag" {
					sb.WriteString("," + d.Name + "=" + decoyStr(d))
				}
			}
			sb.WriteString(" v=1.5")
			for _, d := range sc.Decoys {
				if d.Pos == "field" {
					if d.Vt == "int" {
						sb.WriteString("," + d.Name + "=5i")
					} else {
						sb.WriteString("," + d.Name + "=\"" + decoyStr(d) + "\"")
					}
				}
			}
			sb.WriteString(fmt.Sprintf(" %d\n", tsSec*1000000000))
		}
		return []byte(sb.String())
	}
	multipartFile := func(name string, content []byte) ([]byte, string, error) {
		var buf bytes.Buffer
		w := multipart.NewWriter(&buf)
		fw, err := w.CreateFormFile("file", name)
		if err != nil {
			return nil, "", err
		}
		_, _ = fw.Write(content)
		_ = w.Close()
		return buf.Bytes(), w.FormDataContentType(), nil
	}
	var err error
	extraQ := ""
	switch sc.Form {
	case "mp_col":
		path, ctype = "/api/v1/write/msgpack", "application/msgpack"
		body, err = encodeMapPairs(withDup(sc, mkCol(ms[0])))
	case "mp_row":
		path, ctype = "/api/v1/write/msgpack", "application/msgpack"
		body, err = encodeMapPairs(withDup(sc, mkRow(ms[0])))
	case "mp_batch":
		path, ctype = "/api/v1/write/msgpack", "application/msgpack"
		items := []interface{}{}
		for _, m := range ms {
			items = append(items, mkCol(m))
		}
		body, err = msgpack.Marshal(map[string]interface{}{"batch": items})
	case "mp_array":
		path, ctype = "/api/v1/write/msgpack", "application/msgpack"
		items := []interface{}{}
		for _, m := range ms {
			items = append(items, mkRow(m))
		}
		body, err = msgpack.Marshal(items)
	case "lp_v1":
		path, ctype, body = "/write", "text/plain", lpLines()
	case "lp_v2":
		path, ctype, body = "/api/v2/write", "text/plain", lpLines()
		qkey = "bucket"
		extraQ = "org=o"
	case "lp_simple":
		path, ctype, body = "/api/v1/write/line-protocol", "text/plain", lpLines()
	case "import_lp":
		path = "/api/v1/import/lp"
		body, ctype, err = multipartFile("data.lp", lpLines())
	case "import_csv":
		path = "/api/v1/import/csv"
		hdr := []string{"time", "v"}
		row := []string{fmt.Sprint(tsSec), "1.5"}
		for _, d := range sc.Decoys {
			hdr = append(hdr, d.Name)
			if d.Vt == "int" {
				row = append(row, "5")
			} else {
				row = append(row, decoyStr(d))
			}
		}
		extraQ = "measurement=" + ms[0] + "&time_format=epoch_s"
		body, ctype, err = multipartFile("data.csv", []byte(strings.Join(hdr, ",")+"\n"+strings.Join(row, ",")+"\n"))
	default:
		return nil, fmt.Errorf("unknown form %s", sc.Form)
	}
	if err != nil {
		return nil, err
	}
	var qs []string
	if sc.Q != "none" {
		qs = append(qs, qkey+"="+sc.Q)
	}
	if extraQ != "" {
		qs = append(qs, extraQ)
	}
	url := path
	if len(qs) > 0 {
		url += "?" + strings.Join(qs, "&")
	}
	req := httptest.NewRequest("POST", url, bytes.NewReader(body))
	req.Header.Set("Content-Type", ctype)
	if sc.Hdr != "none" {
		req.Header.Set("x-arc-database", sc.Hdr)
	}
	return req, nil
}

// ---------------------------------------------------------------- judgement

func pairsOf(paths []string) [][]string {
	seen := map[string]bool{}
	var out [][]string
	for _, p := range paths {
		seg := strings.Split(p, "/")
		if len(seg) < 3 {
			seg = append(seg, "?", "?")
		}
		k := seg[0] + "\x00" + seg[1]
		if !seen[k] {
			seen[k] = true
			out = append(out, []string{seg[0], seg[1]})
		}
	}
	sort.Slice(out, func(i, j int) bool { return out[i][0]+"/"+out[i][1] < out[j][0]+"/"+out[j][1] })
	return out
}

func sameSet(a, b [][]string) bool {
	if len(a) != len(b) {
		return false
	}
	m := map[string]bool{}
	for _, p := range a {
		m[p[0]+"\x00"+p[1]] = true
	}
	for _, p := range b {
		if !m[p[0]+"\x00"+p[1]] {
			return false
		}
	}
	return true
}

type judge struct {
	res      *result
	violSeen map[string]bool
	drift    map[string]bool
}

func (j *judge) leg(leg string, sc *scenario, status int, checks []check, stored [][]string, predicted [][]string, witness map[string]interface{}) {
	j.res.PerLegFiles[leg] += len(stored)
	walClass := "rows"
	if sc.Form == "mp_col" {
		walClass = "env"
	}
	where := leg
	if leg != "live" {
		where = leg + ":" + walClass + "-entry"
	} else {
		where = leg + ":" + sc.Form
	}
	addV := func(sig string) {
		if !j.violSeen[sig] {
			j.violSeen[sig] = true
			w := map[string]interface{}{}
			for k, v := range witness {
				w[k] = v
			}
			w["leg"] = leg
			w["stored_here"] = stored
			j.res.Violations = append(j.res.Violations, finding{sig, w})
		}
	}
	named := map[string]bool{"default": true}
	if sc.Hdr != "none" {
		named[sc.Hdr] = true
	}
	if sc.Q != "none" {
		named[sc.Q] = true
	}
	granted := map[string]bool{}
	anyDenied := false
	for _, c := range checks {
		if c.Perm == "write" && c.Allowed {
			granted[c.Db+"\x00"+c.Meas] = true
		}
		if !c.Allowed {
			anyDenied = true
		}
	}
	grantedMeas := map[string]bool{}
	for _, c := range checks {
		if c.Perm == "write" && c.Allowed {
			grantedMeas[c.Meas] = true
		}
	}
	if len(stored) > 0 && (anyDenied || status >= 300) {
		// one signature per leg: what was stored for a request that was refused
		addV(where + ":rows-stored-for-a-rejected-request")
	} else {
		for _, p := range stored {
			db, m := p[0], p[1]
			if !named[db] || !checkedDb(checks, db) {
				cause := "unexplained"
				for _, d := range sc.Decoys {
					if (d.Name == "database" || d.Name == "_database") && d.Vt == "str" && decoyStr(d) == db {
						cause = "payload-key-" + d.Name
					}
				}
				if cause == "unexplained" && db == "default" {
					cause = "request-database-dropped-falls-to-default"
					if leg == "replay" {
						for _, d := range sc.Decoys {
							if d.Name == "_database" && d.Vt == "int" {
								cause = "nonstring-_database-falls-to-default"
							}
						}
					}
				}
				if len(checks) == 0 {
					cause = "no-permission-check-made"
				}
				addV(where + ":database-not-the-one-named-and-checked:" + cause)
			}
			if !grantedMeas[m] || (named[db] && checkedDb(checks, db) && !granted[db+"\x00"+m]) {
				cause := "unexplained"
				for _, d := range sc.Decoys {
					if d.Name != "database" && d.Name != "_database" && d.Vt == "str" && decoyStr(d) == m {
						cause = "payload-key-" + d.Name
					}
				}
				if leg != "live" && walClass == "env" && (sc.Dup == "m_ok_denied" || sc.Dup == "m_denied_ok") {
					cause = "duplicate-m-key-decoded-differently-than-by-the-handler"
				}
				if leg == "live" {
					for _, rm := range payloadMeas(sc) {
						if rm == m {
							cause = "payload-measurement-never-checked"
						}
					}
				}
				if len(checks) == 0 {
					cause = "no-permission-check-made"
				}
				addV(where + ":measurement-without-granted-write-check:" + cause)
			}
		}
	}
	if !sameSet(stored, predicted) {
		k := fmt.Sprintf("%s leg, form %s: stored %v, WriteAuth.tla predicts %v", leg, sc.Form, stored, predicted)
		short := fmt.Sprintf("%s|%s", leg, sc.Form)
		if !j.drift[short] {
			j.drift[short] = true
			j.res.Drift = append(j.res.Drift, finding{k, witness})
		}
	}
}

func checkedDb(checks []check, db string) bool {
	for _, c := range checks {
		if c.Db == db {
			return true
		}
	}
	return false
}

// ---------------------------------------------------------------- main

func main() {
	scenPath := flag.String("scenarios", "", "scenarios json (TLC TRACE payloads)")
	outPath := flag.String("out", "", "result json")
	seqPath := flag.String("seq", "", "two-request sequences json (WalSeq.tla TRACE payloads)")
	arcBin := flag.String("arc", "", "overlaid arc binary with the writeauth child entry (empty: skip the replay leg)")
	tmp := flag.String("tmp", "", "scratch directory")
	flag.Parse()
	res := &result{PerForm: map[string]int{}, PerLegFiles: map[string]int{}, SeqRows: map[string]int{}}
	if err := run(*scenPath, *seqPath, *arcBin, *tmp, res); err != nil {
		res.Infra = err.Error()
	}
	f, _ := os.Create(*outPath)
	_ = json.NewEncoder(f).Encode(res)
	f.Close()
}

type pending struct {
	sc      *scenario
	status  int
	checks  []check
	witness map[string]interface{}
}

type seqReq struct {
	Form string `json:"form"`
	Db   string `json:"db"`
	M    string `json:"m"`
}

type seqScenario struct {
	Reqs   []seqReq        `json:"reqs"`
	Expect [][]interface{} `json:"expect"` // [db, m, rows]
}

const seqJobBase = 1000000

func run(scenPath, seqPath, arcBin, tmp string, res *result) error {
	raw, err := os.ReadFile(scenPath)
	if err != nil {
		return err
	}
	var scs []scenario
	if err := json.Unmarshal(raw, &scs); err != nil {
		return err
	}
	logger := zerolog.Nop()
	icfg := func() *config.IngestConfig {
		return &config.IngestConfig{MaxBufferSize: 1000000, MaxBufferAgeMS: 3600000, Compression: "snappy",
			FlushWorkers: 1, FlushQueueSize: 8, ShardCount: 2}
	}
	// live leg
	storeA := &recBackend{}
	bufA := ingest.NewArrowBuffer(icfg(), storeA, logger)
	walA, err := wal.NewWriter(&wal.WriterConfig{WALDir: filepath.Join(tmp, "wal_live"), SyncMode: wal.SyncModeAsync, Logger: logger})
	if err != nil {
		return fmt.Errorf("live wal: %w", err)
	}
	defer walA.Close()
	var hookMu sync.Mutex
	var hooked [][]byte
	// In the sequence leg the hook keeps the entry BY REFERENCE, exactly like the coordinator's hook +
	// replication.Sender queue do (Replicate enqueues the *ReplicateEntry, the payload is not copied),
	// and the queue is drained only after both requests were handed over.
	hookByRef := false
	walA.SetReplicationHook(func(e *wal.ReplicationEntry) {
		cp := e.Payload
		if !hookByRef {
			cp = append([]byte(nil), e.Payload...)
		}
		hookMu.Lock()
		hooked = append(hooked, cp)
		hookMu.Unlock()
	})
	bufA.SetWAL(walA)
	checker := &recChecker{}
	app := fiber.New(fiber.Config{DisableStartupMessage: true, BodyLimit: 64 << 20})
	app.Use(func(c *fiber.Ctx) error {
		ti := &auth.TokenInfo{ID: 7, Name: "verif-writer", Permissions: []string{"write"}, Enabled: true}
		if c.Get("x-verif-tenant") == "2" {
			ti = &auth.TokenInfo{ID: 8, Name: "verif-writer-2", Permissions: []string{"write"}, Enabled: true}
		}
		if c.Get("x-verif-tenant") == "3" {
			ti = &auth.TokenInfo{ID: 9, Name: "verif-writer-3", Permissions: []string{"write"}, Enabled: true}
		}
		c.Locals("token_info", ti)
		return c.Next()
	})
	mp := api.NewMsgPackHandler(logger, bufA, 64<<20)
	mp.SetAuthAndRBAC(nil, checker)
	mp.RegisterRoutes(app)
	lp := api.NewLineProtocolHandler(bufA, logger)
	lp.SetAuthAndRBAC(nil, checker)
	lp.RegisterRoutes(app)
	imp := api.NewImportHandler(logger)
	imp.SetArrowBuffer(bufA)
	imp.SetAuthAndRBAC(nil, checker)
	imp.RegisterRoutes(app)

	// replica leg
	storeB := &recBackend{}
	bufB := ingest.NewArrowBuffer(icfg(), storeB, logger)
	walB, err := wal.NewWriter(&wal.WriterConfig{WALDir: filepath.Join(tmp, "wal_replica"), SyncMode: wal.SyncModeAsync, Logger: logger})
	if err != nil {
		return fmt.Errorf("replica wal: %w", err)
	}
	defer walB.Close()
	rcv := replication.NewReceiver(&replication.ReceiverConfig{ReaderID: "verif-reader", LocalWAL: walB,
		IngestHandler: cluster.VerifReplicationIngestHandler(bufB), Logger: logger})
	var seq uint64

	j := &judge{res: res, violSeen: map[string]bool{}, drift: map[string]bool{}}
	type job struct {
		ID       int      `json:"id"`
		Payloads []string `json:"payloads"`
	}
	var jobs []job
	pend := map[int]*pending{}
	ctx := context.Background()

	for i := range scs {
		sc := &scs[i]
		req, err := buildRequest(sc)
		if err != nil {
			return err
		}
		resp, err := app.Test(req, -1)
		if err != nil {
			return fmt.Errorf("request %d (%s): %w", i, sc.Form, err)
		}
		body, _ := io.ReadAll(resp.Body)
		resp.Body.Close()
		res.Requests++
		res.PerForm[sc.Form]++
		if err := bufA.FlushAll(ctx); err != nil {
			return fmt.Errorf("live flush: %w", err)
		}
		live := pairsOf(storeA.take())
		checks := checker.take()
		hookMu.Lock()
		payloads := hooked
		hooked = nil
		hookMu.Unlock()
		res.WalEntries += len(payloads)
		if resp.StatusCode < 300 {
			res.Accepted++
		} else {
			res.Rejected++
		}
		if resp.StatusCode >= 500 || resp.StatusCode == 404 || resp.StatusCode == 405 {
			return fmt.Errorf("request %d (%s hdr=%s q=%s meas=%s decoys=%v) answered %d: %s", i, sc.Form, sc.Hdr, sc.Q, sc.Meas,
				sc.Decoys, resp.StatusCode, string(body))
		}
		var chk [][]interface{}
		for _, c := range checks {
			chk = append(chk, []interface{}{c.Db, c.Meas, c.Perm, c.Allowed})
		}
		wit := map[string]interface{}{"form": sc.Form, "header_db": sc.Hdr, "query_db": sc.Q, "measurements": payloadMeas(sc), "duplicate_top_level_keys": sc.Dup,
			"routing_like_names_in_payload": sc.Decoys, "status": resp.StatusCode, "permission_checks": chk,
			"stored_live": live, "wal_entries": len(payloads)}
		if len(res.Samples) < 4 && len(live) > 0 && len(sc.Decoys) > 0 {
			res.Samples = append(res.Samples, wit)
		}
		if sc.Rejected != (resp.StatusCode >= 300) {
			k := fmt.Sprintf("form %s hdr=%s q=%s meas=%s answered %d, WriteAuth.tla predicts rejected=%v", sc.Form, sc.Hdr, sc.Q, sc.Meas, resp.StatusCode, sc.Rejected)
			if !j.drift["status|"+sc.Form] {
				j.drift["status|"+sc.Form] = true
				res.Drift = append(res.Drift, finding{k, wit})
			}
		}
		j.leg("live", sc, resp.StatusCode, checks, live, sc.Live, wit)

		// replica leg: the entries a reader would receive for this request
		for _, p := range payloads {
			seq++
			if err := rcv.VerifApplyEntry(ctx, &replication.ReplicateEntry{Sequence: seq, Payload: p}); err != nil {
				return fmt.Errorf("applyEntry: %w", err)
			}
		}
		if err := bufB.FlushAll(ctx); err != nil {
			return fmt.Errorf("replica flush: %w", err)
		}
		replica := pairsOf(storeB.take())
		j.leg("replica", sc, resp.StatusCode, checks, replica, sc.Replica, wit)

		if len(payloads) > 0 || len(sc.Replay) > 0 {
			jb := job{ID: i}
			for _, p := range payloads {
				jb.Payloads = append(jb.Payloads, base64.StdEncoding.EncodeToString(p))
			}
			jobs = append(jobs, jb)
			pend[i] = &pending{sc: sc, status: resp.StatusCode, checks: checks, witness: wit}
		}
	}

	// ---- two-request sequences through ONE WAL / one replication stream (WalSeq.tla)
	var seqs []seqScenario
	if seqPath != "" {
		rawS, err := os.ReadFile(seqPath)
		if err != nil {
			return err
		}
		if err := json.Unmarshal(rawS, &seqs); err != nil {
			return err
		}
	}
	// both requests of a sequence travel over ONE keep-alive connection, so fasthttp serves them with one
	// RequestCtx and one request-body buffer (the second body overwrites the first)
	seqLn := fasthttputil.NewInmemoryListener()
	go func() { _ = app.Listener(seqLn) }()
	seqClient := &http.Client{Transport: &http.Transport{
		DialContext:     func(ctx context.Context, network, addr string) (net.Conn, error) { return seqLn.Dial() },
		MaxConnsPerHost: 1, MaxIdleConnsPerHost: 1}}
	defer seqLn.Close()
	hookByRef = len(seqs) > 0
	seqWit := map[int]map[string]interface{}{}
	judgeSeq := func(leg string, k int, got map[string]int) {
		sq := &seqs[k]
		want := map[string]int{}
		for _, e := range sq.Expect {
			want[fmt.Sprint(e[0])+"/"+fmt.Sprint(e[1])] = int(e[2].(float64))
		}
		for pk, n := range got {
			res.SeqRows[leg] += n
			if n > want[pk] {
				sig := leg + ":sequence:rows-of-one-request-stored-under-the-database-or-measurement-of-another"
				if !j.violSeen[sig] {
					j.violSeen[sig] = true
					w := map[string]interface{}{"leg": leg, "stored_rows": got, "rows_each_request_was_checked_for": want}
					for kk, v := range seqWit[k] {
						w[kk] = v
					}
					res.Violations = append(res.Violations, finding{sig, w})
				}
			}
		}
		same := len(got) == len(want)
		for pk, n := range want {
			if got[pk] != n {
				same = false
			}
		}
		if !same && !j.drift["seq|"+leg] {
			j.drift["seq|"+leg] = true
			res.Drift = append(res.Drift, finding{fmt.Sprintf("%s leg, sequence %v: stored rows %v, WalSeq.tla predicts %v", leg, sq.Reqs, got, want), seqWit[k]})
		}
	}
	for k := range seqs {
		sq := &seqs[k]
		var payloads [][]byte
		var statuses []int
		for _, rq := range sq.Reqs {
			ms := "ok"
			if rq.M == "mem" {
				ms = "okmem"
			}
			sc := &scenario{Form: rq.Form, Hdr: rq.Db, Q: "none", Meas: ms, Dup: "none"}
			req, err := buildRequest(sc)
			if err != nil {
				return err
			}
			if rq.Db == "other" {
				req.Header.Set("x-verif-tenant", "2")
			}
			if rq.Db == "default" {
				req.Header.Set("x-verif-tenant", "3")
			}
			rb, _ := io.ReadAll(req.Body)
			creq, err := http.NewRequest(req.Method, "http://wa.verif"+req.URL.RequestURI(), bytes.NewReader(rb))
			if err != nil {
				return err
			}
			creq.Header = req.Header
			resp, err := seqClient.Do(creq)
			if err != nil {
				return fmt.Errorf("sequence request: %w", err)
			}
			_, _ = io.ReadAll(resp.Body)
			resp.Body.Close()
			statuses = append(statuses, resp.StatusCode)
			if resp.StatusCode >= 300 {
				return fmt.Errorf("sequence request %v answered %d", rq, resp.StatusCode)
			}
		}
		if err := bufA.FlushAll(ctx); err != nil {
			return err
		}
		live := storeA.takeRows()
		checker.take()
		hookMu.Lock()
		payloads = hooked
		hooked = nil
		hookMu.Unlock()
		res.Sequences++
		seqWit[k] = map[string]interface{}{"requests_in_wal_order": sq.Reqs, "statuses": statuses, "wal_entries": len(payloads)}
		judgeSeq("live", k, live)
		for _, p := range payloads {
			seq++
			if err := rcv.VerifApplyEntry(ctx, &replication.ReplicateEntry{Sequence: seq, Payload: p}); err != nil {
				return fmt.Errorf("applyEntry: %w", err)
			}
		}
		if err := bufB.FlushAll(ctx); err != nil {
			return err
		}
		judgeSeq("replica", k, storeB.takeRows())
		jb := job{ID: seqJobBase + k}
		for _, p := range payloads {
			jb.Payloads = append(jb.Payloads, base64.StdEncoding.EncodeToString(p))
		}
		jobs = append(jobs, jb)
	}

	if arcBin == "" {
		return nil
	}
	res.ReplayLeg = true
	jobFile := filepath.Join(tmp, "replay_jobs.json")
	outFile := filepath.Join(tmp, "replay_out.json")
	jb, _ := json.Marshal(jobs)
	if err := os.WriteFile(jobFile, jb, 0o644); err != nil {
		return err
	}
	cmd := exec.Command(arcBin)
	cmd.Env = append(os.Environ(), "ARC_VERIF_WRITEAUTH_REPLAY="+jobFile, "ARC_VERIF_WRITEAUTH_OUT="+outFile,
		"ARC_VERIF_WRITEAUTH_TMP="+filepath.Join(tmp, "replay_wal"))
	cmd.Dir = tmp
	if out, err := cmd.CombinedOutput(); err != nil {
		return fmt.Errorf("replay child: %v: %s", err, tail(string(out)))
	}
	rawOut, err := os.ReadFile(outFile)
	if err != nil {
		return fmt.Errorf("replay child wrote no result: %w", err)
	}
	var outs []struct {
		ID      int      `json:"id"`
		Paths   []string       `json:"paths"`
		Rows    map[string]int `json:"rows"`
		Entries int            `json:"entries"`
		Err     string         `json:"err"`
	}
	if err := json.Unmarshal(rawOut, &outs); err != nil {
		return err
	}
	if len(outs) != len(jobs) {
		return fmt.Errorf("replay child answered %d of %d jobs", len(outs), len(jobs))
	}
	for _, o := range outs {
		if o.ID >= seqJobBase {
			if o.Err != "" {
				return fmt.Errorf("replay child sequence job %d: %s", o.ID, o.Err)
			}
			if o.Rows == nil {
				o.Rows = map[string]int{}
			}
			judgeSeq("replay", o.ID-seqJobBase, o.Rows)
			continue
		}
		p := pend[o.ID]
		if p == nil {
			return fmt.Errorf("replay child answered unknown job %d", o.ID)
		}
		if o.Err != "" {
			return fmt.Errorf("replay child job %d: %s", o.ID, o.Err)
		}
		res.ReplayJobs++
		j.leg("replay", p.sc, p.status, p.checks, pairsOf(o.Paths), p.sc.Replay, p.witness)
	}
	return nil
}

func tail(s string) string {
	if len(s) > 1500 {
		return s[len(s)-1500:]
	}
	return s
}

// Command localfs is the C08 driver (storage keys stay inside the root; files appear atomically).
//
//	-mode keys   every key enumerated by TLC from specs/localfs/LocalFSKeys.tla (plus hand-made and
//	             seeded random byte strings) goes through the real storage.LocalBackend operations,
//	             through raft.ValidateManifestPath and through edgesync's validateSyncPath /
//	             validateSpokeID / NamespacedPath / stagingPathFor. The oracle is the real file system:
//	             the backend root lives in scratch/G/P/R, and after every operation P and G are
//	             listed: anything created, changed or removed outside R, a decoy file outside R that
//	             was read, and any absolute path returned by the backend that is not below R, is an
//	             observation of a key that left the root. TLC's prediction (accepted / resolved path /
//	             validators) is compared as a drift detector.
//	-mode crash  every scenario enumerated by TLC from specs/localfs/LocalFS.tla (operation x chunks x
//	             reader failure point x prior final/.part state) is run in a child process under
//	             strace; the syscall log becomes (1) a trace for TLC (LocalFSTrace.tla evaluates the
//	             atomicity invariant after every call) and (2) the list of crash points: the child is
//	             re-run once per crash point with strace's SIGKILL injection at the entry of that
//	             syscall and the real directory is inspected after each kill.
//	-mode child  one operation, bracketed by two marker syscalls (the process strace runs).
package main

import (
	"bytes"
	"context"
	"encoding/json"
	"errors"
	"flag"
	"fmt"
	"io"
	"math/rand"
	"os"
	"os/exec"
	"path/filepath"
	"regexp"
	"runtime"
	"sort"
	"strconv"
	"strings"
	"syscall"
	"time"

	"github.com/basekick-labs/arc/internal/cluster/raft"
	"github.com/basekick-labs/arc/internal/edgesync"
	"github.com/basekick-labs/arc/internal/storage"
	"github.com/rs/zerolog"
)

func init() { runtime.LockOSThread() } // main goroutine stays on the initial thread: strace (without -f) sees all of its syscalls

type finding struct {
	Signature string                 `json:"signature"`
	Witness   map[string]interface{} `json:"witness"`
}

type findings struct {
	list  []finding
	count map[string]int
}

func (f *findings) add(sig string, w map[string]interface{}) {
	if f.count == nil {
		f.count = map[string]int{}
	}
	f.count[sig]++
	if f.count[sig] == 1 {
		f.list = append(f.list, finding{sig, w})
	}
}

func (f *findings) out() []finding {
	for i := range f.list {
		f.list[i].Witness["occurrences"] = f.count[f.list[i].Signature]
	}
	return f.list
}

func writeJSON(path string, v interface{}) {
	b, _ := json.Marshal(v)
	if err := os.WriteFile(path, b, 0o644); err != nil {
		fmt.Fprintln(os.Stderr, err)
		os.Exit(2)
	}
}

// =====================================================================================
// mode keys
// =====================================================================================

type keyRec struct {
	Key   []string   `json:"key"`
	Acc   bool       `json:"acc"`
	Rel   [][]string `json:"rel"`
	Alias bool       `json:"alias"`
	Obj   bool       `json:"obj"`
	Man   bool       `json:"man"`
	Sync  bool       `json:"sync"`
	Spoke bool       `json:"spoke"`
}

type keysResult struct {
	Keys         int            `json:"keys"`
	Concrete     int            `json:"concrete_keys"`
	Ops          int            `json:"operations"`
	Accepted     int            `json:"accepted"`
	Rejected     int            `json:"rejected"`
	Aliases      int            `json:"root_alias_keys"`
	ManifestOK   int            `json:"manifest_accepted"`
	SyncOK       int            `json:"sync_accepted"`
	SpokeOK      int            `json:"spoke_accepted"`
	Exotic       int            `json:"exotic_keys"`
	RootRemoved  int            `json:"root_directory_removed_by_alias_key"`
	PerVariant   map[string]int `json:"per_variant"`
	Violations   []finding      `json:"violations"`
	Drift        []finding      `json:"drift"`
	Samples      []interface{}  `json:"samples"`
	Infra        string         `json:"infra,omitempty"`
	NontrivialKs []string       `json:"nontrivial_keys"`
}

var variants = []struct{ name, a string }{
	{"ascii", "s"}, {"utf8-2byte", "é"}, {"space", " "}, {"tilde", "~"}, {"utf8-4byte", "𝒳"}, {"underscore", "_"},
}

func concretize(chars []string, a string) string {
	var sb strings.Builder
	for _, c := range chars {
		switch c {
		case "/":
			sb.WriteByte('/')
		case ".":
			sb.WriteByte('.')
		case "0":
			sb.WriteByte(0)
		case "b":
			sb.WriteByte('\\')
		case "_":
			sb.WriteByte('_')
		case "r":
			sb.WriteString(rootName) // the root directory's own base name
		default:
			sb.WriteString(a)
		}
	}
	return sb.String()
}

type keyEnv struct {
	base, G, P, R string
	res           *keysResult
	viol, drift   findings
	snap          map[string]string
	slowAliases   int
	dirty         bool // something outside the root changed during this key: rebuild the outside layout afterwards
}

const decoy = "DECOY-OUTSIDE-THE-ROOT"

// rootName is the base name of the scratch storage root. The parent directory also holds sibling directories whose
// names merely START with it (as "data-backup" next to "data"): a containment check done on strings instead of
// path segments lets keys into them.
const rootName = "R"

var siblingDirs = []string{rootName + "s", rootName + "-backup"} // other spellings are created by an escaping key itself and show up as new entries
var decoyNames = []string{"s", "é", "_"}

func (e *keyEnv) setup() error {
	e.G = filepath.Join(e.base, "G")
	e.P = filepath.Join(e.G, "P")
	e.R = filepath.Join(e.P, rootName)
	if err := e.pristine(); err != nil {
		return err
	}
	time.Sleep(20 * time.Millisecond) // directory mtimes are coarse: let the clock tick past the set-up
	e.snap = e.scan()
	return nil
}

// pristine (re)builds everything outside the root: decoy files in the grandparent, in the parent and in the sibling
// directories whose names start with the root's name; anything else outside the root is removed. The root is emptied.
func (e *keyEnv) pristine() error {
	os.RemoveAll(e.R)
	if err := os.MkdirAll(e.R, 0o700); err != nil {
		return err
	}
	keep := map[string]bool{e.G: true, e.P: true}
	dirs := []string{e.G, e.P}
	for _, sd := range siblingDirs {
		dirs = append(dirs, filepath.Join(e.P, sd))
	}
	for _, d := range dirs {
		keep[d] = true
		if st, err := os.Lstat(d); err != nil || !st.IsDir() {
			os.RemoveAll(d)
			if err := os.MkdirAll(d, 0o700); err != nil {
				return err
			}
		}
		names := decoyNames
		if d != e.G && d != e.P {
			names = decoyNames[:1]
		}
		for _, n := range names {
			p := filepath.Join(d, n)
			keep[p] = true
			if cur, err := os.ReadFile(p); err != nil || string(cur) != decoy {
				os.RemoveAll(p)
				if err := os.WriteFile(p, []byte(decoy), 0o600); err != nil {
					return err
				}
			}
		}
	}
	for _, d := range dirs {
		ents, _ := os.ReadDir(d)
		for _, en := range ents {
			p := filepath.Join(d, en.Name())
			if !keep[p] && p != e.R {
				os.RemoveAll(p)
			}
		}
	}
	return nil
}

// scan lists everything outside R that the backend could reach from P or G: names, sizes, contents of the
// decoys, and the directories' own mtimes (an entry created and removed again still moves the mtime).
func (e *keyEnv) scan() map[string]string {
	m := map[string]string{}
	var walk func(d string)
	walk = func(d string) {
		st, err := os.Lstat(d)
		if err != nil {
			m["dir:"+d] = "missing"
			return
		}
		m["mtime:"+d] = strconv.FormatInt(st.ModTime().UnixNano(), 10)
		ents, _ := os.ReadDir(d)
		for _, en := range ents {
			p := filepath.Join(d, en.Name())
			if p == e.R {
				continue
			}
			if en.IsDir() {
				m["entry:"+p] = "dir"
				walk(p)
				continue
			}
			info, err := en.Info()
			if err != nil {
				continue
			}
			m["entry:"+p] = fmt.Sprintf("mode=%v size=%d mtime=%d", info.Mode().Type(), info.Size(), info.ModTime().UnixNano())
		}
	}
	walk(e.G)
	return m
}

func diffScan(a, b map[string]string) (entries []string, mtimeOnly []string) {
	for k, v := range b {
		if a[k] != v {
			if strings.HasPrefix(k, "mtime:") {
				mtimeOnly = append(mtimeOnly, k[6:])
			} else {
				entries = append(entries, fmt.Sprintf("%s: %q -> %q", k, a[k], v))
			}
		}
	}
	for k, v := range a {
		if _, ok := b[k]; !ok {
			entries = append(entries, fmt.Sprintf("%s: %q -> (gone)", k, v))
		}
	}
	sort.Strings(entries)
	sort.Strings(mtimeOnly)
	return
}

func (e *keyEnv) inside(p string) bool { return p == e.R || strings.HasPrefix(p, e.R+"/") }

type failingReader struct {
	data []byte
	done bool
}

func (r *failingReader) Read(p []byte) (int, error) {
	if r.done {
		return 0, errors.New("injected reader failure")
	}
	r.done = true
	return copy(p, r.data), nil
}

// exercise runs every backend operation on one concrete key and judges the file system after each of them.
func (e *keyEnv) exercise(key string, origin string, info map[string]interface{}) {
	ctx := context.Background()
	b, err := storage.NewLocalBackend(e.R, zerolog.Nop())
	if err != nil {
		e.res.Infra = "NewLocalBackend: " + err.Error()
		return
	}
	fp := b.GetFullPath(key)
	alias := fp == e.R
	class := "non-alias-key"
	if alias {
		class = "root-alias-key"
	}
	wit := func(op string, extra map[string]interface{}) map[string]interface{} {
		w := map[string]interface{}{"key": key, "key_quoted": strconv.Quote(key), "origin": origin, "operation": op, "root": e.R,
			"backend_full_path": fp, "manifest_validator_accepts": raft.ValidateManifestPath(key) == nil}
		for k, v := range info {
			w[k] = v
		}
		for k, v := range extra {
			w[k] = v
		}
		return w
	}
	if fp != "" && !e.inside(fp) {
		e.viol.add("resolved-path-outside-root:GetFullPath", wit("GetFullPath", nil))
	}
	check := func(op string, data []byte, listed []string) {
		e.res.Ops++
		if bytes.Contains(data, []byte(decoy)) {
			e.viol.add("read-outside-root:"+op+":"+class, wit(op, nil))
		}
		for _, l := range listed {
			if l == ".." || strings.HasPrefix(l, "../") || strings.HasPrefix(l, "/") {
				e.viol.add("listed-outside-root:"+op+":"+class, wit(op, map[string]interface{}{"listed": l}))
				break
			}
		}
		rootGone := false
		if _, err := os.Lstat(e.R); err != nil {
			rootGone = true
			e.res.RootRemoved++
			os.MkdirAll(e.R, 0o700)
		}
		now := e.scan()
		ents, mt := diffScan(e.snap, now)
		if len(ents) > 0 {
			e.dirty = true
			// mechanism first: a root-alias key stages at "<root>.part"; everything else is named by the operation
			sig := fmt.Sprintf("entry-outside-root:%s:%s", op, class)
			for _, x := range ents {
				if strings.Contains(x, "entry:"+e.R+".part:") && alias {
					sig = "staging-file-beside-root:" + class
				}
			}
			e.viol.add(sig, wit(op, map[string]interface{}{"outside_changes": ents}))
		} else if len(mt) > 0 && !rootGone {
			sig := fmt.Sprintf("transient-entry-outside-root:%s:%s", op, class)
			if alias && op == "Write" {
				sig = "temp-file-in-parent-of-root:" + class
			}
			e.viol.add(sig, wit(op, map[string]interface{}{"directories_modified": mt}))
		}
		e.snap = now
	}
	if alias && e.slowAliases < 40 {
		// directory mtimes move with a coarse clock: give the first root-alias keys a fresh tick so that
		// an entry created and removed again in the parent is seen
		e.slowAliases++
		time.Sleep(12 * time.Millisecond)
	}
	payload := []byte("payload-of-" + strconv.Quote(key))
	_ = b.Write(ctx, key, payload)
	check("Write", nil, nil)
	_, _ = b.Exists(ctx, key)
	check("Exists", nil, nil)
	d, _ := b.Read(ctx, key)
	check("Read", d, nil)
	var buf bytes.Buffer
	_ = b.ReadTo(ctx, key, &buf)
	check("ReadTo", buf.Bytes(), nil)
	_ = b.Delete(ctx, key)
	check("Delete", nil, nil)
	_ = b.WriteReader(ctx, key, &failingReader{data: payload[:4]}, int64(len(payload)))
	check("WriteReader(failing)", nil, nil)
	_, _ = b.StatFile(ctx, key)
	check("StatFile", nil, nil)
	buf.Reset()
	_ = b.ReadToAt(ctx, key, &buf, 0)
	check("ReadToAt", buf.Bytes(), nil)
	_ = b.AppendReader(ctx, key, bytes.NewReader(payload[4:]), int64(len(payload)-4))
	check("AppendReader", nil, nil)
	_ = b.WriteReader(ctx, key, bytes.NewReader(payload), int64(len(payload)))
	check("WriteReader", nil, nil)
	l1, _ := b.List(ctx, key)
	check("List", nil, l1)
	objs, _ := b.ListObjects(ctx, key)
	var l2 []string
	for _, o := range objs {
		l2 = append(l2, o.Path)
	}
	check("ListObjects", nil, l2)
	_, _ = b.ListDirectories(ctx, key)
	check("ListDirectories", nil, nil)
	_ = b.DeleteBatch(ctx, []string{key})
	check("DeleteBatch", nil, nil)
	_ = b.RemoveDirectory(ctx, key)
	check("RemoveDirectory", nil, nil)

	// clean: empty the root; if anything outside it was touched, rebuild the outside layout
	if e.dirty {
		if err := e.pristine(); err != nil {
			e.res.Infra = "cannot restore the scratch layout: " + err.Error()
			return
		}
		e.dirty = false
	} else {
		os.RemoveAll(e.R)
		os.MkdirAll(e.R, 0o700)
	}
	e.snap = e.scan()
}

func exoticKeys(seed int64, n int) []string {
	ks := []string{
		"C:\\Windows\\x", "C:/x", "s3://bucket/x", "file:/etc/passwd", "a:b", "%2e%2e/x", "..%2fx", "%2e%2e%2fx", "\u202e../x",
		"a/../../b", "....//....//x", ".. /x", " ../x", strings.Repeat("../", 40) + "etc/passwd", "/../x", "//..//x", "///x",
		".\x00./.\x00./x", "\x00../x", ".\x00\x00.", "..\x00/x", ".\x00.", ".\x00./s", "\x00.\x00.\x00/s", "s/.\x00./.\x00./.\x00./s",
		"...", "..../x", ". . /x", "./../x", "x/./../..", "\\..\\x", "..\\..\\x", "x\\..\\..\\y", strings.Repeat("a", 5000), strings.Repeat("a/", 300) + "x",
		"R/../../s", "../R/x", "../R.part", "R.part", ".part", "/.part", "x/", "x//", "./", "/./", "/.", "~", "~/x", "$HOME/x", "`x`", "x\ny", "x\r\n../y",
		".\x00./" + rootName + "-backup/evil.parquet", ".\x00./" + rootName + "s/s", ".\x00./" + rootName + ".part", ".\x00./" + rootName + "/x",
		".\x00./" + rootName + "-backup/s", "s/.\x00./.\x00./" + rootName + "_/_", ".\x00./" + rootName + "\x00s/s", rootName + "s/s", "/" + rootName + "-backup/s",
		"..\u2215x", "\uff0e\uff0e/x", "\xc0\xae\xc0\xae/x", "\xff\xfe/x", "x\x00.parquet", "x.parquet\x00/../../y",
	}
	rng := rand.New(rand.NewSource(seed))
	alpha := []string{"/", "/", ".", ".", ".", "\x00", "\\", "s", "_", "é", " ", ":", "%", "\xff", "R", "P", ".part", "..", "../", "\n"}
	for i := 0; i < n; i++ {
		var sb strings.Builder
		for j, m := 0, 1+rng.Intn(10); j < m; j++ {
			sb.WriteString(alpha[rng.Intn(len(alpha))])
		}
		ks = append(ks, sb.String())
	}
	return ks
}

func modeKeys(in, out, scratch string, seed int64, nExotic int) {
	res := &keysResult{PerVariant: map[string]int{}}
	defer func() { writeJSON(out, res) }()
	raw, err := os.ReadFile(in)
	if err != nil {
		res.Infra = err.Error()
		return
	}
	var recs []keyRec
	if err := json.Unmarshal(raw, &recs); err != nil {
		res.Infra = err.Error()
		return
	}
	base, err := os.MkdirTemp(scratch, "verif-localfs-keys-")
	if err != nil {
		res.Infra = err.Error()
		return
	}
	defer os.RemoveAll(base)
	e := &keyEnv{base: base, res: res}
	if err := e.setup(); err != nil {
		res.Infra = err.Error()
		return
	}
	rng := rand.New(rand.NewSource(seed))
	for i, r := range recs {
		res.Keys++
		vs := []int{0}
		if len(r.Key) > 0 {
			vs = append(vs, 1+rng.Intn(len(variants)-1))
		}
		for _, vi := range vs {
			v := variants[vi]
			hasA := false
			for _, c := range r.Key {
				if c == "a" {
					hasA = true
				}
			}
			if vi != 0 && !hasA {
				continue
			}
			key := concretize(r.Key, v.a)
			res.Concrete++
			res.PerVariant[v.name]++
			// --- drift detector: TLC's prediction against the real functions
			b, err := storage.NewLocalBackend(e.R, zerolog.Nop())
			if err != nil {
				res.Infra = err.Error()
				return
			}
			fp := b.GetFullPath(key)
			want := ""
			if r.Acc {
				want = e.R
				for _, seg := range r.Rel {
					want += "/" + concretize(seg, v.a)
				}
			}
			dw := map[string]interface{}{"key": key, "key_quoted": strconv.Quote(key), "abstract_key": strings.Join(r.Key, ""), "variant": v.name}
			if fp != want {
				dw["predicted_full_path"], dw["real_full_path"] = want, fp
				e.drift.add("LocalBackend.validatePath-differs-from-LocalFSKeys.tla", dw)
			}
			// object operations: does validateObjectPath let the key through? (StatFile has no side effect)
			_, statErr := b.StatFile(context.Background(), key)
			objOK := statErr == nil || !strings.Contains(statErr.Error(), "invalid path")
			if objOK != r.Obj {
				dw["predicted_object_operations_accept"], dw["real_object_operations_accept"] = r.Obj, objOK
				e.drift.add("LocalBackend.validateObjectPath-differs-from-LocalFSKeys.tla", dw)
			}
			man := raft.ValidateManifestPath(key) == nil
			sync := edgesync.VerifLocalfsValidateSyncPath(key+".parquet") == nil
			spoke := edgesync.VerifLocalfsValidateSpokeID(key) == nil
			if man != r.Man || sync != r.Sync || spoke != r.Spoke {
				dw["predicted_manifest_sync_spoke"] = []bool{r.Man, r.Sync, r.Spoke}
				dw["real_manifest_sync_spoke"] = []bool{man, sync, spoke}
				e.drift.add("path-validators-differ-from-LocalFSKeys.tla", dw)
			}
			if vi == 0 {
				if fp != "" {
					res.Accepted++
				} else {
					res.Rejected++
				}
				if fp == e.R {
					res.Aliases++
				}
				if man {
					res.ManifestOK++
				}
				if sync {
					res.SyncOK++
				}
				if spoke {
					res.SpokeOK++
				}
				if fp != "" && (strings.ContainsAny(key, "\x00.\\") || strings.HasPrefix(key, "/")) {
					res.NontrivialKs = append(res.NontrivialKs, strings.Join(r.Key, ""))
				}
			}
			info := map[string]interface{}{"abstract_key": strings.Join(r.Key, ""), "variant": v.name}
			e.exercise(key, "LocalBackend key (TLC-enumerated)", info)
			if sync {
				p := key + ".parquet"
				e.exercise(edgesync.NamespacedPath("spoke1", p), "edgesync NamespacedPath(spoke1, validated path)", info)
				e.exercise(edgesync.VerifLocalfsStagingPathFor("spoke1", p), "edgesync stagingPathFor(spoke1, validated path)", info)
			}
			if spoke {
				e.exercise(edgesync.NamespacedPath(key, "db/m/f.parquet"), "edgesync NamespacedPath(validated spoke id, path)", info)
				e.exercise(edgesync.VerifLocalfsStagingPathFor(key, "db/m/f.parquet"), "edgesync stagingPathFor(validated spoke id, path)", info)
			}
			if res.Infra != "" {
				return
			}
			if len(res.Samples) < 4 && i%4001 == 17 {
				res.Samples = append(res.Samples, map[string]interface{}{"key": strconv.Quote(key), "full_path": fp, "manifest": man, "sync": sync, "spoke": spoke})
			}
		}
	}
	for _, k := range exoticKeys(seed, nExotic) {
		res.Exotic++
		info := map[string]interface{}{"variant": "exotic"}
		e.exercise(k, "hand-made / seeded random byte string", info)
		if edgesync.VerifLocalfsValidateSyncPath(k) == nil {
			e.exercise(edgesync.NamespacedPath("spoke1", k), "edgesync NamespacedPath(spoke1, validated exotic path)", info)
		}
		if edgesync.VerifLocalfsValidateSpokeID(k) == nil {
			e.exercise(edgesync.NamespacedPath(k, "db/m/f.parquet"), "edgesync NamespacedPath(validated exotic spoke id, path)", info)
		}
		if res.Infra != "" {
			return
		}
	}
	res.Violations = e.viol.out()
	res.Drift = e.drift.out()
}

// =====================================================================================
// mode child
// =====================================================================================

type chunkReader struct {
	n, chunk, fail, sent int
	cur                  []byte
}

func chunkBytes(j, size int) []byte { return bytes.Repeat([]byte{byte('A' + j%26)}, size) }

func (r *chunkReader) Read(p []byte) (int, error) {
	if len(r.cur) == 0 {
		if r.sent >= r.fail {
			return 0, errors.New("injected reader failure")
		}
		if r.sent >= r.n {
			return 0, io.EOF
		}
		r.cur = chunkBytes(r.sent, r.chunk)
		r.sent++
	}
	k := copy(p, r.cur)
	r.cur = r.cur[k:]
	return k, nil
}

func modeChild(op, root, key string, n, chunk, fail, declared int) {
	b, err := storage.NewLocalBackend(root, zerolog.Nop())
	if err != nil {
		fmt.Fprintln(os.Stderr, "backend:", err)
		os.Exit(4)
	}
	ctx := context.Background()
	var data []byte
	for j := 0; j < n; j++ {
		data = append(data, chunkBytes(j, chunk)...)
	}
	rd := &chunkReader{n: n, chunk: chunk, fail: fail}
	_ = syscall.Unlink("/verif-marker-begin")
	switch op {
	case "Write":
		err = b.Write(ctx, key, data)
	case "WriteReader":
		err = b.WriteReader(ctx, key, rd, int64(n*chunk))
	case "AppendReader":
		err = b.AppendReader(ctx, key, rd, int64(declared*chunk))
	default:
		err = fmt.Errorf("unknown op %s", op)
	}
	_ = syscall.Unlink("/verif-marker-end")
	if err != nil {
		fmt.Fprintln(os.Stderr, "op error:", err)
		os.Exit(3)
	}
}

// =====================================================================================
// mode crash
// =====================================================================================

type scenario struct {
	Sc struct {
		Op       string `json:"op"`
		N        int    `json:"n"`
		Fail     int    `json:"fail"`
		PriorF   string `json:"priorF"`
		PriorP   string `json:"priorP"`
		Declared int    `json:"declared"`
		Nm       string `json:"nm"` // "short" | "long": base name within len(".part") bytes of NAME_MAX
	} `json:"sc"`
	Calls   [][]string `json:"calls"`
	Renamed bool       `json:"renamed"`
	Part    string     `json:"part"`
	PartK   int        `json:"partk"`
}

type sysCall struct {
	Name    string
	Ordinal int // per-name ordinal on the traced thread (strace's `when=` counter)
	Line    string
	Done    bool
	Ret     int64
	Ev      map[string]interface{} // reduced event on F/P/T, nil when the call does not touch them
}

type crashResult struct {
	Scenarios   int            `json:"scenarios"`
	Runs        int            `json:"strace_runs"`
	KillRuns    int            `json:"kill_runs"`
	CrashPoints int            `json:"crash_points_inspected"`
	Calls       int            `json:"calls_on_tracked_names"`
	PerOp       map[string]int `json:"per_op_crash_points"`
	Violations  []finding      `json:"violations"`
	Drift       []finding      `json:"drift"`
	Samples     []interface{}  `json:"samples"`
	TraceLines  int            `json:"trace_lines"`
	LineOf      []string       `json:"trace_line_scenario"`
	Keys        []string       `json:"nontrivial_keys"`
	Infra       string         `json:"infra,omitempty"`
}

const traceSet = "open,openat,creat,write,pwrite64,writev,close,rename,renameat,renameat2,unlink,unlinkat,mkdir,mkdirat,ftruncate,truncate,link,linkat,symlink,symlinkat,fsync,fdatasync,copy_file_range,sendfile"

var (
	reCall  = regexp.MustCompile(`^(\w+)\((.*)\)\s+= (-?\d+)( .*)?$`)
	reOpen  = regexp.MustCompile(`^(\w+)\((.*?)(?: <unfinished \.\.\.>)?\)?\s*(?:= \?)?$`)
	reQuote = regexp.MustCompile(`"((?:[^"\\]|\\.)*)"`)
)

type straceRun struct {
	calls  []sysCall // traced calls strictly between the two markers
	before map[string]int
	killed bool
	began  bool
	ended  bool
	exit   int
	raw    string
}

func roleOf(p, F string) string {
	switch {
	case p == F:
		return "F"
	case p == F+".part":
		return "P"
	case strings.HasPrefix(p, filepath.Dir(F)+"/") || strings.HasPrefix(p, filepath.Dir(filepath.Dir(F))+"/"):
		return "T"
	}
	return ""
}

func parseStrace(log string, F string) straceRun {
	r := straceRun{before: map[string]int{}}
	perName := map[string]int{}
	fdRole := map[int64]string{}
	for _, line := range strings.Split(log, "\n") {
		line = strings.TrimSpace(line)
		if line == "" {
			continue
		}
		if strings.HasPrefix(line, "+++ killed by SIGKILL") {
			r.killed = true
			continue
		}
		if strings.HasPrefix(line, "+++ exited with ") {
			fmt.Sscanf(line, "+++ exited with %d", &r.exit)
			continue
		}
		if strings.HasPrefix(line, "---") || strings.HasPrefix(line, "+++") {
			continue
		}
		var name, args string
		var ret int64
		done := false
		if m := reCall.FindStringSubmatch(line); m != nil {
			name, args = m[1], m[2]
			ret, _ = strconv.ParseInt(m[3], 10, 64)
			done = true
		} else if m := reOpen.FindStringSubmatch(line); m != nil {
			name, args = m[1], m[2]
		} else {
			continue
		}
		perName[name]++
		if strings.Contains(args, "/verif-marker-begin") {
			r.began = true
			for k, v := range perName {
				r.before[k] = v
			}
			continue
		}
		if strings.Contains(args, "/verif-marker-end") {
			r.ended = true
			continue
		}
		if !r.began || r.ended {
			continue
		}
		c := sysCall{Name: name, Ordinal: perName[name], Line: line, Done: done, Ret: ret}
		if done {
			qs := reQuote.FindAllStringSubmatch(args, -1)
			first := func(i int) string {
				if i < len(qs) {
					return qs[i][1]
				}
				return ""
			}
			fdArg := func() int64 {
				f, _ := strconv.ParseInt(strings.TrimSpace(strings.SplitN(args, ",", 2)[0]), 10, 64)
				return f
			}
			switch name {
			case "open", "openat", "creat":
				if role := roleOf(first(0), F); role != "" {
					ok := ret >= 0
					if ok {
						fdRole[ret] = role
					}
					fd := ret
					if !ok {
						fd = 0
					}
					c.Ev = map[string]interface{}{"ev": "open", "role": role, "fd": fd, "ok": ok,
						"trunc": strings.Contains(args, "O_TRUNC") || name == "creat", "excl": strings.Contains(args, "O_EXCL"), "append": strings.Contains(args, "O_APPEND")}
				}
			case "write", "pwrite64", "writev", "copy_file_range", "sendfile":
				fd := fdArg()
				if name == "copy_file_range" || name == "sendfile" {
					// destination descriptor: copy_file_range(in, off, out, ...), sendfile(out, in, ...)
					parts := strings.Split(args, ",")
					if name == "copy_file_range" && len(parts) > 2 {
						fd, _ = strconv.ParseInt(strings.TrimSpace(parts[2]), 10, 64)
					}
				}
				if role, ok := fdRole[fd]; ok && ret > 0 {
					c.Ev = map[string]interface{}{"ev": "write", "role": role, "fd": fd, "n": ret}
				}
			case "ftruncate":
				fd := fdArg()
				if role, ok := fdRole[fd]; ok && ret == 0 {
					parts := strings.Split(args, ",")
					n, _ := strconv.ParseInt(strings.TrimSpace(parts[len(parts)-1]), 10, 64)
					c.Ev = map[string]interface{}{"ev": "cut", "role": role, "fd": fd, "n": n}
				}
			case "close":
				fd := fdArg()
				if role, ok := fdRole[fd]; ok {
					c.Ev = map[string]interface{}{"ev": "close", "role": role, "fd": fd}
					delete(fdRole, fd)
				}
			case "rename", "renameat", "renameat2":
				a, b := roleOf(first(0), F), roleOf(first(1), F)
				if a != "" || b != "" {
					if a == "" {
						a = "T"
					}
					if b == "" {
						b = "T"
					}
					c.Ev = map[string]interface{}{"ev": "rename", "role": a, "role2": b, "ok": ret == 0}
				}
			case "link", "linkat":
				a, b := roleOf(first(0), F), roleOf(first(1), F)
				if a != "" && b != "" {
					c.Ev = map[string]interface{}{"ev": "link", "role": a, "role2": b, "ok": ret == 0}
				}
			case "unlink", "unlinkat":
				if role := roleOf(first(0), F); role != "" {
					c.Ev = map[string]interface{}{"ev": "unlink", "role": role, "ok": ret == 0}
				}
			}
		}
		r.calls = append(r.calls, c)
	}
	return r
}

func fullEvent(e map[string]interface{}) map[string]interface{} {
	o := map[string]interface{}{"ev": "", "role": "", "role2": "", "fd": 0, "n": 0, "ok": true, "trunc": false,
		"pF": "", "pP": "", "wok": false, "wbase": "", "wk": 0}
	for k, v := range e {
		if k == "excl" || k == "append" {
			continue
		}
		o[k] = v
	}
	return o
}

type crashEnv struct {
	self, base string
	res        *crashResult
	viol       findings
	drift      findings
	trace      []map[string]interface{}
}

const oldContent, staleContent = "OLD-COMPLETE-OBJECT", "STALE"

// keyOf: the object key of a scenario. The "long" class has a 252-byte base name: a legal file name (NAME_MAX = 255)
// whose staging name "<name>.part" is not.
func keyOf(s *scenario) string {
	if s.Sc.Nm == "long" {
		return "d/" + strings.Repeat("L", 244) + ".parquet"
	}
	return "d/f.bin"
}

func (e *crashEnv) prepare(root string, s *scenario) (F string, err error) {
	os.RemoveAll(root)
	F = filepath.Join(root, filepath.FromSlash(keyOf(s)))
	if err = os.MkdirAll(root, 0o700); err != nil {
		return
	}
	if s.Sc.PriorF == "old" || s.Sc.PriorP == "stale" {
		if err = os.MkdirAll(filepath.Dir(F), 0o700); err != nil {
			return
		}
	}
	if s.Sc.PriorF == "old" {
		if err = os.WriteFile(F, []byte(oldContent), 0o600); err != nil {
			return
		}
	}
	if s.Sc.PriorP == "stale" {
		err = os.WriteFile(F+".part", []byte(staleContent), 0o600)
	}
	return
}

func (e *crashEnv) strace(root string, s *scenario, chunk int, inject string) (straceRun, error) {
	logf := filepath.Join(e.base, "strace.log")
	os.Remove(logf)
	args := []string{"-o", logf, "-s", "0", "-e", "trace=" + traceSet}
	if inject != "" {
		args = append(args, "-e", "inject="+inject)
	}
	args = append(args, e.self, "-mode", "child", "-op", s.Sc.Op, "-root", root, "-key", keyOf(s), "-n", strconv.Itoa(s.Sc.N),
		"-chunk", strconv.Itoa(chunk), "-fail", strconv.Itoa(s.Sc.Fail), "-declared", strconv.Itoa(s.Sc.Declared))
	cmd := exec.Command("strace", args...)
	var stderr bytes.Buffer
	cmd.Stderr = &stderr
	done := make(chan error, 1)
	if err := cmd.Start(); err != nil {
		return straceRun{}, err
	}
	go func() { done <- cmd.Wait() }()
	var waitErr error
	select {
	case waitErr = <-done:
	case <-time.After(120 * time.Second):
		cmd.Process.Kill()
		return straceRun{}, fmt.Errorf("strace run did not finish within 120s")
	}
	e.res.Runs++
	raw, err := os.ReadFile(logf)
	if err != nil {
		return straceRun{}, fmt.Errorf("no strace log: %v (%s)", err, stderr.String())
	}
	r := parseStrace(string(raw), filepath.Join(root, filepath.FromSlash(keyOf(s))))
	r.raw = string(raw)
	// strace re-raises the tracee's fatal signal on itself
	var ee *exec.ExitError
	if errors.As(waitErr, &ee) {
		if ws, ok := ee.Sys().(syscall.WaitStatus); ok && ((ws.Signaled() && ws.Signal() == syscall.SIGKILL) || ws.ExitStatus() == 137) {
			r.killed = true
		}
	}
	if !r.began {
		return r, fmt.Errorf("marker not seen in the strace log (stderr %q)", stderr.String())
	}
	return r, nil
}

// judge inspects the real directory: the final path must hold the prior content (or be absent as before) or
// the complete intended content.
func judge(F string, s *scenario, chunk int) (ok bool, state string) {
	b, err := os.ReadFile(F)
	var prior []byte
	priorAbsent := s.Sc.PriorF != "old"
	if !priorAbsent {
		prior = []byte(oldContent)
	}
	noFail := s.Sc.Fail == s.Sc.N+1
	var intended []byte
	if s.Sc.Op == "AppendReader" {
		intended = []byte(staleContent)
	}
	for j := 0; j < s.Sc.N; j++ {
		intended = append(intended, chunkBytes(j, chunk)...)
	}
	wantOK := noFail && (s.Sc.Op != "AppendReader" || (s.Sc.Declared == s.Sc.N && s.Sc.PriorP == "stale"))
	// (a long name whose staging name does not fit may be published by WriteReader only if the whole content appears at
	// once; the judgement below is the same for every name: previous object or complete intended content)
	switch {
	case err != nil && os.IsNotExist(err):
		if priorAbsent {
			return true, "absent"
		}
		return false, "final path vanished (was: previous complete object)"
	case err != nil:
		return false, "final path unreadable: " + err.Error()
	case !priorAbsent && bytes.Equal(b, prior):
		return true, "previous object"
	case wantOK && bytes.Equal(b, intended):
		return true, "complete new content"
	}
	return false, fmt.Sprintf("%d bytes, neither the previous object nor the complete intended %d bytes (starts %q)", len(b), len(intended), string(b[:min(len(b), 12)]))
}

func normalize(calls []sysCall) [][]string {
	var out [][]string
	for _, c := range calls {
		if c.Ev == nil {
			continue
		}
		ev := c.Ev["ev"].(string)
		role := c.Ev["role"].(string)
		switch ev {
		case "open":
			mode := "plain"
			switch {
			case c.Ev["excl"].(bool):
				mode = "excl"
			case c.Ev["trunc"].(bool):
				mode = "trunc"
			case c.Ev["append"].(bool):
				mode = "append"
			}
			if !c.Ev["ok"].(bool) {
				ev = "openfail"
			}
			out = append(out, []string{ev, role, mode})
		case "write":
			if len(out) > 0 && out[len(out)-1][0] == "write" && out[len(out)-1][1] == role {
				continue
			}
			out = append(out, []string{"write", role, ""})
		case "rename":
			out = append(out, []string{"rename", role, c.Ev["role2"].(string)})
		default:
			out = append(out, []string{ev, role, ""})
		}
	}
	return out
}

func coalesce(calls [][]string) [][]string {
	var out [][]string
	for _, c := range calls {
		if c[0] == "write" && len(out) > 0 && out[len(out)-1][0] == "write" && out[len(out)-1][1] == c[1] {
			continue
		}
		out = append(out, c)
	}
	return out
}

func (e *crashEnv) runScenario(idx int, s *scenario, chunk int, kills bool) error {
	root := filepath.Join(e.base, "root")
	F, err := e.prepare(root, s)
	if err != nil {
		return err
	}
	base, err := e.strace(root, s, chunk, "")
	if err != nil {
		return err
	}
	if base.killed || !base.ended {
		return fmt.Errorf("baseline run of scenario %d did not complete: %s", idx, base.raw[max(0, len(base.raw)-400):])
	}
	label := fmt.Sprintf("#%d %s n=%d fail=%d priorF=%s priorP=%s declared=%d name=%s chunk=%d", idx, s.Sc.Op, s.Sc.N, s.Sc.Fail, s.Sc.PriorF, s.Sc.PriorP, s.Sc.Declared, s.Sc.Nm, chunk)
	wit := func(extra map[string]interface{}) map[string]interface{} {
		var lines []string
		for _, c := range base.calls {
			lines = append(lines, c.Line)
		}
		w := map[string]interface{}{"scenario": s.Sc, "chunk_bytes": chunk, "syscalls_of_the_complete_run": lines}
		for k, v := range extra {
			w[k] = v
		}
		return w
	}
	// --- end state of the un-crashed run
	if ok, st := judge(F, s, chunk); !ok {
		kind := "success"
		if base.exit != 0 {
			kind = "error-return"
		}
		e.viol.add(fmt.Sprintf("bad-final-after-%s:%s", kind, s.Sc.Op), wit(map[string]interface{}{"final_path_state": st}))
	}
	// --- trace for TLC
	noFail := s.Sc.Fail == s.Sc.N+1
	wok := noFail && (s.Sc.Op != "AppendReader" || (s.Sc.Declared == s.Sc.N && s.Sc.PriorP == "stale"))
	wbase := "none"
	if s.Sc.Op == "AppendReader" {
		wbase = "stale"
	}
	add := func(ev map[string]interface{}) {
		e.trace = append(e.trace, fullEvent(ev))
		e.res.LineOf = append(e.res.LineOf, label)
	}
	add(map[string]interface{}{"ev": "begin", "pF": s.Sc.PriorF, "pP": s.Sc.PriorP, "wok": wok, "wbase": wbase, "wk": s.Sc.N * chunk})
	for _, c := range base.calls {
		if c.Ev != nil {
			add(c.Ev)
			e.res.Calls++
		}
	}
	add(map[string]interface{}{"ev": "end"})
	// --- drift: the calls TLC's implementation-shaped model predicts
	got, want := normalize(base.calls), coalesce(s.Calls)
	if fmt.Sprint(got) != fmt.Sprint(want) {
		e.drift.add("syscall-sequence-differs-from-LocalFS.tla:"+s.Sc.Op, wit(map[string]interface{}{"predicted": want, "observed": got}))
	}
	// --- one kill per crash point: at the entry of every traced call between the markers
	if !kills {
		e.res.Keys = append(e.res.Keys, label)
		return nil
	}
	seen := map[int]bool{}
	for i, c := range base.calls {
		if _, err := e.prepare(root, s); err != nil {
			return err
		}
		kr, err := e.strace(root, s, chunk, fmt.Sprintf("%s:signal=SIGKILL:when=%d", c.Name, c.Ordinal))
		if err != nil {
			return err
		}
		e.res.KillRuns++
		if !kr.killed {
			return fmt.Errorf("scenario %d (%s): kill injection at call %d (%s #%d) did not kill the child", idx, label, i, c.Name, c.Ordinal)
		}
		completed := 0
		for _, k := range kr.calls {
			if k.Done {
				completed++
			}
		}
		seen[completed] = true
		e.res.CrashPoints++
		e.res.PerOp[s.Sc.Op]++
		if ok, st := judge(F, s, chunk); !ok {
			last := "nothing"
			for _, k := range kr.calls {
				if k.Done && k.Ev != nil {
					last = fmt.Sprintf("%s(%s)", k.Ev["ev"], k.Ev["role"])
				}
			}
			var lines []string
			for _, k := range kr.calls {
				lines = append(lines, k.Line)
			}
			e.viol.add(fmt.Sprintf("torn-final-after-crash:%s:last-call=%s", s.Sc.Op, last),
				wit(map[string]interface{}{"final_path_state": st, "killed_at_entry_of": c.Line, "syscalls_before_the_kill": lines}))
		}
	}
	for i := range base.calls {
		if !seen[i] {
			return fmt.Errorf("scenario %d (%s): crash point after %d calls was not reached (runs are not reproducible)", idx, label, i)
		}
	}
	e.res.Keys = append(e.res.Keys, label)
	if len(e.res.Samples) < 3 && idx%37 == 5 {
		e.res.Samples = append(e.res.Samples, wit(nil))
	}
	return nil
}

func modeCrash(in, out, tracePath, scratch string, chunks []int, killEvery int, seed int64, only int) {
	res := &crashResult{PerOp: map[string]int{}}
	defer func() { writeJSON(out, res) }()
	raw, err := os.ReadFile(in)
	if err != nil {
		res.Infra = err.Error()
		return
	}
	var scs []scenario
	if err := json.Unmarshal(raw, &scs); err != nil {
		res.Infra = err.Error()
		return
	}
	self, err := os.Executable()
	if err != nil {
		res.Infra = err.Error()
		return
	}
	base, err := os.MkdirTemp(scratch, "verif-localfs-crash-")
	if err != nil {
		res.Infra = err.Error()
		return
	}
	defer os.RemoveAll(base)
	e := &crashEnv{self: self, base: base, res: res}
	rank := map[string]int{}
	for i := range scs {
		if only >= 0 && i != only {
			continue
		}
		res.Scenarios++
		rk := rank[scs[i].Sc.Op]
		rank[scs[i].Sc.Op]++
		for ci, ch := range chunks {
			if ci > 0 && (scs[i].Sc.N == 0 || i%3 != 0) {
				continue
			}
			// killEvery > 1 (quick tier): kill runs for a seed-rotated 1/killEvery of each operation's scenarios; the others are
			// covered by TLC's validation of their syscall trace, which asks for a targeted kill matrix (-only) when it sees a torn state
			kills := killEvery <= 1 || only >= 0 || (rk+int(seed))%killEvery == 0 || scs[i].Sc.Nm == "long"
			if err := e.runScenario(i, &scs[i], ch, kills); err != nil {
				res.Infra = err.Error()
				return
			}
		}
	}
	f, err := os.Create(tracePath)
	if err != nil {
		res.Infra = err.Error()
		return
	}
	for _, ev := range e.trace {
		b, _ := json.Marshal(ev)
		f.Write(append(b, '\n'))
	}
	f.Close()
	res.TraceLines = len(e.trace)
	res.Violations = e.viol.out()
	res.Drift = e.drift.out()
}

func main() {
	mode := flag.String("mode", "", "keys | crash | child")
	in := flag.String("in", "", "input json")
	out := flag.String("out", "", "result json")
	tracePath := flag.String("trace", "", "ndjson trace for TLC (mode crash)")
	scratch := flag.String("scratch", "/dev/shm", "scratch parent directory")
	seed := flag.Int64("seed", 1, "VERIF_SEED")
	exotic := flag.Int("exotic", 1500, "number of seeded random byte-string keys (mode keys)")
	chunkList := flag.String("chunks", "3", "comma separated chunk sizes in bytes (mode crash)")
	killEvery := flag.Int("kill-every", 1, "crash: kill runs for every n-th multi-chunk scenario only (1 = all)")
	only := flag.Int("only", -1, "crash: run only this scenario index, with the complete kill matrix")
	op := flag.String("op", "", "child: operation")
	root := flag.String("root", "", "child: backend root")
	key := flag.String("key", "", "child: key")
	n := flag.Int("n", 0, "child: chunks")
	chunk := flag.Int("chunk", 3, "child: chunk size")
	fail := flag.Int("fail", 0, "child: reader fails after this many chunks (n+1: never)")
	declared := flag.Int("declared", 0, "child: appendSize in chunks")
	flag.Parse()
	switch *mode {
	case "keys":
		modeKeys(*in, *out, *scratch, *seed, *exotic)
	case "crash":
		var cs []int
		for _, x := range strings.Split(*chunkList, ",") {
			v, err := strconv.Atoi(strings.TrimSpace(x))
			if err == nil && v > 0 {
				cs = append(cs, v)
			}
		}
		modeCrash(*in, *out, *tracePath, *scratch, cs, *killEvery, *seed, *only)
	case "child":
		modeChild(*op, *root, *key, *n, *chunk, *fail, *declared)
	default:
		fmt.Fprintln(os.Stderr, "unknown mode")
		os.Exit(2)
	}
}

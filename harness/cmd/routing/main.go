// Command routing replays TLC-generated routing scenarios (specs/routing/Routing.tla) on the
// real arc handlers: 1-4 in-process fiber apps (real MsgPackHandler, LineProtocolHandler,
// TLEHandler, QueryHandler with their routing prologues), each with a real cluster.Router and
// cluster.Registry, connected by an in-memory transport.  Every node records which requests
// it received (and the X-Arc-Forwarded-By value it saw) and which node processed the request
// locally (storage writes after a flush for writes; the executing DuckDB for queries).
// The verdict (C30) is taken from the observed hop chain; the TLC prediction is only used to
// detect drift between the code and the model.
package main

import (
	"bytes"
	"context"
	"encoding/json"
	"flag"
	"fmt"
	"io"
	"net"
	"net/http"
	"os"
	"sort"
	"strings"
	"sync"
	"sync/atomic"
	"time"

	"github.com/Basekick-Labs/msgpack/v6"
	"github.com/basekick-labs/arc/internal/api"
	"github.com/basekick-labs/arc/internal/cluster"
	"github.com/basekick-labs/arc/internal/config"
	"github.com/basekick-labs/arc/internal/database"
	"github.com/basekick-labs/arc/internal/ingest"
	"github.com/gofiber/fiber/v2"
	"github.com/rs/zerolog"
	"github.com/valyala/fasthttp/fasthttputil"
)

// ---------------------------------------------------------------- scenario / result types

type predicted struct {
	Outcome string `json:"outcome"`
	Proc    int    `json:"proc"`
	Hops    int    `json:"hops"`
}

type scenario struct {
	Nodes   []int       `json:"nodes"` // node types 1..21 (see Routing.tla)
	Ep      string      `json:"ep"`
	Hdr     string      `json:"hdr"`
	Allowed []predicted `json:"allowed"`
	// round 2: the same request after the node that served round 1 (R1Proc) re-registered as ChgType
	Round   int `json:"round"`
	R1Proc  int `json:"r1proc"`
	ChgNode int `json:"chgnode"`
	ChgType int `json:"chgtype"`
}

type finding struct {
	Signature string      `json:"signature"`
	Witness   interface{} `json:"witness"`
}

type result struct {
	Infra      string         `json:"infra,omitempty"`
	Scenarios  int            `json:"scenarios"`
	Requests   int            `json:"requests"`
	Forwards   int            `json:"forwards"`
	PerOutcome map[string]int `json:"per_outcome"`
	PerEp      map[string]int `json:"per_ep"`
	Skipped    map[string]int `json:"skipped_endpoints"`
	Targets    int            `json:"distinct_forward_targets_seen"`
	Round2     int            `json:"round2_scenarios"`
	Unrealised int            `json:"round2_unrealised"`
	Retries    int            `json:"transport_retries"`
	Unjudged   int            `json:"unjudged_requests"`
	Violations []finding      `json:"violations"`
	Drift      []finding      `json:"drift"`
	Samples    []interface{}  `json:"samples"`
}

var kindSeq = []string{"nr", "sa", "wp", "ws", "wn", "rd", "cp"}

// node type t = 3*kind + status; status 0 registry-healthy and reachable, 1 registry-healthy but dead
// at transport level (connection refused), 2 registry-unhealthy (see Routing.tla)
func kindOf(t int) string  { return kindSeq[(t-1)/3] }
func healthy(t int) bool   { return (t-1)%3 != 2 }
func reachable(t int) bool { return (t-1)%3 != 1 }

func roleOf(k string) cluster.NodeRole {
	switch k {
	case "nr", "sa":
		return cluster.RoleStandalone
	case "wp", "ws", "wn":
		return cluster.RoleWriter
	case "rd":
		return cluster.RoleReader
	default:
		return cluster.RoleCompactor
	}
}

// capability table of the property statement ("a node whose role can serve it"): standalone
// and writer ingest and query, reader queries only, compactor neither.
func capable(k string, isWrite bool) bool {
	if isWrite {
		return k != "rd" && k != "cp"
	}
	return k != "cp"
}

// ---------------------------------------------------------------- recording storage backend

type recBackend struct {
	mu     sync.Mutex
	writes []string
}

func (b *recBackend) Write(ctx context.Context, path string, data []byte) error {
	b.mu.Lock()
	b.writes = append(b.writes, path)
	b.mu.Unlock()
	return nil
}
func (b *recBackend) WriteReader(ctx context.Context, path string, r io.Reader, size int64) error {
	_, _ = io.Copy(io.Discard, r)
	return b.Write(ctx, path, nil)
}
func (b *recBackend) take() []string {
	b.mu.Lock()
	w := b.writes
	b.writes = nil
	b.mu.Unlock()
	return w
}
func (b *recBackend) Read(ctx context.Context, path string) ([]byte, error) {
	return nil, fmt.Errorf("not found")
}
func (b *recBackend) ReadTo(ctx context.Context, path string, w io.Writer) error {
	return fmt.Errorf("not found")
}
func (b *recBackend) ReadToAt(ctx context.Context, path string, w io.Writer, off int64) error {
	return fmt.Errorf("not found")
}
func (b *recBackend) StatFile(ctx context.Context, path string) (int64, error) { return -1, nil }
func (b *recBackend) List(ctx context.Context, prefix string) ([]string, error) {
	return nil, nil
}
func (b *recBackend) Delete(ctx context.Context, path string) error         { return nil }
func (b *recBackend) Exists(ctx context.Context, path string) (bool, error) { return false, nil }
func (b *recBackend) Close() error                                          { return nil }
func (b *recBackend) Type() string                                          { return "verifmem" }
func (b *recBackend) ConfigJSON() string                                    { return "{}" }

// ---------------------------------------------------------------- node slots

type event struct {
	Node  int    `json:"node"`
	FwdBy string `json:"fwd_by"`
	Path  string `json:"path"`
}

type slot struct {
	dead  atomic.Bool // current configuration: connections to this node are refused
	idx   int
	id    string
	addr  string
	ln    *fasthttputil.InmemoryListener
	app   *fiber.App
	buf   *ingest.ArrowBuffer
	store *recBackend
	db    *database.DuckDB
	mp    *api.MsgPackHandler
	lp    *api.LineProtocolHandler
	tle   *api.TLEHandler
	qh    *api.QueryHandler
}

var (
	evMu   sync.Mutex
	events []event
)

func newSlot(i int, logger zerolog.Logger) (*slot, error) {
	s := &slot{idx: i, id: fmt.Sprintf("n%d", i), addr: fmt.Sprintf("n%d.verif:8000", i)}
	s.store = &recBackend{}
	icfg := &config.IngestConfig{MaxBufferSize: 1000000, MaxBufferAgeMS: 3600000, Compression: "snappy",
		FlushWorkers: 1, FlushQueueSize: 8, ShardCount: 2}
	s.buf = ingest.NewArrowBuffer(icfg, s.store, logger)
	db, err := database.New(&database.Config{MaxConnections: 2, MemoryLimit: "256MB", ThreadCount: 1}, logger)
	if err != nil {
		return nil, fmt.Errorf("duckdb: %w", err)
	}
	s.db = db
	if _, err := db.DB().Exec(fmt.Sprintf("CREATE OR REPLACE MACRO whoami() AS 'n%d'", i)); err != nil {
		return nil, fmt.Errorf("macro: %w", err)
	}
	s.mp = api.NewMsgPackHandler(logger, s.buf, 64<<20)
	s.lp = api.NewLineProtocolHandler(s.buf, logger)
	s.tle = api.NewTLEHandler(s.buf, logger)
	s.qh = api.NewQueryHandler(db, s.store, logger, 0, 0)
	s.app = fiber.New(fiber.Config{DisableStartupMessage: true})
	s.app.Use(func(c *fiber.Ctx) error {
		evMu.Lock()
		events = append(events, event{Node: s.idx, FwdBy: strings.Clone(c.Get("X-Arc-Forwarded-By")), Path: strings.Clone(c.Path())})
		evMu.Unlock()
		return c.Next()
	})
	s.mp.RegisterRoutes(s.app)
	s.lp.RegisterRoutes(s.app)
	s.tle.RegisterRoutes(s.app)
	s.qh.RegisterRoutes(s.app)
	s.ln = fasthttputil.NewInmemoryListener()
	go func() { _ = s.app.Listener(s.ln) }()
	return s, nil
}

func (s *slot) setRouter(r *cluster.Router) {
	s.mp.SetRouter(r)
	s.lp.SetRouter(r)
	s.tle.SetRouter(r)
	s.qh.SetRouter(r)
}

// ---------------------------------------------------------------- requests

const issTLE = "ISS (ZARYA)\n1 25544U 98067A   24051.34722222  .00016717  00000-0  10270-3 0  9014\n2 25544  51.6400 208.9163 0006703 319.1918  40.8793 15.49560830442108\n"

type reqSpec struct {
	method, path, ctype string
	body                []byte
	isWrite             bool
}

func mkRequest(ep string) (*reqSpec, bool) {
	lpBody := []byte("c30route,src=verif v=1i 1700000000000000000\n")
	sql := []byte(`{"sql":"SELECT whoami() AS who"}`)
	switch ep {
	case "msgpack":
		b, _ := msgpack.Marshal(map[string]interface{}{"m": "c30route", "columns": map[string]interface{}{
			"time": []interface{}{int64(1700000000000000)}, "v": []interface{}{int64(1)}}})
		return &reqSpec{"POST", "/api/v1/write/msgpack", "application/msgpack", b, true}, true
	case "lp_v1":
		return &reqSpec{"POST", "/write?db=c30db", "text/plain", lpBody, true}, true
	case "lp_v2":
		return &reqSpec{"POST", "/api/v2/write?bucket=c30db&org=o", "text/plain", lpBody, true}, true
	case "lp_simple":
		return &reqSpec{"POST", "/api/v1/write/line-protocol", "text/plain", lpBody, true}, true
	case "tle":
		return &reqSpec{"POST", "/api/v1/write/tle", "text/plain", []byte(issTLE), true}, true
	case "query":
		return &reqSpec{"POST", "/api/v1/query", "application/json", sql, false}, true
	case "query_msgpack":
		return &reqSpec{"POST", "/api/v1/query/msgpack", "application/json", sql, false}, true
	case "estimate":
		return &reqSpec{"POST", "/api/v1/query/estimate", "application/json", sql, false}, true
	case "arrow":
		return &reqSpec{"POST", "/api/v1/query/arrow", "application/json", sql, false}, true
	}
	return nil, false
}

func main() {
	scenPath := flag.String("scenarios", "", "scenarios json")
	outPath := flag.String("out", "", "result json")
	repeat := flag.Int("repeat", 1, "times each scenario is replayed (target choice is nondeterministic)")
	flag.Parse()
	res := &result{PerOutcome: map[string]int{}, PerEp: map[string]int{}, Skipped: map[string]int{}}
	err := run(*scenPath, *repeat, res)
	if err != nil {
		res.Infra = err.Error()
	}
	f, _ := os.Create(*outPath)
	_ = json.NewEncoder(f).Encode(res)
	f.Close()
}

func run(scenPath string, repeat int, res *result) error {
	raw, err := os.ReadFile(scenPath)
	if err != nil {
		return err
	}
	var scs []scenario
	if err := json.Unmarshal(raw, &scs); err != nil {
		return err
	}
	logger := zerolog.Nop()
	const maxSlots = 4
	slots := make([]*slot, maxSlots+1)
	byAddr := map[string]*slot{}
	for i := 1; i <= maxSlots; i++ {
		s, err := newSlot(i, logger)
		if err != nil {
			return err
		}
		slots[i] = s
		byAddr[s.addr] = s
	}
	tr := &http.Transport{
		DialContext: func(ctx context.Context, network, addr string) (net.Conn, error) {
			s, ok := byAddr[addr]
			if !ok {
				return nil, fmt.Errorf("verif: unknown node address %s", addr)
			}
			if s.dead.Load() {
				return nil, &net.OpError{Op: "dial", Net: network, Err: fmt.Errorf("connect: connection refused (verif: node is down)")}
			}
			return s.ln.Dial()
		},
		MaxIdleConnsPerHost: 8,
	}
	// the test client opens a fresh connection per request: the streaming handlers
	// (SetBodyStreamWriter) and fasthttp's in-memory pipe do not mix with connection reuse
	ctr := &http.Transport{DialContext: tr.DialContext, DisableKeepAlives: true}
	client := &http.Client{Transport: ctr, Timeout: 60 * time.Second}

	// probe which endpoints answer at all on a standalone node (an endpoint missing from this
	// build, e.g. the Arrow route without -tags duckdb_arrow, is skipped, never judged)
	usable := map[string]bool{}
	slots[1].setRouter(nil)
	for _, ep := range []string{"msgpack", "lp_v1", "lp_v2", "lp_simple", "tle", "query", "query_msgpack", "estimate", "arrow"} {
		rq, _ := mkRequest(ep)
		st, body, err := doArrowSafe(client, slots[1], rq, ep, "", res, true)
		if err != nil {
			return fmt.Errorf("probe %s: %w", ep, err)
		}
		ok := st >= 200 && st < 300
		if ok && !rq.isWrite && ep == "query" && !strings.Contains(string(body), `"n1"`) {
			return fmt.Errorf("probe query: response does not carry whoami(): %s", trunc(string(body)))
		}
		usable[ep] = ok
		if !ok {
			res.Skipped[ep+fmt.Sprintf(":status%d", st)] = 1
		}
		takeEvents()
		for i := 1; i <= maxSlots; i++ {
			_ = slots[i].buf.FlushAll(context.Background())
			slots[i].store.take()
		}
	}
	for _, must := range []string{"msgpack", "lp_v1", "lp_v2", "lp_simple", "query"} {
		if !usable[must] {
			return fmt.Errorf("endpoint %s does not work on a standalone node (%v)", must, res.Skipped)
		}
	}

	// group scenarios by configuration so routers are rebuilt once per configuration
	sort.SliceStable(scs, func(i, j int) bool { return fmt.Sprint(scs[i].Nodes) < fmt.Sprint(scs[j].Nodes) })
	targetsSeen := map[string]bool{}
	violSeen := map[string]bool{}
	driftSeen := map[string]bool{}
	lastCfg := ""
	for si := range scs {
		sc := &scs[si]
		n := len(sc.Nodes)
		if n < 1 || n > maxSlots {
			return fmt.Errorf("scenario with %d nodes", n)
		}
		nodes := sc.Nodes
		key := fmt.Sprint(sc.Nodes)
		if sc.Round == 2 {
			if !usable[sc.Ep] {
				continue
			}
			// round 1 on fresh routers until the nondeterministic target is the one of the scenario,
			// then the registries change IN PLACE (routers stay alive) and the request is sent again
			rq1, _ := mkRequest(sc.Ep)
			realised := false
			for try := 0; try < 6 && !realised; try++ {
				cl := configure(slots, sc.Nodes, tr, logger)
				st1, _, err := doArrowSafe(client, slots[1], rq1, sc.Ep, markerOf(sc.Hdr), res, !anyDown(sc.Nodes))
				ch := collapseRetries(takeEvents())
				for i := 1; i <= maxSlots; i++ {
					_ = slots[i].buf.FlushAll(context.Background())
					slots[i].store.take()
				}
				if err == nil && st1 < 300 && len(ch) == 2 && ch[1].Node == sc.R1Proc {
					nodes = append([]int(nil), sc.Nodes...)
					nodes[sc.ChgNode-1] = sc.ChgType
					reconfigure(slots, cl, nodes, sc.ChgNode, tr, logger)
					realised = true
				}
			}
			lastCfg = ""
			if !realised {
				res.Unrealised++
				continue
			}
			res.Round2++
			key = fmt.Sprintf("%v>%d:%d", sc.Nodes, sc.ChgNode, sc.ChgType)
		} else if key != lastCfg {
			configure(slots, sc.Nodes, tr, logger)
			lastCfg = key
		}
		rq, ok := mkRequest(sc.Ep)
		if !ok {
			return fmt.Errorf("unknown endpoint %s", sc.Ep)
		}
		if !usable[sc.Ep] {
			continue
		}
		res.Scenarios++
		hdrVal := markerOf(sc.Hdr)
		for rep := 0; rep < repeat; rep++ {
			// The Arrow stream handler intermittently answers with a corrupted status line
			// ("0TTP/1.1"; also seen over real TCP loopback).  Such a transport-level failure --
			// seen by the test client as an error, or by a forwarding router as 502 after its own
			// retry -- is never judged: the request is repeated and, if it keeps failing, counted
			// as unjudged.
			st, body, err := doArrowSafe(client, slots[1], rq, sc.Ep, hdrVal, res, !anyDown(nodes))
			if err != nil && sc.Ep == "arrow" {
				takeEvents()
				res.Unjudged++
				continue
			}
			if err != nil {
				return fmt.Errorf("request failed (%v %s %s): %w", nodes, sc.Ep, sc.Hdr, err)
			}
			res.Requests++
			res.PerEp[sc.Ep]++
			chain := collapseRetries(takeEvents())
			// who processed locally
			var procs []int
			if rq.isWrite {
				for i := 1; i <= maxSlots; i++ {
					if err := slots[i].buf.FlushAll(context.Background()); err != nil {
						return fmt.Errorf("flush n%d: %w", i, err)
					}
					if w := slots[i].store.take(); len(w) > 0 {
						procs = append(procs, i)
					}
				}
			} else if st >= 200 && st < 300 {
				if sc.Ep == "query" {
					for i := 1; i <= maxSlots; i++ {
						if strings.Contains(string(body), fmt.Sprintf(`"n%d"`, i)) {
							procs = append(procs, i)
						}
					}
					if len(procs) == 0 {
						return fmt.Errorf("query answered %d without whoami value: %s", st, trunc(string(body)))
					}
				} else if len(chain) > 0 {
					// success answer of an endpoint whose body does not name the executor:
					// the last node of the observed chain produced it
					procs = append(procs, chain[len(chain)-1].Node)
				}
			}
			obs := map[string]interface{}{"nodes": describe(nodes), "endpoint": sc.Ep, "client_marker": sc.Hdr, "round": sc.Round, "reregistered": reregDesc(sc),
				"status": st, "chain": chain, "processed_by": procs}
			if len(res.Samples) < 6 && len(chain) > 1 {
				res.Samples = append(res.Samples, obs)
			}
			if sc.Ep == "arrow" && st == 502 && len(chain) > 1 {
				// the peer received the forwarded Arrow request, the router could not read its answer:
				// the corrupted-status-line artefact on the inter-node leg, not a routing decision
				res.Unjudged++
				continue
			}
			if len(chain) == 0 || chain[0].Node != 1 {
				return fmt.Errorf("entry node did not record the request: %v", obs)
			}
			hops := len(chain) - 1
			res.Forwards += hops
			isW := rq.isWrite
			class := "query"
			if isW {
				class = "write"
			}
			addV := func(sig string) {
				if !violSeen[sig] {
					violSeen[sig] = true
					res.Violations = append(res.Violations, finding{sig, obs})
				}
			}
			addD := func(sig string) {
				if !driftSeen[sig] {
					driftSeen[sig] = true
					res.Drift = append(res.Drift, finding{sig, obs})
				}
			}
			entryKind := kindOf(nodes[0])
			// --- the property, judged on the observation
			if hops > 1 {
				addV(fmt.Sprintf("forwarded-more-than-once:%s:hops=%d", class, hops))
			}
			if chain[0].FwdBy != "" && hops >= 1 {
				// the request arrived carrying the forwarded-by marker and was forwarded all the same
				addV(fmt.Sprintf("marked-request-forwarded-again:%s:marker=%s", class, sc.Hdr))
			}
			for _, p := range procs {
				k := kindOf(nodes[p-1])
				if !capable(k, isW) {
					how := "received-directly"
					if p != 1 {
						how = "after-forward"
					}
					addV(fmt.Sprintf("processed-by-incapable-node:%s:%s:role=%s:%s", class, sc.Ep, roleOf(k), how))
				}
			}
			if len(procs) > 1 {
				addV(fmt.Sprintf("processed-on-several-nodes:%s", class))
			}
			if capable(entryKind, isW) {
				if hops > 0 {
					addV(fmt.Sprintf("capable-node-forwarded:%s:role=%s", class, roleOf(entryKind)))
				} else if len(procs) != 1 || procs[0] != 1 {
					addV(fmt.Sprintf("capable-node-did-not-serve:%s:%s:role=%s:status=%d", class, sc.Ep, roleOf(entryKind), st))
				}
			}
			for h := 1; h < len(chain); h++ {
				tk := kindOf(nodes[chain[h].Node-1])
				if !capable(tk, isW) {
					addV(fmt.Sprintf("forwarded-to-incapable-peer:%s:role=%s", class, roleOf(tk)))
				}
				if chain[h].FwdBy != fmt.Sprintf("n%d", chain[h-1].Node) {
					addD(fmt.Sprintf("forwarded request carries marker %q instead of the forwarder's id", chain[h].FwdBy))
				}
				targetsSeen[fmt.Sprintf("%s>%d", key, chain[h].Node)] = true
			}
			if hops == 1 && (len(procs) != 1 || procs[0] != chain[1].Node) && capable(kindOf(nodes[chain[1].Node-1]), isW) {
				addV(fmt.Sprintf("forwarded-request-not-served-by-capable-target:%s:%s:status=%d", class, sc.Ep, st))
			}
			// entry cannot serve, the client sent no marker, a healthy capable peer is registered,
			// and yet nothing was forwarded
			if !capable(entryKind, isW) && sc.Hdr == "none" && hops == 0 && len(procs) == 0 && hasTarget(nodes, isW) {
				addV(fmt.Sprintf("not-forwarded-although-capable-peer-registered:%s:%s:status=%d", class, sc.Ep, st))
			}
			// --- drift against the TLC prediction
			o := predicted{Outcome: "other", Hops: hops}
			switch {
			case len(procs) == 1:
				o.Outcome, o.Proc = "local", procs[0]
			case st == 508:
				o.Outcome = "loop508"
			case st == 503:
				o.Outcome = "none503"
			case st == 502:
				o.Outcome = "fail502"
			}
			res.PerOutcome[fmt.Sprintf("%s/hops%d", o.Outcome, hops)]++
			match := false
			for _, a := range sc.Allowed {
				if a == o {
					match = true
				}
			}
			if !match {
				addD(fmt.Sprintf("observed %s(proc=%d,hops=%d,status=%d) for %s entry=%s marker=%s not predicted by Routing.tla",
					o.Outcome, o.Proc, o.Hops, st, sc.Ep, entryKind, sc.Hdr))
			}
		}
	}
	res.Targets = len(targetsSeen)
	tr.CloseIdleConnections()
	return nil
}

// doArrowSafe is do() plus the repeat rule for the Arrow endpoint's transport failures.
// retry502: a 502 can only be the corrupted-status-line artefact (no node of the configuration is down).
func doArrowSafe(client *http.Client, entry *slot, rq *reqSpec, ep, marker string, res *result, retry502 bool) (int, []byte, error) {
	st, body, err := do(client, entry, rq, marker)
	for try := 0; ep == "arrow" && (err != nil || (retry502 && st == 502)) && try < 8; try++ {
		takeEvents()
		res.Retries++
		st, body, err = do(client, entry, rq, marker)
	}
	if ep == "arrow" && err == nil && retry502 && st == 502 {
		err = fmt.Errorf("arrow request kept failing at transport level (502)")
	}
	return st, body, err
}

// collapseRetries drops the repeated receptions a router's own retry of ONE forward produces
// (same target, same forwarder marker as the previous reception): a retried hop is one hop.
func collapseRetries(chain []event) []event {
	var out []event
	for _, e := range chain {
		if n := len(out); n > 0 && e.FwdBy != "" && out[n-1].Node == e.Node && out[n-1].FwdBy == e.FwdBy {
			continue
		}
		out = append(out, e)
	}
	return out
}

// hasTarget: a registry-healthy capable peer exists and none of the registry-healthy capable peers
// is down (with a down candidate the router may legitimately pick it and answer 502).
func hasTarget(nodes []int, isWrite bool) bool {
	found := false
	for _, t := range nodes[1:] {
		k := kindOf(t)
		if !healthy(t) {
			continue
		}
		if k == "wp" || k == "ws" || k == "wn" || (!isWrite && k == "rd") {
			if !reachable(t) {
				return false
			}
			found = true
		}
	}
	return found
}

func anyDown(nodes []int) bool {
	for _, t := range nodes {
		if !reachable(t) {
			return true
		}
	}
	return false
}

func describe(nodes []int) []string {
	out := make([]string, len(nodes))
	for i, t := range nodes {
		h := "healthy"
		if !healthy(t) {
			h = "unhealthy"
		} else if !reachable(t) {
			h = "healthy-but-down"
		}
		out[i] = fmt.Sprintf("n%d:%s:%s", i+1, kindOf(t), h)
	}
	return out
}

func trunc(s string) string {
	if len(s) > 300 {
		return s[:300]
	}
	return s
}

func takeEvents() []event {
	evMu.Lock()
	e := events
	events = nil
	evMu.Unlock()
	return e
}

func markerOf(h string) string {
	switch h {
	case "junk":
		return "not-a-node"
	case "self":
		return "n1"
	case "peer":
		return "n2"
	}
	return ""
}

func reregDesc(sc *scenario) string {
	if sc.Round != 2 {
		return ""
	}
	return fmt.Sprintf("after a first identical request served by n%d, n%d re-registered as %s", sc.R1Proc, sc.ChgNode,
		describe([]int{sc.ChgType})[0][3:])
}

type clusterState struct {
	regs    []*cluster.Registry
	routers []*cluster.Router
}

func mkNode(slots []*slot, nodes []int, i int) *cluster.Node {
	t := nodes[i-1]
	k := kindOf(t)
	nd := cluster.NewNode(slots[i].id, slots[i].id, roleOf(k), "verif")
	nd.APIAddress = slots[i].addr
	nd.Address = fmt.Sprintf("n%d.verif:9100", i)
	if healthy(t) {
		nd.State = cluster.StateHealthy
	} else {
		nd.State = cluster.StateUnhealthy
	}
	switch k {
	case "wp":
		nd.WriterSt = cluster.WriterStatePrimary
	case "ws":
		nd.WriterSt = cluster.WriterStateStandby
	}
	return nd
}

func setDead(slots []*slot, nodes []int, tr *http.Transport) {
	// pooled keep-alive connections of the previous configuration must not reach a node that is down now
	tr.CloseIdleConnections()
	for i := 1; i < len(slots); i++ {
		slots[i].dead.Store(i <= len(nodes) && !reachable(nodes[i-1]))
	}
}

func buildNode(slots []*slot, nodes []int, i int, cl *clusterState, tr *http.Transport, logger zerolog.Logger) {
	if i > len(nodes) || kindOf(nodes[i-1]) == "nr" {
		slots[i].setRouter(nil)
		cl.regs[i], cl.routers[i] = nil, nil
		return
	}
	local := mkNode(slots, nodes, i)
	reg := cluster.NewRegistry(&cluster.RegistryConfig{LocalNode: local, Logger: logger})
	for j := 1; j <= len(nodes); j++ {
		if j != i {
			_ = reg.Register(mkNode(slots, nodes, j))
		}
	}
	r := cluster.NewRouter(&cluster.RouterConfig{Timeout: 30 * time.Second, Retries: 2, Registry: reg,
		LocalNode: local, Logger: logger, Transport: tr})
	slots[i].setRouter(r)
	cl.regs[i], cl.routers[i] = reg, r
}

// configure gives every node of the configuration its own registry view and a fresh router.
func configure(slots []*slot, nodes []int, tr *http.Transport, logger zerolog.Logger) *clusterState {
	cl := &clusterState{regs: make([]*cluster.Registry, len(slots)), routers: make([]*cluster.Router, len(slots))}
	setDead(slots, nodes, tr)
	for i := 1; i < len(slots); i++ {
		buildNode(slots, nodes, i, cl, tr, logger)
	}
	return cl
}

// reconfigure applies "node chg re-registered with its new role / writer state / health" to the LIVE
// cluster: every other node keeps its registry and router instance and just sees the re-registration
// (Registry.Register with the same id); the changed node itself restarts (fresh registry and router).
func reconfigure(slots []*slot, cl *clusterState, nodes []int, chg int, tr *http.Transport, logger zerolog.Logger) {
	setDead(slots, nodes, tr)
	for i := 1; i <= len(nodes); i++ {
		if i == chg {
			buildNode(slots, nodes, i, cl, tr, logger)
		} else if cl.regs[i] != nil {
			_ = cl.regs[i].Register(mkNode(slots, nodes, chg))
		}
	}
}

func do(client *http.Client, entry *slot, rq *reqSpec, marker string) (int, []byte, error) {
	req, err := http.NewRequest(rq.method, "http://"+entry.addr+rq.path, bytes.NewReader(rq.body))
	if err != nil {
		return 0, nil, err
	}
	req.Header.Set("Content-Type", rq.ctype)
	if marker != "" {
		req.Header.Set("X-Arc-Forwarded-By", marker)
	}
	resp, err := client.Do(req)
	if err != nil {
		return 0, nil, err
	}
	defer resp.Body.Close()
	b, err := io.ReadAll(resp.Body)
	if err != nil {
		return 0, nil, err
	}
	return resp.StatusCode, b, nil
}

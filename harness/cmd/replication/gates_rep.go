//go:build c24grep

package main

import "github.com/basekick-labs/arc/internal/cluster/replication"

func init() { gateInstallers = append(gateInstallers, func() { replication.VerifGate = gateFn }) }

// Command replication is the C24 driver (specs/replication): it wires the REAL pipeline
//
//	wal.Writer --(hook installed by the real Coordinator.StartReplication)--> replication.Sender
//	   --net.Pipe--> frame-aware proxy --loop-back TCP--> replication.Receiver (real connect/handshake,
//	   answered by the real Coordinator.handleReplicateSync)
//
// and, per scenario, (1) runs 1..16 producer goroutines through wal.Writer.AppendRaw /
// AppendRawWithMeta -- either under a TLC-generated schedule enforced with overlaygen gates
// (wal.beforeHook, rep.afterSeq, rep.broadcast) or free-running --, (2) captures the frames the
// sender emits, (3) applies a TLC-generated wire-adversary schedule (flip/dup/drop/swap/splice/
// replay-checkpoint, plus raw byte flips) to the captured frames, (4) delivers them to the real
// receiver and (5) records append / sent / cp / wdrop / adv / cpdeliver / applied / conndrop / end
// events. The event log is judged by TLC against specs/replication/ReplicationProp.tla; this
// program takes no verdict itself.
package main

import (
	"bytes"
	"context"
	"crypto/rand"
	"crypto/sha256"
	"encoding/base64"
	"encoding/binary"
	"encoding/hex"
	"encoding/json"
	"flag"
	"fmt"
	"io"
	mrand "math/rand"
	"net"
	"os"
	"regexp"
	"runtime"
	"strconv"
	"strings"
	"sync"
	"sync/atomic"
	"time"

	"github.com/basekick-labs/arc/internal/cluster"
	"github.com/basekick-labs/arc/internal/cluster/protocol"
	"github.com/basekick-labs/arc/internal/cluster/replication"
	"github.com/basekick-labs/arc/internal/cluster/security"
	"github.com/basekick-labs/arc/internal/wal"
	"github.com/rs/zerolog"
)

const (
	clusterName = "verif-c24"
	secret      = "verif-c24-shared-secret-0123456789abcdef"
	waitLimit   = 120 * time.Second
)

// ---------------------------------------------------------------- scenarios / results

type advOp struct {
	Op  string `json:"op"` // flip dup drop swap splice replaycp delaycps dropwindow flipbyte
	I   int    `json:"i"`
	J   int    `json:"j"`
	Fld string `json:"fld"`
	Off int    `json:"off,omitempty"`
	Xor int    `json:"xor,omitempty"`
}

type prediction struct {
	Conn    string `json:"conn"`
	Applied []int  `json:"applied"`
	Stream  []struct {
		T   string `json:"t"`
		Seq int    `json:"seq"`
	} `json:"stream"`
}

type scenario struct {
	ID      int         `json:"id"`
	Kind    string      `json:"kind"` // "sched" (gated) | "stress" (free running)
	NProd   int         `json:"nprod"`
	PerProd int         `json:"perprod"`
	Buf     int         `json:"buf"`
	Cp      int         `json:"cp"`
	Sched   []int       `json:"sched"`
	Adv     []advOp     `json:"adv"`
	Seed    int64       `json:"seed"`
	MaxPay  int         `json:"maxpay"`
	Pred    *prediction `json:"pred,omitempty"`
	// Atomic: the schedule was generated for the code as it is since fix d5f2c74 (sequence.Add and the
	// enqueue are one critical section = one token): the rep.afterSeq gate is not a stop. Schedules of
	// the as-written control generator (Atomic=false) stop there, which realises the old inversion
	// again if the critical section is ever removed.
	Atomic bool `json:"atomic"`
}

type runInfo struct {
	ID          int      `json:"id"`
	Kind        string   `json:"kind"`
	NProd       int      `json:"nprod"`
	PerProd     int      `json:"perprod"`
	Buf         int      `json:"buf"`
	Cp          int      `json:"cp"`
	Sched       []int    `json:"sched,omitempty"`
	Adv         []advOp  `json:"adv,omitempty"`
	AdvApplied  []string `json:"adv_applied,omitempty"`
	StreamSeqs  []string `json:"stream"` // emission order, e.g. "e2","e1","c1"
	WDropped    []uint64 `json:"wdropped,omitempty"`
	AppliedSeqs []int64  `json:"applied"` // writer sequence of every applied payload (-1 = not a sent payload)
	Up          bool     `json:"up"`
	Reasons     []string `json:"reasons,omitempty"`  // connection drop reasons (log messages)
	Warnings    []string `json:"warnings,omitempty"` // receiver warnings on a connection that was kept
	Inverted    bool     `json:"inverted"`           // writer emitted a non-increasing sequence on a healthy wire
	Deviations  int      `json:"deviations"`         // schedule steps that could not be executed as planned
	Drift       string   `json:"drift,omitempty"`    // observed outcome differs from TLC's prediction
	DropsByCtr  bool     `json:"drops_by_counter,omitempty"`
	RLast       uint64   `json:"rlast"`
	FirstLine   int      `json:"first_line"` // 1-based line of the run's first event in the trace
}

type result struct {
	Runs         []runInfo      `json:"runs"`
	Events       int            `json:"events"`
	GatesPresent []string       `json:"gates_present"`
	Counts       map[string]int `json:"counts"`
	Infra        string         `json:"infra,omitempty"`
}

type event map[string]interface{}

// ---------------------------------------------------------------- goroutine introspection

var goidRe = regexp.MustCompile(`^goroutine (\d+) \[([^\]]*)\]`)

func goid() int64 {
	var buf [64]byte
	n := runtime.Stack(buf[:], false)
	m := goidRe.FindSubmatch(buf[:n])
	if m == nil {
		return -1
	}
	id, _ := strconv.ParseInt(string(m[1]), 10, 64)
	return id
}

func allStacks() string {
	buf := make([]byte, 1<<18)
	for {
		n := runtime.Stack(buf, true)
		if n < len(buf) {
			return string(buf[:n])
		}
		buf = make([]byte, 2*len(buf))
	}
}

var blockedStates = []string{"sync.Mutex.Lock", "sync.RWMutex.Lock", "sync.RWMutex.RLock", "semacquire",
	"chan send", "chan receive", "select", "sync.Cond.Wait", "sync.WaitGroup.Wait"}

// goroutineBlocked reports whether goroutine id is parked on a lock / channel (not merely descheduled).
func goroutineBlocked(stacks string, id int64) bool {
	hdr := fmt.Sprintf("goroutine %d [", id)
	i := strings.Index(stacks, hdr)
	if i < 0 {
		return false
	}
	st := stacks[i+len(hdr):]
	if j := strings.IndexByte(st, ']'); j >= 0 {
		st = st[:j]
	}
	for _, b := range blockedStates {
		if strings.HasPrefix(st, b) {
			return true
		}
	}
	return false
}

// distributorIdle: the sender's distributionLoop goroutine is parked in its select with nothing in hand.
func distributorIdle(stacks string) bool {
	for _, blk := range strings.Split(stacks, "\n\n") {
		if !strings.Contains(blk, "replication.(*Sender).distributionLoop") {
			continue
		}
		if strings.Contains(blk, "broadcastEntry") {
			return false
		}
		m := goidRe.FindStringSubmatch(blk)
		return m != nil && strings.HasPrefix(m[2], "select")
	}
	return true // no distributor (sender stopped)
}

// ---------------------------------------------------------------- gates

const (
	stIdle int32 = iota // waiting for the scheduler to start the next entry (or finished)
	stRunning
	stAtGate
)

type producer struct {
	id       int
	gid      int64
	status   atomic.Int32
	started  int // entries started
	finished atomic.Int32
	start    chan struct{}
	release  chan struct{}
	payloads [][]byte
	dbs      []string
}

type gateCtl struct {
	active     atomic.Bool
	skipAfter  atomic.Bool // rep.afterSeq is a pass-through (Atomic schedules)
	mu         sync.Mutex
	byGid      map[int64]*producer
	distParked atomic.Bool
	distRel    chan struct{}
}

var ctl = &gateCtl{byGid: map[int64]*producer{}, distRel: make(chan struct{})}

func gateFn(name string) {
	if !ctl.active.Load() {
		return
	}
	if name == "rep.broadcast" {
		ctl.distParked.Store(true)
		<-ctl.distRel
		return
	}
	if name == "rep.afterSeq" && ctl.skipAfter.Load() {
		return
	}
	ctl.mu.Lock()
	p := ctl.byGid[goid()]
	ctl.mu.Unlock()
	if p == nil {
		return
	}
	p.status.Store(stAtGate)
	<-p.release
}

var gatesPresent = map[string]bool{}

// gateInstallers is filled by the build-tagged files gates_wal.go / gates_rep.go (the VerifGate
// variables exist only in packages where overlaygen found at least one anchor).
var gateInstallers []func()

// ---------------------------------------------------------------- log capture

type logSink struct {
	who string
	fn  func(who string, rec map[string]interface{})
}

func (l *logSink) Write(b []byte) (int, error) {
	var rec map[string]interface{}
	if json.Unmarshal(b, &rec) == nil && l.fn != nil {
		l.fn(l.who, rec)
	}
	return len(b), nil
}

// ---------------------------------------------------------------- run state

type frame struct {
	typ     byte
	body    []byte
	origIdx int // 1-based index in the writer's stream (0 = not an original frame)
	touched bool
	raw     []byte // if set, delivered instead of the re-framed body (byte-level edits incl. header)
}

func (f *frame) bytes() []byte {
	if f.raw != nil {
		return f.raw
	}
	out := make([]byte, 5+len(f.body))
	binary.BigEndian.PutUint32(out[0:4], uint32(1+len(f.body)))
	out[4] = f.typ
	copy(out[5:], f.body)
	return out
}

// payloadHashOf returns the hash id of the payload an entry frame would make the receiver apply.
func (f *frame) payloadHash() string {
	b := f.bytes()
	if len(b) < 5 || b[4] != replication.MsgReplicateEntry {
		return ""
	}
	e, err := replication.ParseEntry(b[5:])
	if err != nil {
		return ""
	}
	return hid(e.Payload)
}

func hid(p []byte) string {
	s := sha256.Sum256(p)
	return hex.EncodeToString(s[:8])
}

type run struct {
	sc         scenario
	mu         sync.Mutex
	pre        []event // writer-side events, in the order of the effects
	live       []event // receiver-side events (applied / conndrop) in the order of the effects
	captured   []*frame
	seqOfH     map[string]uint64
	wdrops     []uint64
	inFrame    atomic.Bool
	tearing    atomic.Bool
	reasons    []string
	readerMsgs []string // warn/error records of the receiver's logger
	notes      []string
	phase      atomic.Int32 // 0 produce/capture, 1 deliver
}

func (r *run) addPre(e event)  { r.mu.Lock(); r.pre = append(r.pre, e); r.mu.Unlock() }
func (r *run) addLive(e event) { r.mu.Lock(); r.live = append(r.live, e); r.mu.Unlock() }

func (r *run) onLog(who string, rec map[string]interface{}) {
	lvl, _ := rec["level"].(string)
	if lvl != "warn" && lvl != "error" && lvl != "fatal" {
		return
	}
	msg, _ := rec["message"].(string)
	if who == "writer" {
		comp, _ := rec["component"].(string)
		if seq, ok := rec["sequence"].(float64); ok && comp == "replication-sender" && strings.Contains(msg, "dropped") {
			r.mu.Lock()
			r.wdrops = append(r.wdrops, uint64(seq))
			r.pre = append(r.pre, event{"ev": "wdrop", "seq": uint64(seq)})
			r.mu.Unlock()
			return
		}
		if comp == "replication-sender" && strings.Contains(msg, "Failed to send entry") && !r.tearing.Load() {
			// the writer tore the reader connection down (send failure)
			r.mu.Lock()
			r.reasons = append(r.reasons, "writer: "+msg)
			ev := event{"ev": "conndrop", "reason": "writer: " + msg}
			if r.phase.Load() == 0 {
				r.pre = append(r.pre, ev)
			} else {
				r.live = append(r.live, ev)
			}
			r.mu.Unlock()
		}
		return
	}
	if r.tearing.Load() {
		return
	}
	// informational only: whether the connection was dropped is decided from what happened on the
	// socket (reset / write failure) and the receiver's error counter, never from a log line
	r.mu.Lock()
	r.readerMsgs = append(r.readerMsgs, msg)
	r.mu.Unlock()
}

// ---------------------------------------------------------------- harness (process-wide)

type harness struct {
	w        *wal.Writer
	ln       net.Listener
	rng      *mrand.Rand
	prevSess []*frame // frames captured on the previous healthy connection (for cross-session splices)
	trace    *os.File
	lines    int
	res      result
}

func infra(format string, a ...interface{}) error { return fmt.Errorf(format, a...) }

func waitFor(what string, cond func() bool) error {
	deadline := time.Now().Add(waitLimit)
	for i := 0; ; i++ {
		if cond() {
			return nil
		}
		if time.Now().After(deadline) {
			return infra("timed out waiting for %s\n%s", what, allStacks())
		}
		if i < 200 {
			runtime.Gosched()
		} else {
			time.Sleep(100 * time.Microsecond)
		}
	}
}

func bufferUsed(s *replication.Sender) int {
	v, _ := s.Stats()["buffer_used"].(int)
	return v
}

func statInt64(m map[string]interface{}, k string) int64 {
	switch v := m[k].(type) {
	case int64:
		return v
	case int:
		return int64(v)
	case uint64:
		return int64(v)
	}
	return 0
}

func makePayload(rng *mrand.Rand, scID, p, k, maxPay int) []byte {
	n := 16
	if maxPay > 16 {
		n += rng.Intn(maxPay - 16)
	}
	b := make([]byte, n)
	rng.Read(b)
	copy(b, []byte(fmt.Sprintf("s%dp%dk%d|", scID, p, k)))
	return b
}

func envelope(db string, payload []byte) []byte {
	out := make([]byte, 0, 3+len(db)+len(payload))
	out = append(out, 0x01, byte(len(db)>>8), byte(len(db)))
	out = append(out, db...)
	return append(out, payload...)
}

func (h *harness) runScenario(sc scenario) (err error) {
	r := &run{sc: sc, seqOfH: map[string]uint64{}}
	rng := mrand.New(mrand.NewSource(sc.Seed*7919 + int64(sc.ID)))
	gated := sc.Kind == "sched"

	wlog := zerolog.New(&logSink{who: "writer", fn: r.onLog}).Level(zerolog.WarnLevel)
	rlog := zerolog.New(&logSink{who: "reader", fn: r.onLog}).Level(zerolog.WarnLevel)

	// ---- writer side: real coordinator wiring
	coord := cluster.VerifNewReplicationWriter(clusterName, secret, "writer-1", sc.Buf, h.w, wlog)
	if e := coord.StartReplication(); e != nil {
		return infra("StartReplication: %v", e)
	}
	sender := coord.VerifSender()
	if sender == nil {
		return infra("StartReplication created no sender")
	}
	sender.VerifSetCheckpointInterval(sc.Cp)

	recv := replication.NewReceiver(&replication.ReceiverConfig{
		ReaderID:          fmt.Sprintf("reader-%d", sc.ID),
		WriterAddr:        h.ln.Addr().String(),
		ReconnectInterval: time.Hour,
		AckInterval:       20 * time.Millisecond,
		Logger:            rlog,
		SharedSecret:      secret,
		ClusterName:       clusterName,
		IngestHandler: replication.IngestHandlerFunc(func(_ context.Context, payload []byte) error {
			r.addLive(event{"ev": "applied", "h": hid(payload)})
			return nil
		}),
	})
	ctx, cancel := context.WithCancel(context.Background())
	var rconn net.Conn
	var sp net.Conn
	stopped := false
	teardown := func() {
		if stopped {
			return
		}
		stopped = true
		r.tearing.Store(true)
		ctl.active.Store(false)
		// release anything parked at a gate
		ctl.mu.Lock()
		for _, p := range ctl.byGid {
			select {
			case p.release <- struct{}{}:
			default:
			}
		}
		ctl.byGid = map[int64]*producer{}
		ctl.mu.Unlock()
		if ctl.distParked.CompareAndSwap(true, false) {
			ctl.distRel <- struct{}{}
		}
		recv.Stop()
		if rconn != nil {
			rconn.Close()
		}
		if sp != nil {
			sp.Close()
		}
		coord.StopReplication()
		cancel()
	}
	defer teardown()

	if e := recv.Start(ctx); e != nil {
		return infra("receiver start: %v", e)
	}
	if tl, ok := h.ln.(*net.TCPListener); ok {
		tl.SetDeadline(time.Now().Add(waitLimit))
	}
	rconn, err = h.ln.Accept()
	if err != nil {
		return infra("accept: %v", err)
	}
	var ss net.Conn
	sp, ss = net.Pipe()
	// mini accept loop: what Coordinator.handlePeerConnection does for MsgReplicateSync
	go func() {
		msg, e := protocol.ReceiveMessage(ss, 10*time.Second)
		if e != nil {
			ss.Close()
			return
		}
		req, ok := msg.Payload.(*protocol.ReplicateSync)
		if !ok || msg.Type != protocol.MsgReplicateSync {
			ss.Close()
			return
		}
		coord.VerifHandleReplicateSync(ss, req)
	}()
	// reader -> writer direction: forwarded verbatim (handshake request, acks)
	rdone := make(chan error, 1)
	go func() {
		buf := make([]byte, 4096)
		for {
			n, e := rconn.Read(buf)
			if n > 0 {
				sp.Write(buf[:n])
			}
			if e != nil {
				rdone <- e // io.EOF = orderly close by the receiver; anything else = reset
				return
			}
		}
	}()
	// writer -> reader direction: frame 0 (sync ack) forwarded, the rest captured
	capDone := make(chan struct{})
	go func() {
		defer close(capDone)
		first := true
		for {
			var one [1]byte
			if _, e := io.ReadFull(sp, one[:]); e != nil {
				return
			}
			r.inFrame.Store(true)
			var rest [4]byte
			if _, e := io.ReadFull(sp, rest[:]); e != nil {
				return
			}
			ln := binary.BigEndian.Uint32([]byte{one[0], rest[0], rest[1], rest[2]})
			typ := rest[3]
			if ln < 1 || ln > 64<<20 {
				return
			}
			body := make([]byte, ln-1)
			if _, e := io.ReadFull(sp, body); e != nil {
				return
			}
			f := &frame{typ: typ, body: body}
			if first {
				first = false
				rconn.Write(f.bytes())
				r.inFrame.Store(false)
				continue
			}
			r.mu.Lock()
			r.captured = append(r.captured, f)
			f.origIdx = len(r.captured)
			switch typ {
			case replication.MsgReplicateEntry:
				if e, perr := replication.ParseEntry(body); perr == nil {
					hh := hid(e.Payload)
					if _, dup := r.seqOfH[hh]; !dup {
						r.seqOfH[hh] = e.Sequence
					}
					r.pre = append(r.pre, event{"ev": "sent", "seq": e.Sequence, "h": hh})
				} else {
					r.pre = append(r.pre, event{"ev": "sent", "seq": 0, "h": "unparsable"})
				}
			case replication.MsgReplicateCheckpoint:
				var last uint64
				if cp, perr := replication.ParseCheckpoint(body); perr == nil {
					last = cp.LastSequence
				}
				r.pre = append(r.pre, event{"ev": "cp", "seq": last})
			default:
				r.pre = append(r.pre, event{"ev": "cp", "seq": 0})
			}
			r.mu.Unlock()
			r.inFrame.Store(false)
		}
	}()

	if e := waitFor("reader connected and activated", func() bool { return recv.IsConnected() && sender.ReaderCount() == 1 }); e != nil {
		return e
	}

	// ---- producers
	prods := make([]*producer, sc.NProd)
	var wg sync.WaitGroup
	total := sc.NProd * sc.PerProd
	for i := range prods {
		p := &producer{id: i + 1, start: make(chan struct{}), release: make(chan struct{})}
		for k := 1; k <= sc.PerProd; k++ {
			p.payloads = append(p.payloads, makePayload(rng, sc.ID, p.id, k, sc.MaxPay))
			db := ""
			if (p.id+k)%2 == 0 {
				db = fmt.Sprintf("db%d", p.id)
			}
			p.dbs = append(p.dbs, db)
		}
		prods[i] = p
	}
	ctl.skipAfter.Store(sc.Atomic)
	ctl.active.Store(gated)
	ready := make(chan struct{}, len(prods))
	for _, p := range prods {
		wg.Add(1)
		go func(p *producer) {
			defer wg.Done()
			p.gid = goid()
			ctl.mu.Lock()
			ctl.byGid[p.gid] = p
			ctl.mu.Unlock()
			ready <- struct{}{}
			for k := 0; k < sc.PerProd; k++ {
				if gated {
					<-p.start
				}
				pay, db := p.payloads[k], p.dbs[k]
				if db == "" {
					r.addPre(event{"ev": "append", "h": hid(pay)})
					h.w.AppendRaw(pay)
				} else {
					r.addPre(event{"ev": "append", "h": hid(envelope(db, pay))})
					h.w.AppendRawWithMeta(db, pay)
				}
				p.finished.Add(1)
				p.status.Store(stIdle)
			}
		}(p)
	}
	for range prods {
		<-ready
	}
	deviations := 0
	if gated {
		if e := h.execSchedule(sc, prods, sender, &deviations); e != nil {
			return e
		}
	}
	wg.Wait()
	ctl.active.Store(false)

	// ---- quiescence of the writer side: everything queued has been broadcast and captured
	if e := waitFor("sender idle", func() bool {
		if ctl.distParked.CompareAndSwap(true, false) {
			ctl.distRel <- struct{}{}
		}
		return bufferUsed(sender) == 0 && distributorIdle(allStacks()) && !r.inFrame.Load()
	}); e != nil {
		return e
	}
	st := sender.Stats()
	writerRemoved := sender.ReaderCount() == 0
	r.mu.Lock()
	if writerRemoved {
		seen := false
		for _, e := range r.pre {
			if e["ev"] == "conndrop" {
				seen = true
			}
		}
		if !seen {
			r.pre = append(r.pre, event{"ev": "conndrop", "reason": "writer removed the reader"})
			r.reasons = append(r.reasons, "writer removed the reader")
		}
	}
	nSent := 0
	sentSeqs := map[uint64]bool{}
	for _, f := range r.captured {
		if f.typ == replication.MsgReplicateEntry {
			nSent++
			if e, perr := replication.ParseEntry(f.body); perr == nil {
				sentSeqs[e.Sequence] = true
			}
		}
	}
	dropsByCtr := false
	ctr := int(statInt64(st, "total_entries_dropped"))
	if ctr > len(r.wdrops) && ctr == total-nSent {
		// drops reported through the counter only: the dropped sequences are the assigned ones not emitted
		known := map[uint64]bool{}
		for _, s := range r.wdrops {
			known[s] = true
		}
		for s := uint64(1); s <= uint64(total); s++ {
			if !sentSeqs[s] && !known[s] {
				r.wdrops = append(r.wdrops, s)
				r.pre = append(r.pre, event{"ev": "wdrop", "seq": s})
			}
		}
		dropsByCtr = true
	}
	captured := append([]*frame(nil), r.captured...)
	r.mu.Unlock()
	r.phase.Store(1)

	// ---- adversary
	deliver := append([]*frame(nil), captured...)
	var advApplied []string
	maxSeq := uint64(total)
	for _, op := range sc.Adv {
		var desc string
		deliver, desc = h.applyAdv(deliver, op, rng, maxSeq, captured)
		if desc != "" {
			advApplied = append(advApplied, desc)
		}
	}

	// ---- deliver, then half-close. Everything goes out in ONE write followed by a 2-byte trailer (the
	// start of a frame header that never completes). A receiver that consumed the whole stream reads
	// the trailer, then sees EOF and closes an empty socket: orderly FIN. A receiver that gave up on a
	// frame closes with the trailer (at least) unread: the kernel answers with a reset, or our write
	// fails. That physical difference -- plus the receiver's own total_errors counter -- is what
	// "connection dropped" means here; log lines only supply the reason text.
	var wire bytes.Buffer
	for _, f := range deliver {
		wire.Write(f.bytes())
	}
	wire.Write([]byte{0, 0})
	_, werr := rconn.Write(wire.Bytes())
	if tc, ok := rconn.(*net.TCPConn); ok {
		tc.CloseWrite()
	}
	var rdErr error
	select {
	case rdErr = <-rdone:
	case <-time.After(waitLimit):
		return infra("receiver did not close the connection after end of stream\n%s", allStacks())
	}
	if e := waitFor("receiver left its receive loop", func() bool { return !recv.IsConnected() }); e != nil {
		return e
	}
	rstats := recv.Stats()
	rlast := recv.LastSequence()
	r.tearing.Store(true)
	r.mu.Lock()
	dropped := false
	for _, e := range r.pre {
		if e["ev"] == "conndrop" {
			dropped = true
		}
	}
	how := ""
	switch {
	case werr != nil:
		how = "write to the reader failed: " + werr.Error()
	case rdErr != nil && rdErr != io.EOF:
		how = "reader closed with unread data: " + rdErr.Error()
	case statInt64(rstats, "total_errors") > 0:
		how = "receiver total_errors > 0"
	}
	if how != "" {
		reason := how
		if n := len(r.readerMsgs); n > 0 {
			reason = r.readerMsgs[n-1]
		}
		r.live = append(r.live, event{"ev": "conndrop", "reason": reason})
		r.reasons = append(r.reasons, reason)
		dropped = true
	} else if len(r.readerMsgs) > 0 {
		// the receiver complained but kept the connection
		r.notes = append(r.notes, r.readerMsgs...)
	}
	pre := r.pre
	live := r.live
	r.mu.Unlock()

	// ---- assemble the run's trace (delivery-phase events are placed by stream position, not by time)
	var out []event
	out = append(out, pre...)
	for range advApplied {
		out = append(out, event{"ev": "adv"})
	}
	cur := 0
	sawDrop := false
	emitCps := func(upto int) {
		for ; cur < upto && cur < len(deliver); cur++ {
			f := deliver[cur]
			if !f.touched && f.origIdx > 0 && f.typ == replication.MsgReplicateCheckpoint && !sawDrop {
				out = append(out, event{"ev": "cpdeliver", "idx": f.origIdx})
			}
		}
	}
	info := runInfo{ID: sc.ID, Kind: sc.Kind, NProd: sc.NProd, PerProd: sc.PerProd, Buf: sc.Buf, Cp: sc.Cp,
		Sched: sc.Sched, Adv: sc.Adv, AdvApplied: advApplied, Deviations: deviations, DropsByCtr: dropsByCtr,
		RLast: rlast, FirstLine: h.lines + 1}
	for _, e := range live {
		switch e["ev"] {
		case "applied":
			hh := e["h"].(string)
			for k := cur; k < len(deliver); k++ {
				if deliver[k].payloadHash() == hh {
					emitCps(k)
					cur = k + 1
					break
				}
			}
			out = append(out, e)
			if s, ok := r.seqOfH[hh]; ok {
				info.AppliedSeqs = append(info.AppliedSeqs, int64(s))
			} else {
				info.AppliedSeqs = append(info.AppliedSeqs, -1)
			}
		case "conndrop":
			sawDrop = true
			out = append(out, e)
		}
	}
	if !sawDrop && !dropped {
		// checkpoints after the last applied entry are known to have been consumed only as long as
		// the stream up to them is untouched and contains no entry the receiver did not apply
		for ; cur < len(deliver); cur++ {
			f := deliver[cur]
			if f.touched || f.origIdx == 0 || f.typ != replication.MsgReplicateCheckpoint {
				break
			}
			out = append(out, event{"ev": "cpdeliver", "idx": f.origIdx})
		}
	}
	out = append(out, event{"ev": "end", "run": sc.ID, "up": !dropped, "rlast": rlast})

	// ---- bookkeeping for the report
	prev := uint64(0)
	for _, f := range captured {
		if f.typ == replication.MsgReplicateEntry {
			e, perr := replication.ParseEntry(f.body)
			if perr != nil {
				continue
			}
			info.StreamSeqs = append(info.StreamSeqs, fmt.Sprintf("e%d", e.Sequence))
			if e.Sequence <= prev {
				info.Inverted = true
			}
			prev = e.Sequence
		} else if f.typ == replication.MsgReplicateCheckpoint {
			cp, perr := replication.ParseCheckpoint(f.body)
			if perr == nil {
				info.StreamSeqs = append(info.StreamSeqs, fmt.Sprintf("c%d", cp.LastSequence))
			}
		}
	}
	info.WDropped = r.wdrops
	info.Up = !dropped
	info.Reasons = r.reasons
	if len(r.notes) > 3 {
		r.notes = r.notes[:3]
	}
	info.Warnings = r.notes
	// (two abstract flips of the same field may cancel at byte level, so only single-step scripts are compared)
	if sc.Pred != nil && deviations == 0 && len(sc.Adv) <= 1 {
		info.Drift = comparePrediction(sc.Pred, &info)
	}
	if len(sc.Adv) == 0 && !dropped && !info.Inverted {
		h.prevSess = captured
	}
	for _, e := range out {
		b, _ := json.Marshal(e)
		h.trace.Write(append(b, '\n'))
		h.lines++
	}
	h.res.Runs = append(h.res.Runs, info)
	h.res.Counts[sc.Kind]++
	if info.Inverted {
		h.res.Counts["inverted_streams"]++
	}
	if len(info.WDropped) > 0 {
		h.res.Counts["runs_with_writer_drops"]++
	}
	if dropped {
		h.res.Counts["runs_conn_dropped"]++
	}
	teardown()
	return nil
}

func comparePrediction(p *prediction, info *runInfo) string {
	var ps []string
	for _, f := range p.Stream {
		ps = append(ps, fmt.Sprintf("%s%d", f.T, f.Seq))
	}
	if len(info.Adv) == 0 && strings.Join(ps, ",") != strings.Join(info.StreamSeqs, ",") {
		return fmt.Sprintf("stream predicted %v observed %v", ps, info.StreamSeqs)
	}
	if (p.Conn == "up") != info.Up {
		return fmt.Sprintf("conn predicted %s observed up=%v (%v)", p.Conn, info.Up, info.Reasons)
	}
	if len(p.Applied) != len(info.AppliedSeqs) {
		return fmt.Sprintf("applied predicted %v observed %v", p.Applied, info.AppliedSeqs)
	}
	for i := range p.Applied {
		if int64(p.Applied[i]) != info.AppliedSeqs[i] {
			return fmt.Sprintf("applied predicted %v observed %v", p.Applied, info.AppliedSeqs)
		}
	}
	return ""
}

// execSchedule runs TLC's schedule: token p>0 advances producer p by one step (to its next gate or
// to the end of its current append), token 0 lets the distributor broadcast the entry it holds.
func (h *harness) execSchedule(sc scenario, prods []*producer, sender *replication.Sender, deviations *int) error {
	haveBroadcastGate := gatesPresent["rep.broadcast"]
	settle := func() error {
		if !haveBroadcastGate {
			return nil
		}
		// the channel receive is not controllable: wait until the distributor has taken what it can
		return waitFor("distributor settled", func() bool {
			if ctl.distParked.Load() {
				return true
			}
			return bufferUsed(sender) == 0 && distributorIdle(allStacks())
		})
	}
	waitProd := func(p *producer, targetFinished int32) (blocked bool, err error) {
		deadline := time.Now().Add(waitLimit)
		seenBlocked := 0
		for i := 0; ; i++ {
			st := p.status.Load()
			if st == stAtGate || (st == stIdle && p.finished.Load() >= targetFinished) {
				return false, nil
			}
			if i > 100 && i%8 == 0 {
				// parked on a lock/channel inside arc code (seen on three consecutive samples, so a
				// momentary contention is not mistaken for it): the planned step is not executable now
				if goroutineBlocked(allStacks(), p.gid) && p.status.Load() == stRunning {
					seenBlocked++
					if seenBlocked >= 3 {
						return true, nil
					}
				} else {
					seenBlocked = 0
				}
			}
			if time.Now().After(deadline) {
				return false, infra("producer %d neither reached a gate nor finished\n%s", p.id, allStacks())
			}
			if i < 100 {
				runtime.Gosched()
			} else {
				time.Sleep(50 * time.Microsecond)
			}
		}
	}
	advance := func(p *producer) error {
		switch p.status.Load() {
		case stAtGate:
			p.status.Store(stRunning)
			p.release <- struct{}{}
		case stIdle:
			if p.started >= sc.PerProd {
				*deviations++
				return nil
			}
			p.started++
			p.status.Store(stRunning)
			p.start <- struct{}{}
		case stRunning:
			// still parked inside arc code from an earlier step
		}
		blocked, err := waitProd(p, int32(p.started))
		if blocked {
			*deviations++
		}
		return err
	}
	releaseDist := func() {
		if ctl.distParked.CompareAndSwap(true, false) {
			ctl.distRel <- struct{}{}
		} else {
			*deviations++
		}
	}
	for _, tok := range sc.Sched {
		if tok == 0 {
			if haveBroadcastGate {
				releaseDist()
			}
		} else if tok >= 1 && tok <= len(prods) {
			if err := advance(prods[tok-1]); err != nil {
				return err
			}
		}
		if err := settle(); err != nil {
			return err
		}
	}
	// drain: finish whatever the schedule left unfinished
	deadline := time.Now().Add(waitLimit)
	for {
		done := true
		for _, p := range prods {
			if int(p.finished.Load()) < sc.PerProd {
				done = false
				if err := advance(p); err != nil {
					return err
				}
			}
		}
		if ctl.distParked.CompareAndSwap(true, false) {
			ctl.distRel <- struct{}{}
		}
		if done {
			return nil
		}
		if time.Now().After(deadline) {
			return infra("schedule drain did not finish\n%s", allStacks())
		}
	}
}

// ---------------------------------------------------------------- adversary

func clampIdx(i, n int) int {
	if n == 0 {
		return -1
	}
	if i < 1 {
		i = 1
	}
	return (i - 1) % n
}

var (
	seqRe  = regexp.MustCompile(`"(seq|last_seq)":(\d+)`)
	payRe  = regexp.MustCompile(`"payload":"([^"]*)"`)
	tagRe  = regexp.MustCompile(`"(tag|hmac)":"([^"]*)"`)
	hashRe = regexp.MustCompile(`"cumulative_payload_hash":"([^"]*)"`)
)

func flipHexAt(s []byte, rng *mrand.Rand) {
	if len(s) == 0 {
		return
	}
	i := rng.Intn(len(s))
	if s[i] == '0' {
		s[i] = '1'
	} else {
		s[i] = '0'
	}
}

func (h *harness) applyAdv(fr []*frame, op advOp, rng *mrand.Rand, maxSeq uint64, captured []*frame) ([]*frame, string) {
	n := len(fr)
	clone := func(f *frame) *frame {
		c := *f
		c.body = append([]byte(nil), f.body...)
		if f.raw != nil {
			c.raw = append([]byte(nil), f.raw...)
		}
		return &c
	}
	insertAfter := func(pos int, f *frame) []*frame { // pos = number of frames before the new one
		if pos < 0 {
			pos = 0
		}
		if pos > len(fr) {
			pos = len(fr)
		}
		out := append([]*frame(nil), fr[:pos]...)
		out = append(out, f)
		return append(out, fr[pos:]...)
	}
	switch op.Op {
	case "flip":
		i := clampIdx(op.I, n)
		if i < 0 {
			return fr, ""
		}
		f := clone(fr[i])
		f.touched = true
		body := f.body
		desc := "flip." + op.Fld
		switch op.Fld {
		case "seq":
			m := seqRe.FindSubmatchIndex(body)
			if m == nil {
				return fr, ""
			}
			old, _ := strconv.ParseUint(string(body[m[4]:m[5]]), 10, 64)
			cands := []uint64{old + 1, maxSeq + 5}
			if old > 1 {
				cands = append(cands, old-1)
			}
			nv := cands[rng.Intn(len(cands))]
			nb := append([]byte(nil), body[:m[4]]...)
			nb = append(nb, []byte(strconv.FormatUint(nv, 10))...)
			f.body = append(nb, body[m[5]:]...)
			desc += fmt.Sprintf("(%d->%d)", old, nv)
		case "pay":
			m := payRe.FindSubmatchIndex(body)
			if m == nil || m[3]-m[2] < 8 {
				return fr, ""
			}
			if rng.Intn(2) == 0 {
				// substitute the (authentic) payload of another entry, keeping this entry's tag
				var others [][]byte
				for _, o := range captured {
					if o.typ == replication.MsgReplicateEntry && o.origIdx != f.origIdx {
						if mm := payRe.FindSubmatch(o.body); mm != nil {
							others = append(others, mm[1])
						}
					}
				}
				if len(others) > 0 {
					sub := others[rng.Intn(len(others))]
					nb := append([]byte(nil), body[:m[2]]...)
					nb = append(nb, sub...)
					f.body = append(nb, body[m[3]:]...)
					desc += "(substituted)"
					break
				}
			}
			// change one base64 character well inside the payload (never the padding / last quantum)
			pos := m[2] + rng.Intn(m[3]-m[2]-4)
			raw, derr := base64.StdEncoding.DecodeString(string(body[m[2]:m[3]]))
			if derr != nil {
				return fr, ""
			}
			raw[(pos-m[2])*3/4%len(raw)] ^= byte(1 << uint(rng.Intn(8)))
			enc := base64.StdEncoding.EncodeToString(raw)
			nb := append([]byte(nil), body[:m[2]]...)
			nb = append(nb, enc...)
			f.body = append(nb, body[m[3]:]...)
			desc += "(bit)"
		case "tag":
			m := tagRe.FindSubmatchIndex(body)
			if m == nil {
				return fr, ""
			}
			flipHexAt(f.body[m[4]:m[5]], rng)
		case "hash":
			m := hashRe.FindSubmatchIndex(body)
			if m == nil {
				return fr, ""
			}
			flipHexAt(f.body[m[2]:m[3]], rng)
		default:
			return fr, ""
		}
		out := append([]*frame(nil), fr...)
		out[i] = f
		return out, desc
	case "flipbyte":
		i := clampIdx(op.I, n)
		if i < 0 {
			return fr, ""
		}
		f := clone(fr[i])
		raw := append([]byte(nil), f.bytes()...)
		if len(raw) == 0 {
			return fr, ""
		}
		off := op.Off % len(raw)
		x := byte(op.Xor)
		if x == 0 {
			x = 1
		}
		raw[off] ^= x
		f.raw = raw
		f.touched = true
		out := append([]*frame(nil), fr...)
		out[i] = f
		return out, fmt.Sprintf("flipbyte(frame=%d,off=%d,xor=%#x)", i+1, off, x)
	case "dup", "replaycp":
		i := clampIdx(op.I, n)
		if i < 0 {
			return fr, ""
		}
		want := byte(replication.MsgReplicateEntry)
		if op.Op == "replaycp" {
			want = replication.MsgReplicateCheckpoint
		}
		if fr[i].typ != want {
			// same kind of frame, nearest one
			found := -1
			for k := 0; k < n; k++ {
				if fr[(i+k)%n].typ == want {
					found = (i + k) % n
					break
				}
			}
			if found < 0 {
				return fr, ""
			}
			i = found
		}
		j := op.J
		if j < i+1 {
			j = i + 1
		}
		c := clone(fr[i])
		c.touched = true
		c.origIdx = 0
		return insertAfter(j, c), fmt.Sprintf("%s(frame=%d,after=%d)", op.Op, i+1, j)
	case "dropwindow":
		// window k = every frame after the (k-1)-th checkpoint frame up to and including the k-th one
		var cps []int
		for idx, f := range fr {
			if f.typ == replication.MsgReplicateCheckpoint {
				cps = append(cps, idx)
			}
		}
		if len(cps) == 0 {
			return fr, ""
		}
		k := clampIdx(op.I, len(cps))
		from := 0
		if k > 0 {
			from = cps[k-1] + 1
		}
		to := cps[k]
		out := append([]*frame(nil), fr[:from]...)
		return append(out, fr[to+1:]...), fmt.Sprintf("dropwindow(k=%d,frames=%d..%d)", k+1, from+1, to+1)
	case "delaycps":
		// every checkpoint frame is held back until the entry frame that follows it has gone through
		out := append([]*frame(nil), fr...)
		moved := 0
		for k := 0; k+1 < len(out); k++ {
			if out[k].typ == replication.MsgReplicateCheckpoint && out[k+1].typ == replication.MsgReplicateEntry {
				out[k], out[k+1] = out[k+1], out[k]
				moved++
				k++
			}
		}
		if moved == 0 {
			return fr, ""
		}
		return out, fmt.Sprintf("delaycps(moved=%d)", moved)
	case "drop":
		i := clampIdx(op.I, n)
		if i < 0 {
			return fr, ""
		}
		out := append([]*frame(nil), fr[:i]...)
		return append(out, fr[i+1:]...), fmt.Sprintf("drop(frame=%d,type=%#x)", i+1, fr[i].typ)
	case "swap":
		if n < 2 {
			return fr, ""
		}
		i := clampIdx(op.I, n-1)
		out := append([]*frame(nil), fr...)
		out[i], out[i+1] = out[i+1], out[i]
		return out, fmt.Sprintf("swap(frame=%d,%d)", i+1, i+2)
	case "splice":
		seq := uint64(op.J)
		if seq == 0 {
			seq = 1
		}
		var f *frame
		if op.Fld == "O" && len(h.prevSess) > 0 {
			// a genuine entry frame recorded on an earlier connection (other session key, same cluster secret)
			var es []*frame
			for _, o := range h.prevSess {
				if o.typ == replication.MsgReplicateEntry {
					es = append(es, o)
				}
			}
			if len(es) > 0 {
				f = clone(es[rng.Intn(len(es))])
				// renumber it so that it passes the monotonic check if the tag were not session-bound
				if m := seqRe.FindSubmatchIndex(f.body); m != nil && rng.Intn(2) == 0 {
					nb := append([]byte(nil), f.body[:m[4]]...)
					nb = append(nb, []byte(strconv.FormatUint(seq, 10))...)
					f.body = append(nb, f.body[m[5]:]...)
				}
			}
		}
		if f == nil {
			pay := make([]byte, 24)
			rand.Read(pay)
			e := &replication.ReplicateEntry{Sequence: seq, TimestampUS: uint64(time.Now().UnixMicro()), Payload: pay}
			if op.Fld == "O" {
				key, _ := security.DeriveReplicationSessionKey(secret, "another-session-nonce")
				e.Tag = hex.EncodeToString(security.ComputeReplicationEntryTag(key, seq, pay))
			} else {
				t := make([]byte, security.ReplicationEntryTagLen)
				rand.Read(t)
				e.Tag = hex.EncodeToString(t)
			}
			var b bytes.Buffer
			replication.WriteEntry(&b, e)
			f = &frame{typ: replication.MsgReplicateEntry, body: b.Bytes()[5:]}
		}
		f.touched = true
		f.origIdx = 0
		return insertAfter(op.I, f), fmt.Sprintf("splice(after=%d,seq=%d,key=%s)", op.I, seq, op.Fld)
	}
	return fr, ""
}

// ---------------------------------------------------------------- main

func main() {
	scPath := flag.String("scenarios", "", "")
	outPath := flag.String("out", "", "")
	tracePath := flag.String("trace", "", "")
	workdir := flag.String("workdir", "", "")
	gates := flag.String("gates", "", "comma separated gates present in the overlay")
	flag.Parse()
	res := &result{Counts: map[string]int{}}
	fail := func(err error) {
		res.Infra = err.Error()
		b, _ := json.Marshal(res)
		os.WriteFile(*outPath, b, 0o644)
		os.Exit(0)
	}
	data, err := os.ReadFile(*scPath)
	if err != nil {
		fmt.Fprintln(os.Stderr, err)
		os.Exit(2)
	}
	var scs []scenario
	if err := json.Unmarshal(data, &scs); err != nil {
		fmt.Fprintln(os.Stderr, err)
		os.Exit(2)
	}
	for _, g := range strings.Split(*gates, ",") {
		if g != "" {
			gatesPresent[g] = true
		}
	}
	for _, f := range gateInstallers {
		f()
	}
	for g := range gatesPresent {
		res.GatesPresent = append(res.GatesPresent, g)
	}
	w, err := wal.NewWriter(&wal.WriterConfig{WALDir: *workdir, SyncMode: wal.SyncModeAsync, MaxSizeBytes: 8 << 20,
		MaxAge: time.Hour, BufferSize: 200000, Logger: zerolog.Nop()})
	if err != nil {
		fail(infra("wal.NewWriter: %v", err))
	}
	ln, err := net.Listen("tcp", "127.0.0.1:0")
	if err != nil {
		fail(infra("listen: %v", err))
	}
	tf, err := os.Create(*tracePath)
	if err != nil {
		fail(err)
	}
	h := &harness{w: w, ln: ln, trace: tf, rng: mrand.New(mrand.NewSource(1))}
	h.res = *res
	for _, sc := range scs {
		if sc.MaxPay == 0 {
			sc.MaxPay = 64
		}
		if err := h.runScenario(sc); err != nil {
			h.res.Infra = fmt.Sprintf("scenario %d (%s): %v", sc.ID, sc.Kind, err)
			break
		}
	}
	tf.Close()
	h.res.Events = h.lines
	b, _ := json.Marshal(&h.res)
	os.WriteFile(*outPath, b, 0o644)
	// the WAL writer and listener die with the process
}

//go:build c24gwal

package main

import "github.com/basekick-labs/arc/internal/wal"

func init() { gateInstallers = append(gateInstallers, func() { wal.VerifGate = gateFn }) }

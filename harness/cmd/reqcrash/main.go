// Command reqcrash is the C04 driver. The parent reads request sequences enumerated by TLC
// (specs/reqcrash/ReqCrash.tla), builds the concrete bodies and feeds them to CHILD processes
// (this same binary with REQCRASH_CHILD=1). A child serves each sequence on a fresh instance of
// the real stack -- api.NewServer's fiber app (with arc's recover middleware), the real msgpack
// and line-protocol handlers, a real ArrowBuffer on a real LocalBackend -- then calls FlushAll
// on its main goroutine (standing for the background flush goroutine: a panic there kills the
// process, exactly as in production), reads every Parquet file back with DuckDB and reports.
// The parent observes a panic as the child dying (exit status + captured stack) and restarts it.
// Verdict per sequence: child alive, every request answered, rows of rejected requests absent,
// rows of accepted requests readable.
package main

import (
	"bufio"
	"bytes"
	"context"
	"database/sql"
	"encoding/json"
	"flag"
	"fmt"
	"io"
	"net/http/httptest"
	"os"
	"os/exec"
	"path/filepath"
	"regexp"
	"sort"
	"strings"
	"sync"
	"time"

	"github.com/Basekick-Labs/msgpack/v6"
	"github.com/basekick-labs/arc/internal/api"
	"github.com/basekick-labs/arc/internal/config"
	"github.com/basekick-labs/arc/internal/ingest"
	"github.com/basekick-labs/arc/internal/storage"
	_ "github.com/duckdb/duckdb-go/v2"
	"github.com/klauspost/compress/gzip"
	"github.com/klauspost/compress/zstd"
	"github.com/rs/zerolog"
)

type req struct {
	Ep    string `json:"ep"`
	Codec string `json:"codec"`
	Name  string `json:"name"`
	Typ   string `json:"typ"`
}

type sequence struct {
	ID   int   `json:"id"`
	Reqs []req `json:"reqs"`
	// predicted panic per accept vector ("TF" ...), from TLC; drift detector only
	Pred map[string]bool `json:"pred,omitempty"`
}

type seqResult struct {
	ID       int                      `json:"id"`
	Status   []int                    `json:"status"`
	Resp     []string                 `json:"resp"`
	FlushErr string                   `json:"flush_err,omitempty"`
	Rows     []map[string]interface{} `json:"rows"`
	ReadErr  []string                 `json:"read_err,omitempty"`
}

// ------------------------------------------------------------------ bodies

func colName(class string) string {
	switch class {
	case "empty":
		return ""
	case "underscore":
		return "_c"
	case "time":
		return "time"
	case "reserved":
		return "table"
	}
	return "c"
}

func val(typ string, j int) interface{} {
	switch typ {
	case "int":
		return int64(100 + j)
	case "float":
		return 1.5 + float64(j)
	case "str":
		return []string{"a", "b"}[j]
	case "bool":
		return j == 0
	case "nil":
		return nil
	case "mixed":
		if j == 0 {
			return int64(1)
		}
		return "x"
	}
	return nil
}

func lpVal(typ string, j int) (string, bool) {
	switch typ {
	case "int":
		return fmt.Sprintf("%di", 100+j), true
	case "float":
		return fmt.Sprintf("%g", 1.5+float64(j)), true
	case "str":
		return `"` + []string{"a", "b"}[j] + `"`, true
	case "bool":
		return []string{"true", "false"}[j], true
	case "nil":
		if j == 0 {
			return "", false // sparse: the first line has no such field
		}
		return "7i", true
	case "mixed":
		if j == 0 {
			return "1i", true
		}
		return `"x"`, true
	}
	return "", false
}

const baseUS = int64(1_700_000_000_000_000)

func rid(i, j int) int64 { return int64((i+1)*10 + j + 1) }

func mpColumnar(r req, i int) map[string]interface{} {
	name := colName(r.Name)
	cols := map[string]interface{}{
		"time": []interface{}{baseUS + rid(i, 0), baseUS + rid(i, 1)},
		"rid":  []interface{}{rid(i, 0), rid(i, 1)},
	}
	cols[name] = []interface{}{val(r.Typ, 0), val(r.Typ, 1)}
	return map[string]interface{}{"m": "m", "columns": cols}
}

type httpReq struct {
	Path    string
	Headers map[string]string
	Body    []byte
}

func build(r req, i int) (httpReq, error) {
	h := httpReq{Headers: map[string]string{"x-arc-database": "d"}}
	var body []byte
	var err error
	switch r.Ep {
	case "mpcol":
		h.Path = "/api/v1/write/msgpack"
		body, err = msgpack.Marshal(mpColumnar(r, i))
	case "mpbatch":
		h.Path = "/api/v1/write/msgpack"
		body, err = msgpack.Marshal(map[string]interface{}{"batch": []interface{}{mpColumnar(r, i)}})
	case "mprow":
		h.Path = "/api/v1/write/msgpack"
		var rows []interface{}
		for j := 0; j < 2; j++ {
			rows = append(rows, map[string]interface{}{"m": "m", "t": baseUS + rid(i, j),
				"fields": map[string]interface{}{"rid": rid(i, j), colName(r.Name): val(r.Typ, j)}})
		}
		body, err = msgpack.Marshal(rows)
	case "lp", "lpv1", "lpv2", "lp2m", "lpbadm":
		switch r.Ep {
		case "lpv1":
			h.Path = "/write?db=d&precision=us"
			delete(h.Headers, "x-arc-database")
		case "lpv2":
			h.Path = "/api/v2/write?bucket=d&org=o&precision=us"
			delete(h.Headers, "x-arc-database")
		default:
			h.Path = "/api/v1/write/line-protocol?precision=us"
		}
		var sb strings.Builder
		if r.Ep == "lp2m" {
			fmt.Fprintf(&sb, "ma rid=%di %d\n", rid(i, 2), baseUS+rid(i, 2))
		}
		meas := "m"
		if r.Ep == "lpbadm" {
			// six valid measurements and one invalid NAME: whatever the map iteration order, some valid
			// measurement is visited before the invalid one with probability 6/7 per request
			for k := 0; k < 6; k++ {
				fmt.Fprintf(&sb, "ma%d rid=%di %d\n", k+1, rid(i, 2+k), baseUS+rid(i, 2+k))
			}
			meas = "bad.name"
		}
		for j := 0; j < 2; j++ {
			fmt.Fprintf(&sb, "%s rid=%di", meas, rid(i, j))
			if v, ok := lpVal(r.Typ, j); ok {
				fmt.Fprintf(&sb, ",%s=%s", colName(r.Name), v)
			}
			fmt.Fprintf(&sb, " %d\n", baseUS+rid(i, j))
		}
		body = []byte(sb.String())
	default:
		return h, fmt.Errorf("unknown endpoint %s", r.Ep)
	}
	if err != nil {
		return h, err
	}
	switch r.Codec {
	case "gzip":
		var b bytes.Buffer
		w := gzip.NewWriter(&b)
		w.Write(body)
		w.Close()
		body = b.Bytes()
		h.Headers["Content-Encoding"] = "gzip"
	case "zstd":
		enc, _ := zstd.NewWriter(nil)
		body = enc.EncodeAll(body, nil)
		enc.Close()
		h.Headers["Content-Encoding"] = "zstd"
	case "badgzip":
		body = append([]byte{0x1f, 0x8b, 0x08, 0x00}, body...)
		h.Headers["Content-Encoding"] = "gzip"
	case "badzstd":
		body = append([]byte{0x28, 0xB5, 0x2F, 0xFD, 0xff, 0xff}, body...)
		h.Headers["Content-Encoding"] = "zstd"
	}
	h.Body = body
	return h, nil
}

// ------------------------------------------------------------------ child

func childMain() {
	in := bufio.NewReaderSize(os.Stdin, 1<<20)
	out := bufio.NewWriter(os.Stdout)
	say := func(v interface{}) {
		b, _ := json.Marshal(v)
		out.Write(append(b, '\n'))
		out.Flush()
	}
	lg := zerolog.New(io.Discard)
	zerolog.SetGlobalLevel(zerolog.Disabled)
	tmpBase := os.Getenv("REQCRASH_TMP") // owned and removed by the parent (a dying child cannot clean up)
	duck, err := sql.Open("duckdb", "")
	if err != nil {
		fmt.Fprintln(os.Stderr, "duckdb:", err)
		os.Exit(3)
	}
	for {
		line, err := in.ReadString('\n')
		if err != nil {
			os.Exit(0)
		}
		var sq sequence
		if err := json.Unmarshal([]byte(line), &sq); err != nil {
			fmt.Fprintln(os.Stderr, "bad sequence:", err)
			os.Exit(3)
		}
		dir, err := os.MkdirTemp(tmpBase, "reqcrash-")
		if err != nil {
			fmt.Fprintln(os.Stderr, err)
			os.Exit(3)
		}
		backend, err := storage.NewLocalBackend(dir, lg)
		if err != nil {
			fmt.Fprintln(os.Stderr, err)
			os.Exit(3)
		}
		icfg := &config.IngestConfig{MaxBufferSize: 50000, MaxBufferAgeMS: 3600 * 1000, Compression: "snappy",
			WriteStatistics: true, DataPageVersion: "2.0", FlushWorkers: 2, FlushQueueSize: 16, ShardCount: 4, FlushTimeoutSeconds: 30}
		buf := ingest.NewArrowBuffer(icfg, backend, lg)
		srv := api.NewServer(&api.ServerConfig{Port: 0, ReadTimeout: 30 * time.Second, WriteTimeout: 30 * time.Second,
			IdleTimeout: time.Minute, ShutdownTimeout: time.Second, MaxPayloadSize: 64 << 20}, lg)
		app := srv.GetApp()
		api.NewMsgPackHandler(lg, buf, 64<<20).RegisterRoutes(app)
		api.NewLineProtocolHandler(buf, lg).RegisterRoutes(app)

		res := seqResult{ID: sq.ID}
		for i, r := range sq.Reqs {
			hr, err := build(r, i)
			if err != nil {
				fmt.Fprintln(os.Stderr, err)
				os.Exit(3)
			}
			say(map[string]interface{}{"id": sq.ID, "phase": fmt.Sprintf("request-%d", i+1)})
			rq := httptest.NewRequest("POST", hr.Path, bytes.NewReader(hr.Body))
			for k, v := range hr.Headers {
				rq.Header.Set(k, v)
			}
			resp, err := app.Test(rq, -1) // no deadline here: a hang is reported by the parent as an infrastructure failure, never as a verdict
			if err != nil {
				res.Status = append(res.Status, 0)
				res.Resp = append(res.Resp, err.Error())
				continue
			}
			rb, _ := io.ReadAll(resp.Body)
			resp.Body.Close()
			if len(rb) > 200 {
				rb = rb[:200]
			}
			res.Status = append(res.Status, resp.StatusCode)
			res.Resp = append(res.Resp, string(rb))
		}
		say(map[string]interface{}{"id": sq.ID, "phase": "flush"})
		// the background flush (periodicFlush / flush workers) is not protected by any recover():
		// running FlushAll here, on a goroutine without recover, has the same fate
		if err := buf.FlushAll(context.Background()); err != nil {
			res.FlushErr = err.Error()
		}
		say(map[string]interface{}{"id": sq.ID, "phase": "close"})
		buf.Close()
		// read back
		var files []string
		filepath.Walk(dir, func(p string, info os.FileInfo, err error) error {
			if err == nil && !info.IsDir() && strings.HasSuffix(p, ".parquet") {
				files = append(files, p)
			}
			return nil
		})
		sort.Strings(files)
		for _, f := range files {
			rel, _ := filepath.Rel(dir, f)
			parts := strings.Split(filepath.ToSlash(rel), "/")
			rs, err := duck.Query(fmt.Sprintf("SELECT * FROM read_parquet('%s')", f))
			if err != nil {
				res.ReadErr = append(res.ReadErr, rel+": "+err.Error())
				continue
			}
			cols, _ := rs.Columns()
			for rs.Next() {
				vals := make([]interface{}, len(cols))
				ptrs := make([]interface{}, len(cols))
				for k := range vals {
					ptrs[k] = &vals[k]
				}
				if err := rs.Scan(ptrs...); err != nil {
					res.ReadErr = append(res.ReadErr, rel+": "+err.Error())
					break
				}
				row := map[string]interface{}{"__db": parts[0], "__meas": parts[1]}
				for k, c := range cols {
					switch x := vals[k].(type) {
					case nil:
					case time.Time:
						row[c] = x.UnixMicro()
					case []byte:
						row[c] = string(x)
					default:
						row[c] = x
					}
				}
				res.Rows = append(res.Rows, row)
			}
			if err := rs.Err(); err != nil {
				res.ReadErr = append(res.ReadErr, rel+": "+err.Error())
			}
			rs.Close()
		}
		os.RemoveAll(dir)
		say(map[string]interface{}{"id": sq.ID, "phase": "done", "result": res})
	}
}

// ------------------------------------------------------------------ parent

type finding struct {
	Signature string      `json:"signature"`
	Witness   interface{} `json:"witness"`
}

type result struct {
	Sequences     int            `json:"sequences"`
	Requests      int            `json:"requests"`
	ChildDeaths   int            `json:"child_deaths"`
	ChildStarts   int            `json:"child_starts"`
	StatusCounts  map[string]int `json:"status_counts"`
	Nontrivial    int            `json:"distinct_nontrivial"`
	Violations    []finding      `json:"violations"`
	Drift         []finding      `json:"drift"`
	Notes         map[string]int `json:"notes"`
	NoteSamples   map[string]interface{} `json:"note_samples"`
	SigCounts     map[string]int `json:"signature_counts"`
	Samples       []interface{}  `json:"samples"`
	Infra         string         `json:"infra,omitempty"`
	AcceptedByKey map[string]int `json:"accepted_by_class"`
	Killers       []string       `json:"killer_classes"`
}

type worker struct {
	cmd    *exec.Cmd
	in     io.WriteCloser
	out    *bufio.Reader
	stderr *bytes.Buffer
}

var tmpRoot string

func startWorker() (*worker, error) {
	self, _ := os.Executable()
	c := exec.Command(self)
	c.Env = append(os.Environ(), "REQCRASH_CHILD=1", "REQCRASH_TMP="+tmpRoot)
	in, _ := c.StdinPipe()
	outp, _ := c.StdoutPipe()
	w := &worker{cmd: c, in: in, out: bufio.NewReaderSize(outp, 4<<20), stderr: &bytes.Buffer{}}
	c.Stderr = w.stderr
	if err := c.Start(); err != nil {
		return nil, err
	}
	return w, nil
}

var (
	panicRe = regexp.MustCompile(`(?m)^(panic|fatal error): (.*)$`)
	frameRe = regexp.MustCompile(`(?m)^github\.com/basekick-labs/arc/(internal/[^\s(]+(?:\(\*?[A-Za-z0-9_]+\))?[^\s(]*)\(`)
)

func classifyDeath(stderr string) (string, string) {
	msg := "unknown"
	if m := panicRe.FindStringSubmatch(stderr); m != nil {
		msg = m[2]
	}
	class := "other"
	switch {
	case strings.Contains(msg, "index out of range"):
		class = "index-out-of-range"
	case strings.Contains(msg, "interface conversion"):
		class = "interface-conversion"
	case strings.Contains(msg, "nil pointer"):
		class = "nil-dereference"
	case strings.Contains(msg, "slice bounds"):
		class = "slice-bounds"
	case strings.Contains(msg, "concurrent map"):
		class = "concurrent-map"
	}
	site := "unknown-site"
	if m := frameRe.FindStringSubmatch(stderr); m != nil {
		site = strings.TrimPrefix(m[1], "internal/")
		if k := strings.Index(site, ".func"); k > 0 {
			site = site[:k]
		}
	}
	return site + ":" + class, msg
}

func numEq(a interface{}, b interface{}) bool {
	fa, oka := toF(a)
	fb, okb := toF(b)
	if oka && okb {
		return fa == fb
	}
	return fmt.Sprint(a) == fmt.Sprint(b)
}

func toF(v interface{}) (float64, bool) {
	switch x := v.(type) {
	case float64:
		return x, true
	case int64:
		return float64(x), true
	case int:
		return float64(x), true
	case json.Number:
		f, err := x.Float64()
		return f, err == nil
	}
	return 0, false
}

func main() {
	if os.Getenv("REQCRASH_CHILD") == "1" {
		childMain()
		return
	}
	seqFile := flag.String("sequences", "", "json list of sequences")
	outp := flag.String("out", "", "result json")
	nw := flag.Int("workers", 4, "child processes")
	flag.Parse()
	b, err := os.ReadFile(*seqFile)
	if err != nil {
		fatal(err)
	}
	var seqs []sequence
	if err := json.Unmarshal(b, &seqs); err != nil {
		fatal(err)
	}
	base := ""
	if st, err := os.Stat("/dev/shm"); err == nil && st.IsDir() {
		base = "/dev/shm"
	}
	tmpRoot, err = os.MkdirTemp(base, "reqcrash-root-")
	if err != nil {
		fatal(err)
	}
	defer os.RemoveAll(tmpRoot)
	res := result{StatusCounts: map[string]int{}, Notes: map[string]int{}, NoteSamples: map[string]interface{}{}, SigCounts: map[string]int{}, AcceptedByKey: map[string]int{}}
	var mu sync.Mutex
	seenSig, seenDrift := map[string]bool{}, map[string]bool{}
	nontrivial := map[string]bool{}
	addV := func(sig string, wit interface{}) {
		res.SigCounts[sig]++
		if !seenSig[sig] {
			seenSig[sig] = true
			res.Violations = append(res.Violations, finding{sig, wit})
		}
	}
	note := func(k string, sample interface{}) {
		res.Notes[k]++
		if _, ok := res.NoteSamples[k]; !ok {
			res.NoteSamples[k] = sample
		}
	}
	work := make(chan sequence, len(seqs))
	for _, s := range seqs {
		work <- s
	}
	close(work)
	var wg sync.WaitGroup
	for k := 0; k < *nw; k++ {
		wg.Add(1)
		go func() {
			defer wg.Done()
			var w *worker
			defer func() {
				if w != nil {
					w.in.Close()
					w.cmd.Process.Kill()
					w.cmd.Wait()
				}
			}()
			for sq := range work {
				if w == nil {
					var err error
					w, err = startWorker()
					mu.Lock()
					res.ChildStarts++
					if err != nil && res.Infra == "" {
						res.Infra = "cannot start child: " + err.Error()
					}
					mu.Unlock()
					if err != nil {
						return
					}
				}
				line, _ := json.Marshal(sq)
				w.in.Write(append(line, '\n'))
				phase := "start"
				var sr *seqResult
				died := false
				for {
					type rd struct {
						l   string
						err error
					}
					ch := make(chan rd, 1)
					go func() { l, err := w.out.ReadString('\n'); ch <- rd{l, err} }()
					var r rd
					select {
					case r = <-ch:
					case <-time.After(180 * time.Second):
						mu.Lock()
						if res.Infra == "" {
							res.Infra = fmt.Sprintf("child silent for 180s in phase %s of sequence %v", phase, sq.Reqs)
						}
						mu.Unlock()
						return
					}
					if r.err != nil {
						died = true
						break
					}
					var m struct {
						Phase  string     `json:"phase"`
						Result *seqResult `json:"result"`
					}
					if err := json.Unmarshal([]byte(r.l), &m); err != nil {
						continue
					}
					phase = m.Phase
					if m.Phase == "done" {
						sr = m.Result
						break
					}
				}
				mu.Lock()
				res.Sequences++
				res.Requests += len(sq.Reqs)
				wit := func(extra map[string]interface{}) map[string]interface{} {
					o := map[string]interface{}{"sequence": sq.Reqs}
					for k, v := range extra {
						o[k] = v
					}
					return o
				}
				if died {
					w.cmd.Wait()
					st := w.stderr.String()
					code := w.cmd.ProcessState.ExitCode()
					w = nil
					res.ChildDeaths++
					if code == 3 || !(strings.Contains(st, "panic:") || strings.Contains(st, "fatal error:")) {
						if res.Infra == "" {
							res.Infra = fmt.Sprintf("child exited (%d) without a Go panic in phase %s: %s", code, phase, tail(st, 800))
						}
						mu.Unlock()
						return
					}
					site, msg := classifyDeath(st)
					ph := phase
					if strings.HasPrefix(ph, "request-") {
						ph = "request"
					}
					// the column-name classes of the sequence are part of the mechanism: the same panic site
					// reached through another kind of column is a different defect
					nset := map[string]bool{}
					for _, q := range sq.Reqs {
						nset[q.Name] = true
					}
					var names []string
					for n := range nset {
						names = append(names, n)
					}
					sort.Strings(names)
					addV("process-died:"+ph+":"+site+":cols="+strings.Join(names, "+"), wit(map[string]interface{}{"phase": phase, "panic": msg, "exit_code": code, "stack": tail(st, 2500)}))
					nontrivial[fmt.Sprint(sq.Reqs)] = true
					if len(sq.Reqs) == 1 {
						r := sq.Reqs[0]
						res.Killers = append(res.Killers, r.Ep+"/"+r.Codec+"/"+r.Name+"/"+r.Typ)
					}
					if sq.Pred != nil {
						// which accept vector? unknown after a death during flush: any vector predicting a panic explains it
						any := false
						for _, p := range sq.Pred {
							any = any || p
						}
						if !any && !seenDrift["process-death-not-predicted-by-ReqCrash.tla"] {
							seenDrift["process-death-not-predicted-by-ReqCrash.tla"] = true
							res.Drift = append(res.Drift, finding{"process-death-not-predicted-by-ReqCrash.tla", wit(map[string]interface{}{"panic": msg})})
						}
					}
					mu.Unlock()
					continue
				}
				// judge a completed sequence
				rids := map[int64]map[string]interface{}{}
				for _, row := range sr.Rows {
					if f, ok := toF(row["rid"]); ok {
						rids[int64(f)] = row
					}
				}
				if len(sr.ReadErr) > 0 {
					addV("stored-file-unreadable", wit(map[string]interface{}{"errors": sr.ReadErr}))
				}
				accVec := ""
				interesting := false
				for i, r := range sq.Reqs {
					st := sr.Status[i]
					res.StatusCounts[fmt.Sprint(st)]++
					key := r.Ep + "/" + r.Codec + "/" + r.Name + "/" + r.Typ
					ids := []int64{rid(i, 0), rid(i, 1)}
					if r.Ep == "lp2m" {
						ids = append(ids, rid(i, 2))
					}
					if r.Ep == "lpbadm" {
						for k := 0; k < 6; k++ {
							ids = append(ids, rid(i, 2+k))
						}
					}
					switch {
					case st == 0:
						accVec += "F"
						addV("request-got-no-response:"+r.Ep, wit(map[string]interface{}{"request": i + 1, "error": sr.Resp[i]}))
					case st >= 200 && st < 300:
						accVec += "T"
						res.AcceptedByKey[key]++
						if r.Name != "plain" || r.Typ == "nil" || r.Typ == "mixed" || r.Codec != "none" {
							interesting = true
						}
						for j, id := range ids {
							row, ok := rids[id]
							// "stored correctly or rejected" is stated for unusual column names and for type
							// changes of a column (inside a request or between the requests of the sequence);
							// elsewhere a 2xx whose rows are not read back is recorded, not judged (C03's subject)
							judged := r.Name == "empty" || r.Name == "underscore" || r.Name == "reserved" || r.Typ == "mixed"
							for k2, q := range sq.Reqs {
								if k2 != i && q.Name == r.Name && q.Typ != r.Typ {
									judged = true
								}
							}
							if !ok {
								switch {
								case r.Ep == "mpbatch" && len(sr.Rows) == 0:
									// decodeMapPayload logs "Failed to decode batch item" and continues: 204, nothing stored
									note("accepted-batch-with-undecodable-item-stored-nothing:"+r.Name+":"+r.Typ, wit(map[string]interface{}{"request": i + 1, "status": st}))
								case !judged:
									note("accepted-rows-not-read-back(not judged):"+r.Ep+":"+r.Name+":"+r.Typ, wit(map[string]interface{}{"request": i + 1, "rid": id, "status": st}))
								case sr.FlushErr != "":
									addV("accepted-rows-not-stored:flush-error:"+r.Ep+":"+r.Name+":"+r.Typ, wit(map[string]interface{}{"request": i + 1, "rid": id, "flush_err": sr.FlushErr}))
								default:
									addV("accepted-rows-not-stored:"+r.Ep+":"+r.Name+":"+r.Typ, wit(map[string]interface{}{"request": i + 1, "rid": id, "status": st}))
								}
								continue
							}
							if j < 2 && r.Name == "plain" && judged {
								want := val(r.Typ, j)
								if strings.HasPrefix(r.Ep, "lp") && r.Typ == "nil" {
									want = nil
									if j == 1 {
										want = int64(7)
									}
								}
								got, has := row["c"]
								if want == nil && has {
									addV("accepted-value-changed:"+r.Ep+":"+r.Typ, wit(map[string]interface{}{"request": i + 1, "rid": id, "want": nil, "got": got}))
								} else if want != nil && (!has || !numEq(want, got)) {
									addV("accepted-value-changed:"+r.Ep+":"+r.Typ, wit(map[string]interface{}{"request": i + 1, "rid": id, "want": want, "got": got}))
								}
							}
							if j < 2 && (r.Name == "underscore" || r.Name == "empty" || r.Name == "reserved") && r.Typ != "nil" {
								if _, has := row[colName(r.Name)]; !has {
									note("accepted-but-column-not-stored:"+r.Name, wit(map[string]interface{}{"request": i + 1, "row": row}))
								}
							}
						}
					default:
						accVec += "F"
						interesting = true
						for _, id := range ids {
							if row, ok := rids[id]; ok {
								sig := fmt.Sprintf("rejected-request-stored-rows:%s:%d:%s:%s", r.Ep, st, r.Name, r.Typ)
								if m, _ := row["__meas"].(string); (r.Ep == "lp2m" || r.Ep == "lpbadm") && strings.HasPrefix(m, "ma") {
									// another measurement of the same request was buffered before the request was
									// rejected; the rejection class (status + cause) is part of the mechanism
									cause := "other"
									lr := strings.ToLower(sr.Resp[i])
									switch {
									case strings.Contains(lr, "invalid measurement name"):
										cause = "invalid-measurement-name"
									case strings.Contains(lr, "convert"):
										cause = "conversion-error"
									case strings.Contains(lr, "schema churn"):
										cause = "schema-churn"
									}
									sig = fmt.Sprintf("rejected-request-stored-rows:lp-multi-measurement-partial-write:%d:%s", st, cause)
								}
								addV(sig,
									wit(map[string]interface{}{"request": i + 1, "status": st, "response": sr.Resp[i], "stored_row": row}))
								break
							}
						}
						if st >= 500 && strings.Contains(strings.ToLower(sr.Resp[i]), "panic") {
							note("handler-panic-recovered-by-middleware:"+r.Ep, wit(map[string]interface{}{"request": i + 1, "response": sr.Resp[i]}))
						}
					}
				}
				if interesting {
					nontrivial[fmt.Sprint(sq.Reqs)] = true
				}
				if sq.Pred != nil {
					if p, ok := sq.Pred[accVec]; ok && p && !seenDrift["predicted-panic-did-not-happen"] {
						seenDrift["predicted-panic-did-not-happen"] = true
						res.Drift = append(res.Drift, finding{"predicted-panic-did-not-happen", wit(map[string]interface{}{"accepted": accVec, "status": sr.Status})})
					}
				}
				if len(res.Samples) < 6 && sq.ID%997 == 5 {
					res.Samples = append(res.Samples, map[string]interface{}{"sequence": sq.Reqs, "status": sr.Status, "rows_read_back": len(sr.Rows)})
				}
				mu.Unlock()
			}
		}()
	}
	wg.Wait()
	res.Nontrivial = len(nontrivial)
	sort.Slice(res.Violations, func(i, j int) bool { return res.Violations[i].Signature < res.Violations[j].Signature })
	ob, _ := json.MarshalIndent(res, "", " ")
	if err := os.WriteFile(*outp, ob, 0o644); err != nil {
		fatal(err)
	}
}

func tail(s string, n int) string {
	if len(s) > n {
		return s[len(s)-n:]
	}
	return s
}

func fatal(err error) {
	fmt.Fprintln(os.Stderr, "reqcrash:", err)
	os.Exit(2)
}

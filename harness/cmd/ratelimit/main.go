// C28 driver: replays TLC-generated request/update schedules (specs/ratelimit/RateLimit.tla)
// against the real governance.Manager (CheckRateLimit then CheckQuota, UpdatePolicy) under the
// overlay clock and judges the property on the observed admit times: sliding-window count
// recomputed from the real admits, admits per clock hour / UTC day, quota usage across a
// rate-limited request.  The TLC prediction is only a drift detector.
//
//	ratelimit -mode probe  -out probe.json
//	ratelimit -mode replay -in replay.json -out result.json -seed N
package main

import (
	"context"
	"database/sql"
	"encoding/json"
	"flag"
	"fmt"
	"os"
	"sync"
	"sync/atomic"
	"time"

	"github.com/basekick-labs/arc/internal/config"
	"github.com/basekick-labs/arc/internal/governance"
	"github.com/basekick-labs/arc/internal/metrics"
	_ "github.com/mattn/go-sqlite3"
	"github.com/rs/zerolog"
)

var clk atomic.Int64

func fatal(f string, a ...any) {
	fmt.Fprintf(os.Stderr, "ratelimit driver: "+f+"\n", a...)
	os.Exit(3)
}

const day = int64(24 * time.Hour)

// epoch: a UTC midnight far from the wall clock
var epoch = (int64(2_000_000_000) * int64(time.Second) / day) * day

type shape struct {
	WindowNs int64 `json:"window_ns"`
	SlotNs   int64 `json:"slot_ns"`
	Ring     int   `json:"ring"`
	N        int   `json:"n"`     // window / slot
	Extra    int   `json:"extra"` // ring - n
}

type ev struct {
	Op  string `json:"op"` // req | upd
	T   int64  `json:"t"`  // model units (D per slot)
	Out string `json:"out"`
	L   int    `json:"l"`
	H   int    `json:"h"`
	D   int    `json:"d"`
}
type scenario struct {
	Pol struct{ Lim, MaxH, MaxD int } `json:"pol"`
	Ev  []ev                          `json:"ev"`
}
type family struct {
	Name string `json:"name"`
	Kind string `json:"kind"` // minute | hour : which rate limiter carries pol.lim
	D    int64  `json:"d"`    // model units per slot
	File string `json:"file"`
	// Probe: read GetTokenUsage around every request to judge "a rate-limited request consumes
	// no quota". A usage lookup runs maybeReset itself, so it is an extra operation on the
	// tracker: families replayed without it leave the tracker untouched between requests.
	Probe bool `json:"probe"`
}
type finding struct {
	Signature string         `json:"signature"`
	Witness   map[string]any `json:"witness"`
	Count     int            `json:"count"`
}
type result struct {
	ResetAtBoundary bool                `json:"reset_at_boundary"`
	Shapes          map[string]shape    `json:"shapes"`
	Scenarios       map[string]int      `json:"scenarios"`
	Requests        int                 `json:"requests"`
	Outcomes        map[string]int      `json:"outcomes"`
	Violations      map[string]*finding `json:"violations"`
	Drift           map[string]*finding `json:"drift"`
	Samples         []map[string]any    `json:"samples"`
	Concurrent      map[string]any      `json:"concurrent"`
	Infra           string              `json:"infra,omitempty"`
}

var (
	mgr     *governance.Manager
	nextTok int64 = 1000
)

func newManager() *governance.Manager {
	metrics.Init(zerolog.Nop())
	db, err := sql.Open("sqlite3", ":memory:")
	if err != nil {
		fatal("sqlite: %v", err)
	}
	db.SetMaxOpenConns(1)
	m, err := governance.NewManager(&governance.ManagerConfig{DB: db, Config: &config.GovernanceConfig{Enabled: true}, Logger: zerolog.Nop()})
	if err != nil {
		fatal("NewManager: %v", err)
	}
	return m
}

func policy(tok int64, kind string, lim, h, d int) *governance.Policy {
	p := &governance.Policy{TokenID: tok, MaxQueriesPerHour: h, MaxQueriesPerDay: d}
	if kind == "hour" {
		p.RateLimitPerHour = lim
	} else {
		p.RateLimitPerMinute = lim
	}
	return p
}

func probeShapes() map[string]shape {
	out := map[string]shape{}
	ctx := context.Background()
	clk.Store(epoch)
	for _, kind := range []string{"minute", "hour"} {
		nextTok++
		tok := nextTok
		if _, err := mgr.CreatePolicy(ctx, policy(tok, kind, 5, 0, 0)); err != nil {
			fatal("CreatePolicy: %v", err)
		}
		if r := mgr.CheckRateLimit(tok); !r.Allowed {
			fatal("first request of a token rate limited")
		}
		var s governance.VerifLimiterShape
		var ok bool
		if kind == "minute" {
			s, ok = governance.VerifMinuteLimiterShape(mgr, tok)
		} else {
			s, ok = governance.VerifHourLimiterShape(mgr, tok)
		}
		if !ok || s.Slot <= 0 {
			fatal("no %s limiter was created by CheckRateLimit", kind)
		}
		n := int(s.Window / s.Slot)
		out[kind] = shape{WindowNs: int64(s.Window), SlotNs: int64(s.Slot), Ring: s.Ring, N: n, Extra: s.Ring - n}
	}
	// the overlay clock must control the limiter: 3 admits under limit 5, jump two windows, the
	// wall clock has not moved, 5 more admits must be possible and a 6th refused
	nextTok++
	tok := nextTok
	mgr.CreatePolicy(ctx, policy(tok, "minute", 2, 0, 0))
	a := 0
	for i := 0; i < 3; i++ {
		if mgr.CheckRateLimit(tok).Allowed {
			a++
		}
	}
	clk.Store(epoch + 3*out["minute"].WindowNs)
	b := 0
	for i := 0; i < 3; i++ {
		if mgr.CheckRateLimit(tok).Allowed {
			b++
		}
	}
	if a != 2 || b != 2 {
		fatal("clock overlay does not control the limiter (admits %d then %d, expected 2 and 2)", a, b)
	}
	return out
}

// model time -> real ns offset: slot index * slot width + {0, 1ns, slot/2, slot-1ns}
func realT(t, d, slotNs int64) int64 {
	k, e := t/d, t%d
	var off int64
	switch {
	case e == 0:
		off = 0
	case e == 1:
		off = 1
	case e == d-1:
		off = slotNs - 1
	default:
		off = slotNs / 2
	}
	return k*slotNs + off
}

func record(m map[string]*finding, sig string, w func() map[string]any) {
	f := m[sig]
	if f == nil {
		f = &finding{Signature: sig, Witness: w()}
		m[sig] = f
	}
	f.Count++
}

type admit struct {
	t         int64 // ns since epoch
	lim, h, d int
	afterUpd  bool
}

func replayFamily(f family, sh shape, scs []scenario, res *result) {
	ctx := context.Background()
	hourNs, dayNs := int64(time.Hour), day
	for i, sc := range scs {
		nextTok++
		tok := nextTok
		clk.Store(epoch)
		cur := policy(tok, f.Kind, sc.Pol.Lim, sc.Pol.MaxH, sc.Pol.MaxD)
		if _, err := mgr.CreatePolicy(ctx, cur); err != nil {
			res.Infra = fmt.Sprintf("CreatePolicy: %v", err)
			return
		}
		var adm []admit
		obs := make([]string, 0, len(sc.Ev))
		updated := false
		lim, mh, md := sc.Pol.Lim, sc.Pol.MaxH, sc.Pol.MaxD
		for j, e := range sc.Ev {
			if e.Op == "upd" {
				lim, mh, md = e.L, e.H, e.D
				np := policy(tok, f.Kind, lim, mh, md)
				np.ID = cur.ID
				if _, err := mgr.UpdatePolicy(ctx, np); err != nil {
					res.Infra = fmt.Sprintf("UpdatePolicy: %v", err)
					return
				}
				cur = np
				updated = true
				obs = append(obs, "-")
				continue
			}
			rt := realT(e.T, f.D, sh.SlotNs)
			clk.Store(epoch + rt)
			w := func() map[string]any {
				return map[string]any{"family": f.Name, "limiter": f.Kind, "policy": sc.Pol, "events_model_units": sc.Ev, "observed": append([]string{}, obs...),
					"event": j, "real_offset_ns": rt, "slot_ns": sh.SlotNs, "window_ns": sh.WindowNs, "ring": sh.Ring}
			}
			var uh0, ud0 int
			trackQuota := f.Probe && (mh > 0 || md > 0)
			if trackQuota {
				u := mgr.GetTokenUsage(tok)
				uh0, ud0 = u.QueriesThisHour, u.QueriesThisDay
			}
			// the order of api/query.go:executeQuery
			out := "ok"
			if r := mgr.CheckRateLimit(tok); !r.Allowed {
				out = "rate"
				if trackQuota {
					u := mgr.GetTokenUsage(tok)
					if u.QueriesThisHour != uh0 || u.QueriesThisDay != ud0 {
						obs = append(obs, out)
						record(res.Violations, "rate-limited-request-consumed-quota", w)
						obs = obs[:len(obs)-1]
					}
				}
			} else if r := mgr.CheckQuota(tok); !r.Allowed {
				out = "quota"
			}
			obs = append(obs, out)
			res.Requests++
			res.Outcomes[out]++
			if out != e.Out {
				record(res.Drift, fmt.Sprintf("outcome differs from RateLimit.tla family=%s limiter=%s predicted=%s observed=%s", f.Name, f.Kind, e.Out, out), w)
			}
			if out != "ok" {
				continue
			}
			adm = append(adm, admit{t: rt, lim: lim, h: mh, d: md, afterUpd: updated})
			me := adm[len(adm)-1]
			// ---- the property on the real admit times
			if me.lim > 0 {
				n, first := 0, rt
				for _, a := range adm {
					if a.t > rt-sh.WindowNs {
						n++
						if a.t < first {
							first = a.t
						}
					}
				}
				if n > me.lim {
					// mechanism classes: the oldest admit of the window is more than N-1 slot
					// widths old (only a ring that covers less than a window forgets it), or not
					sig := "window-exceeded:inside-ring-coverage:" + f.Kind
					if me.afterUpd {
						sig += ":after-limit-update"
					}
					if rt-first > int64(sh.N-1)*sh.SlotNs {
						sig = "window-exceeded:ring-of-N-slots-forgets-oldest-slot-at-slot-start"
					}
					record(res.Violations, sig, w)
				}
			}
			if me.h > 0 {
				n, boundary := 0, false
				for _, a := range adm {
					if a.t/hourNs == rt/hourNs {
						n++
						if a.t%hourNs == 0 {
							boundary = true
						}
					}
				}
				if n > me.h {
					sig := "hour-quota-exceeded"
					if me.afterUpd {
						sig += ":after-limit-update"
					}
					if boundary {
						sig = "hour-quota-exceeded:request-at-exact-hour-boundary-charged-to-previous-hour"
					}
					record(res.Violations, sig, w)
				}
			}
			if me.d > 0 {
				n, boundary := 0, false
				for _, a := range adm {
					if a.t/dayNs == rt/dayNs {
						n++
						if a.t%dayNs == 0 {
							boundary = true
						}
					}
				}
				if n > me.d {
					sig := "day-quota-exceeded"
					if me.afterUpd {
						sig += ":after-limit-update"
					}
					if boundary {
						sig = "day-quota-exceeded:request-at-exact-day-boundary-charged-to-previous-day"
					}
					record(res.Violations, sig, w)
				}
			}
		}
		if len(res.Samples) < 5 && i%1777 == 5 {
			res.Samples = append(res.Samples, map[string]any{"family": f.Name, "limiter": f.Kind, "policy": sc.Pol, "events": sc.Ev, "observed": obs})
		}
	}
}

// concurrent requests at a frozen instant: the number admitted must not exceed the limits
func concurrent(res *result, seed int64) {
	ctx := context.Background()
	total, worst := 0, 0
	for round := 0; round < 40; round++ {
		nextTok++
		tok := nextTok
		lim, mh := 3+int((seed+int64(round))%5), 2+int((seed*7+int64(round))%6)
		clk.Store(epoch + int64(round)*int64(time.Hour) + 17)
		mgr.CreatePolicy(ctx, policy(tok, "minute", lim, mh, 0))
		var ok atomic.Int64
		var wg sync.WaitGroup
		for g := 0; g < 8; g++ {
			wg.Add(1)
			go func() {
				defer wg.Done()
				for k := 0; k < 50; k++ {
					if mgr.CheckRateLimit(tok).Allowed && mgr.CheckQuota(tok).Allowed {
						ok.Add(1)
					}
				}
			}()
		}
		wg.Wait()
		total += 400
		bound := lim
		if mh < bound {
			bound = mh
		}
		if int(ok.Load()) > bound {
			worst = int(ok.Load()) - bound
			record(res.Violations, "concurrent-requests-at-one-instant-exceed-limit", func() map[string]any {
				return map[string]any{"rate_limit_per_minute": lim, "max_queries_per_hour": mh, "goroutines": 8, "requests": 400, "admitted": ok.Load()}
			})
		}
	}
	res.Concurrent = map[string]any{"rounds": 40, "requests": total, "worst_excess": worst}
	res.Requests += total
}

func main() {
	mode := flag.String("mode", "probe", "")
	in := flag.String("in", "", "")
	out := flag.String("out", "", "")
	seed := flag.Int64("seed", 1, "")
	flag.Parse()
	governance.VerifNow = func() time.Time { return time.Unix(0, clk.Load()).UTC() }
	clk.Store(epoch)
	mgr = newManager()
	res := &result{Scenarios: map[string]int{}, Outcomes: map[string]int{}, Violations: map[string]*finding{}, Drift: map[string]*finding{}}
	res.Shapes = probeShapes()
	{ // does the quota tracker reset AT the boundary instant or strictly after it?
		nextTok++
		tok := nextTok
		mgr.CreatePolicy(context.Background(), policy(tok, "minute", 0, 1, 0))
		clk.Store(epoch + int64(time.Hour) - 1)
		first := mgr.CheckQuota(tok).Allowed
		clk.Store(epoch + int64(time.Hour))
		res.ResetAtBoundary = mgr.CheckQuota(tok).Allowed
		if !first {
			fatal("first request of a token refused by the quota tracker")
		}
	}
	if *mode == "replay" {
		var fams []family
		b, err := os.ReadFile(*in)
		if err != nil {
			fatal("%v", err)
		}
		if err := json.Unmarshal(b, &fams); err != nil {
			fatal("%v", err)
		}
		for _, f := range fams {
			b, err := os.ReadFile(f.File)
			if err != nil {
				fatal("%v", err)
			}
			var scs []scenario
			if err := json.Unmarshal(b, &scs); err != nil {
				fatal("%v", err)
			}
			key := f.Name + "/" + f.Kind
			if f.Probe {
				key += "/usage-probed"
			}
			res.Scenarios[key] = len(scs)
			replayFamily(f, res.Shapes[f.Kind], scs, res)
			if res.Infra != "" {
				break
			}
		}
		concurrent(res, *seed)
	}
	b, _ := json.Marshal(res)
	if err := os.WriteFile(*out, b, 0o644); err != nil {
		fatal("%v", err)
	}
}

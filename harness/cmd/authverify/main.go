// Command authverify is the C21 replay driver. Every schedule enumerated by TLC from
// specs/auth/AuthVerify.tla (kicks of one token mutator and 1-2 verifiers of the old token
// value, parked at the gates inserted by tools/overlaygen: before/after am.db.Query and before
// the cache insert in VerifyToken, before/after am.db.Exec in the mutators and their
// cluster-apply twins) is realised on a real AuthManager over a temp SQLite file, for the
// mutators revoke / delete / rotate / expire, in direct and in cluster-apply mode.
//
// Verdict: after the mutator has returned (and every thread has finished), VerifyToken(old
// value) succeeds, or a verifier started after the return succeeded. The predicted position of
// every thread after every kick (including "queued for the single pooled connection") is the
// drift detector. A kick the model predicts to block is given a grace period; when the thread
// arrives at its next gate instead (the code does not block there), it is run to completion
// first -- the verdict never depends on the grace period, only the reach does.
package main

import (
	"bytes"
	"context"
	"encoding/json"
	"flag"
	"fmt"
	"os"
	"path/filepath"
	"runtime"
	"sort"
	"strconv"
	"strings"
	"sync"
	"time"

	"github.com/basekick-labs/arc/internal/auth"
	"github.com/basekick-labs/arc/verifharness/internal/authkit"
)

type kick struct {
	Th     string `json:"th"`
	To     string `json:"to"`
	Served []struct {
		Th string `json:"th"`
		To string `json:"to"`
	} `json:"served"`
}

type schedule struct {
	Sched    []kick `json:"sched"`
	Final    string `json:"final"`
	AllKinds bool   `json:"all_kinds"` // run with every mutator kind in every mode (else one kind per mode, rotating)
}

type witness struct {
	Kind     string   `json:"mutator"`
	Mode     string   `json:"mode"`
	Schedule []string `json:"schedule"` // kicks as predicted by the model
	Observed []string `json:"observed"` // what the real threads did
	Note     string   `json:"note,omitempty"`
}

type finding struct {
	Signature string  `json:"signature"`
	Witness   witness `json:"witness"`
	Count     int     `json:"count"`
}

type result struct {
	Schedules   int            `json:"schedules"`
	Runs        int            `json:"runs"`
	Kicks       int            `json:"kicks"`
	BlockedSeen int            `json:"kicks_observed_blocked"`
	BlockedPred int            `json:"kicks_predicted_blocked"`
	PerKind     map[string]int `json:"runs_per_mutator"`
	GatesHit    map[string]int `json:"gates_hit"`
	RunKeys     []string       `json:"run_keys"`
	Violations  []finding      `json:"violations"`
	Drift       []finding      `json:"drift"`
	Samples     []witness      `json:"samples"`
	Infra       string         `json:"infra,omitempty"`
}

var gateLoc = map[string]string{"verify.beforeQuery": "G1", "verify.afterQuery": "G2", "verify.beforeInsert": "G3",
	"mut.beforeExec": "B", "mut.afterExec": "A"}

type event struct{ loc string }

type thread struct {
	name    string
	state   string // idle | parked | running | done
	loc     string
	events  chan event
	resume  chan struct{}
	fn      func()
	okRes   bool  // verifier: VerifyToken returned non-nil
	err     error // mutator
	afterM  bool  // first kick issued after the mutator had returned
	started bool
}

var (
	regMu sync.Mutex
	reg   = map[uint64]*thread{}
	hitMu sync.Mutex
	hits  = map[string]int{}
)

func goid() uint64 {
	var buf [64]byte
	n := runtime.Stack(buf[:], false)
	f := bytes.Fields(buf[:n])
	id, _ := strconv.ParseUint(string(f[1]), 10, 64)
	return id
}

func gate(name string) {
	regMu.Lock()
	th := reg[goid()]
	regMu.Unlock()
	if th == nil {
		return // final verification, set-up calls, background goroutines
	}
	hitMu.Lock()
	hits[name]++
	hitMu.Unlock()
	loc, ok := gateLoc[name]
	if !ok {
		return
	}
	th.events <- event{loc}
	<-th.resume
}

func (t *thread) release() {
	if t.state == "idle" {
		t.state = "running"
		t.started = true
		go func() {
			id := goid()
			regMu.Lock()
			reg[id] = t
			regMu.Unlock()
			t.fn()
			regMu.Lock()
			delete(reg, id)
			regMu.Unlock()
			t.events <- event{"done"}
		}()
		return
	}
	if t.state == "parked" {
		t.state = "running"
		t.resume <- struct{}{}
	}
}

func (t *thread) await(d time.Duration) bool {
	select {
	case e := <-t.events:
		t.loc = e.loc
		if e.loc == "done" {
			t.state = "done"
		} else {
			t.state = "parked"
		}
		return true
	case <-time.After(d):
		return false
	}
}

const long = 30 * time.Second

type collector struct {
	res  result
	vio  map[string]*finding
	dr   map[string]*finding
	keys map[string]bool
}

func (c *collector) add(m map[string]*finding, sig string, w witness) {
	if f, ok := m[sig]; ok {
		f.Count++
		if len(w.Schedule) < len(f.Witness.Schedule) {
			f.Witness = w
		}
		return
	}
	m[sig] = &finding{Signature: sig, Witness: w, Count: 1}
}

func runOne(c *collector, tmp string, n int, sc *schedule, kind, mode string, grace time.Duration) error {
	dir := filepath.Join(tmp, fmt.Sprintf("s%d-%s-%s", n, kind, mode))
	if err := os.MkdirAll(dir, 0o700); err != nil {
		return err
	}
	defer os.RemoveAll(dir)
	env, err := authkit.NewEnv(dir, mode, 5*time.Minute)
	if err != nil {
		return err
	}
	defer env.Close()
	am := env.AM
	old := fmt.Sprintf("verif-c21-old-token-value-0123456789abcdef-%d", n)
	id, err := env.CreateToken("victim", old, "read,write", 1, nil)
	if err != nil {
		return fmt.Errorf("create token: %w", err)
	}
	w := witness{Kind: kind, Mode: mode}
	for _, k := range sc.Sched {
		s := k.Th + "->" + k.To
		for _, sv := range k.Served {
			s += " [" + sv.Th + "->" + sv.To + "]"
		}
		w.Schedule = append(w.Schedule, s)
	}
	if sc.Sched[0].Th != "init" {
		return fmt.Errorf("schedule does not start with init")
	}
	if sc.Sched[0].To == "cached" {
		if am.VerifyToken(old) == nil {
			return fmt.Errorf("fresh token does not authenticate")
		}
	}
	bg := context.Background()
	var newValue string
	threads := map[string]*thread{}
	mk := func(name string) *thread {
		t := &thread{name: name, state: "idle", events: make(chan event, 4), resume: make(chan struct{})}
		threads[name] = t
		return t
	}
	m := mk("M")
	m.fn = func() {
		switch kind {
		case "revoke":
			m.err = am.RevokeToken(bg, id)
		case "delete":
			m.err = am.DeleteToken(bg, id)
		case "rotate":
			newValue, m.err = am.RotateToken(bg, id)
		case "expire":
			past := time.Now().Add(-time.Hour)
			m.err = am.UpdateToken(bg, id, nil, nil, nil, &past)
		default:
			m.err = fmt.Errorf("unknown mutator %s", kind)
		}
		if m.err == nil {
			if errs := env.TakeApplyErrs(); len(errs) > 0 {
				m.err = fmt.Errorf("apply callback: %v", errs)
			}
		}
	}
	for _, k := range sc.Sched[1:] {
		if k.Th != "M" && threads[k.Th] == nil {
			v := mk(k.Th)
			v.fn = func() { v.okRes = am.VerifyToken(old) != nil }
		}
	}
	obs := func(s string) { w.Observed = append(w.Observed, s) }
	drift := func(sig, note string) {
		ww := w
		ww.Note = note
		c.add(c.dr, sig, ww)
	}
	for _, k := range sc.Sched[1:] {
		t := threads[k.Th]
		c.res.Kicks++
		if t.state == "done" {
			obs(k.Th + ":already-done")
			continue
		}
		if t.state == "running" {
			if !t.await(long) {
				return fmt.Errorf("thread %s never arrived (blocked for %s)", t.name, long)
			}
		}
		if !t.started {
			t.afterM = m.state == "done"
		}
		t.release()
		if k.To == "wait" {
			c.res.BlockedPred++
			if t.await(grace) {
				obs(k.Th + "->" + t.loc + " (model: queued for the connection)")
				drift("not-blocked-where-model-blocks:"+k.Th+"->"+t.loc, "the thread was expected to queue for the single pooled connection and progressed instead; it is run to completion first")
				for t.state != "done" {
					t.release()
					if !t.await(long) {
						return fmt.Errorf("thread %s stuck after unexpected progress", t.name)
					}
					obs(k.Th + "->" + t.loc + " (greedy)")
				}
			} else {
				c.res.BlockedSeen++
				obs(k.Th + "->wait")
			}
		} else {
			if !t.await(long) {
				obs(k.Th + "->blocked (model: " + k.To + ")")
				drift("blocked-where-model-progresses:"+k.Th+"->"+k.To, "no arrival within "+long.String())
			} else {
				obs(k.Th + "->" + t.loc)
				if t.loc != k.To {
					drift("position-differs-from-AuthVerify.tla:"+k.Th+":"+k.To+"/"+t.loc, "")
				}
			}
		}
		for _, sv := range k.Served {
			s := threads[sv.Th]
			if s != nil && s.state == "running" {
				if !s.await(long) {
					return fmt.Errorf("queued thread %s was not served after %s released the connection", s.name, k.Th)
				}
				obs(sv.Th + "->" + s.loc + " (served)")
				if s.loc != sv.To {
					drift("position-differs-from-AuthVerify.tla:"+sv.Th+":"+sv.To+"/"+s.loc, "")
				}
			}
		}
	}
	// drain: everything still parked or in flight runs to its end
	deadline := time.Now().Add(2 * long)
	for {
		all := true
		for _, name := range sortedNames(threads) {
			t := threads[name]
			if !t.started {
				t.afterM = m.state == "done"
			}
			if t.state != "done" {
				all = false
				t.release()
				if t.await(2 * time.Second) {
					obs(name + "->" + t.loc + " (drain)")
				}
			}
		}
		if all {
			break
		}
		if time.Now().After(deadline) {
			return fmt.Errorf("threads did not finish: %v", w.Observed)
		}
	}
	if m.err != nil {
		return fmt.Errorf("mutator %s failed: %w", kind, m.err)
	}
	// the mutator has returned: the old value must be rejected
	before := am.GetCacheStats()["cache_hits"].(int64)
	final := am.VerifyToken(old)
	hit := am.GetCacheStats()["cache_hits"].(int64) > before
	obs(fmt.Sprintf("final VerifyToken(old) = %v (cache hit: %v)", final != nil, hit))
	if final != nil {
		via := "database-row"
		if hit {
			via = "stale-cache-entry"
		}
		c.add(c.vio, fmt.Sprintf("old-value-accepted-after-%s-returned:%s:%s", kind, mode, via), w)
	}
	for _, name := range sortedNames(threads) {
		t := threads[name]
		if name != "M" && t.afterM && t.okRes {
			c.add(c.vio, fmt.Sprintf("old-value-accepted-after-%s-returned:%s:late-verifier", kind, mode), w)
		}
	}
	if (final != nil) != (sc.Final == "ok") && final == nil {
		drift("final-verification-differs-from-AuthVerify.tla", "")
	}
	if kind == "rotate" && am.VerifyToken(newValue) == nil {
		drift("rotated-value-does-not-authenticate:"+mode, "")
	}
	c.res.Runs++
	c.res.PerKind[kind+":"+mode]++
	c.keys[fmt.Sprintf("%s|%s|%s", kind, mode, strings.Join(w.Schedule, ","))] = true
	if len(c.res.Samples) < 4 && (n+len(kind))%9 == 0 {
		c.res.Samples = append(c.res.Samples, w)
	}
	return nil
}

func sortedNames(m map[string]*thread) []string {
	var ks []string
	for k := range m {
		ks = append(ks, k)
	}
	sort.Strings(ks)
	return ks
}

// expiry fragment (specs/auth/AuthExpiry.tla): one token with an expires_at, a controlled clock
// (auth.VerifNow, substituted by source overlay) and VerifyToken calls at the clock positions
// chosen by TLC. "A token value authenticates only if it ... has not expired."
type expStep struct {
	A   string `json:"a"`
	Ok  bool   `json:"ok"`
	Hit bool   `json:"hit"`
}

type expHist struct {
	Exp   int       `json:"exp"`
	TTL   int       `json:"ttl"`
	Steps []expStep `json:"steps"`
}

const tick = 10 * time.Second

var (
	clockMu  sync.Mutex
	clockNow time.Time
)

func fakeNow() time.Time {
	clockMu.Lock()
	defer clockMu.Unlock()
	return clockNow
}

func advance(d time.Duration) {
	clockMu.Lock()
	clockNow = clockNow.Add(d)
	clockMu.Unlock()
}

func runExpiry(c *collector, tmp, mode string, hs []*expHist) error {
	if len(hs) == 0 {
		return nil
	}
	dir := filepath.Join(tmp, "expiry-"+mode)
	if err := os.MkdirAll(dir, 0o700); err != nil {
		return err
	}
	defer os.RemoveAll(dir)
	env, err := authkit.NewEnv(dir, mode, time.Duration(hs[0].TTL)*tick)
	if err != nil {
		return err
	}
	defer env.Close()
	clockMu.Lock()
	clockNow = time.Now().Truncate(time.Second)
	clockMu.Unlock()
	auth.VerifNow = fakeNow
	defer func() { auth.VerifNow = time.Now }()
	am := env.AM
	for n, h := range hs {
		val := fmt.Sprintf("verif-c21-expiry-token-value-0123456789abcdef-%d", n)
		var expAt *time.Time
		if h.Exp > 0 {
			t := fakeNow().Add(time.Duration(h.Exp) * tick)
			expAt = &t
		}
		if _, err := env.CreateToken(fmt.Sprintf("exp-%d", n), val, "read", int64(n+1), expAt); err != nil {
			return fmt.Errorf("create expiring token: %w", err)
		}
		w := witness{Kind: "expiry", Mode: mode, Schedule: []string{fmt.Sprintf("expires_at = t0+%d ticks (0 = never), cache TTL = %d ticks", h.Exp, h.TTL)}}
		at, hitsSoFar := 0, 0
		for _, st := range h.Steps {
			if st.A == "tick" {
				advance(tick)
				at++
				continue
			}
			before := am.GetCacheStats()["cache_hits"].(int64)
			ok := am.VerifyToken(val) != nil
			hit := am.GetCacheStats()["cache_hits"].(int64) > before
			w.Schedule = append(w.Schedule, fmt.Sprintf("verify@%d -> model ok=%v hit=%v", at, st.Ok, st.Hit))
			w.Observed = append(w.Observed, fmt.Sprintf("verify@%d -> ok=%v hit=%v", at, ok, hit))
			if ok && expAt != nil && fakeNow().After(*expAt) {
				sig := "expired-token-accepted:database-row"
				if hit && hitsSoFar > 0 {
					sig = "expired-token-accepted:cache-entry-extended-on-hit"
				} else if hit {
					sig = "expired-token-accepted:stale-cache-entry"
				}
				c.add(c.vio, sig, w)
			} else if ok != st.Ok || hit != st.Hit {
				c.add(c.dr, "verification-differs-from-AuthExpiry.tla", w)
			}
			if hit {
				hitsSoFar++
			}
		}
		c.res.Runs++
		c.res.PerKind["expiry:"+mode]++
		c.keys[fmt.Sprintf("expiry|%s|%d|%v", mode, h.Exp, h.Steps)] = true
		if n == 17 && len(c.res.Samples) < 6 {
			c.res.Samples = append(c.res.Samples, w)
		}
	}
	return nil
}

func main() {
	in := flag.String("schedules", "", "json: list of {sched, final}")
	outp := flag.String("out", "", "result json")
	kinds := flag.String("kinds", "revoke,delete,rotate,expire", "")
	modes := flag.String("modes", "direct,apply", "")
	grace := flag.Duration("grace", 250*time.Millisecond, "how long a kick predicted to block is given to arrive")
	expiry := flag.String("expiry", "", "json: list of {exp, ttl, steps} from AuthExpiry.tla")
	flag.Parse()
	b, err := os.ReadFile(*in)
	if err != nil {
		fatal(err)
	}
	var scs []*schedule
	if err := json.Unmarshal(b, &scs); err != nil {
		fatal(err)
	}
	base := ""
	if st, err := os.Stat("/dev/shm"); err == nil && st.IsDir() {
		base = "/dev/shm"
	}
	tmp, err := os.MkdirTemp(base, "authverify-")
	if err != nil {
		fatal(err)
	}
	defer os.RemoveAll(tmp)
	auth.VerifGate = gate
	c := &collector{vio: map[string]*finding{}, dr: map[string]*finding{}, keys: map[string]bool{}}
	c.res.PerKind = map[string]int{}
	c.res.Schedules = len(scs)
	ks := strings.Split(*kinds, ",")
	ms := strings.Split(*modes, ",")
outer:
	for n, sc := range scs {
		for ki, kind := range ks {
			for mi, mode := range ms {
				if !sc.AllKinds && (n+mi)%len(ks) != ki {
					continue
				}
				if err := runOne(c, tmp, n, sc, kind, mode, *grace); err != nil {
					c.res.Infra = fmt.Sprintf("schedule %d (%s, %s): %v", n, kind, mode, err)
					break outer
				}
			}
		}
	}
	if *expiry != "" && c.res.Infra == "" {
		eb, err := os.ReadFile(*expiry)
		if err != nil {
			fatal(err)
		}
		var ehs []*expHist
		if err := json.Unmarshal(eb, &ehs); err != nil {
			fatal(err)
		}
		for _, mode := range ms {
			if err := runExpiry(c, tmp, mode, ehs); err != nil {
				c.res.Infra = "expiry fragment: " + err.Error()
				break
			}
		}
	}
	flat := func(m map[string]*finding) []finding {
		var ks []string
		for k := range m {
			ks = append(ks, k)
		}
		sort.Strings(ks)
		var out []finding
		for _, k := range ks {
			out = append(out, *m[k])
		}
		return out
	}
	c.res.Violations = flat(c.vio)
	c.res.Drift = flat(c.dr)
	c.res.GatesHit = hits
	for k := range c.keys {
		c.res.RunKeys = append(c.res.RunKeys, k)
	}
	sort.Strings(c.res.RunKeys)
	ob, _ := json.MarshalIndent(c.res, "", " ")
	if err := os.WriteFile(*outp, ob, 0o644); err != nil {
		fatal(err)
	}
}

func fatal(err error) {
	fmt.Fprintln(os.Stderr, "authverify:", err)
	os.Exit(2)
}

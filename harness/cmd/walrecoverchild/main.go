// Command walrecoverchild is the crash-able child process of the C05 check (WAL crash recovery).
// It composes the ingest stack the way cmd/arc/main.go does -- wal.NewWriter, ingest.NewArrowBuffer
// + SetWAL, then RecoverWithOptions{SkipActiveFile} with the callbacks createWALRecoveryCallback /
// createColumnarRecoveryCallback -- registers the real msgpack and line-protocol HTTP handlers on a
// fiber app, and then obeys one-line JSON commands on stdin. The parent kills it with SIGKILL at
// the scripted point. Recovery-phase crash points are reached by gating the wrapped callbacks (the
// child announces the gate and waits for "go").
//
// The two callbacks live in package main of cmd/arc. Linking cmd/arc costs 1.5-2.7 s of package
// initialisation per process start (iceberg-go), too slow for hundreds of kill/restart cycles, so
// they are bound like this: at check time harness/internal/walrecoverextract copies the two
// function declarations verbatim (go/ast) from the CURRENT cmd/arc/main.go into a generated file
// of the overlay-only package internal/verifwalcb. An edit to the callbacks is therefore what
// gets compiled; if they stop being self-contained the build fails (infrastructure failure, not a
// verdict).
package main

import (
	"bufio"
	"bytes"
	"context"
	"database/sql"
	"encoding/base64"
	"encoding/json"
	"fmt"
	"io"
	"net/http/httptest"
	"os"
	"path/filepath"
	"sort"
	"strings"
	"sync"
	"time"

	"github.com/basekick-labs/arc/internal/api"
	"github.com/basekick-labs/arc/internal/config"
	"github.com/basekick-labs/arc/internal/ingest"
	"github.com/basekick-labs/arc/internal/storage"
	"github.com/basekick-labs/arc/internal/verifwalcb"
	"github.com/basekick-labs/arc/internal/wal"
	_ "github.com/duckdb/duckdb-go/v2"
	"github.com/gofiber/fiber/v2"
	"github.com/rs/zerolog"
)

func main() {
	base := os.Getenv("ARC_VERIF_DIR")
	if base == "" {
		fmt.Fprintln(os.Stderr, "ARC_VERIF_DIR not set")
		os.Exit(3)
	}
	switch os.Getenv("ARC_VERIF_ROLE") {
	case "config":
		c := verifWALConfig()
		b, _ := json.Marshal(map[string]interface{}{"recovery_batch_size": c.RecoveryBatchSize, "sync_mode": c.SyncMode})
		os.Stdout.Write(append(b, '\n'))
	case "dump":
		verifDump(base, os.Stdout)
	case "dumpserver":
		// one directory per stdin line -> one JSON line (saves a process start per snapshot)
		in := bufio.NewReader(os.Stdin)
		for {
			l, err := in.ReadString('\n')
			if err != nil {
				os.Exit(0)
			}
			verifDump(strings.TrimSpace(l), os.Stdout)
		}
	default:
		verifServe(base)
	}
	os.Exit(0)
}

type verifIO struct {
	in  *bufio.Reader
	out *bufio.Writer
	mu  sync.Mutex
}

func (v *verifIO) say(m map[string]interface{}) {
	v.mu.Lock()
	defer v.mu.Unlock()
	b, _ := json.Marshal(m)
	v.out.Write(b)
	v.out.WriteByte('\n')
	v.out.Flush()
}

func (v *verifIO) readLine() string {
	s, err := v.in.ReadString('\n')
	if err != nil {
		// parent went away: nothing left to do
		os.Exit(4)
	}
	return strings.TrimSpace(s)
}

// gate announces a blocking point and waits for the parent's "go".
// The parent answers "go", or (only at cb-before) "fail": the wrapped callback then returns an
// injected transient error without calling the real callback.
func (v *verifIO) gate(ev string, n int, ids []interface{}) string {
	var first interface{}
	if len(ids) > 0 {
		first = ids[0]
	}
	v.say(map[string]interface{}{"ev": ev, "n": n, "first": first, "count": len(ids)})
	for {
		if l := v.readLine(); l == "go" || l == "fail" {
			return l
		}
	}
}

// verifWALProxy sits between the ArrowBuffer and the real wal.Writer (through the
// ingest.WALWriter interface) and holds every append until the parent says "persist":
// the acknowledged-but-not-yet-in-the-file window of the asynchronous writer, made explicit.
type verifWALProxy struct {
	w    *wal.Writer
	mu   sync.Mutex
	req  int // sequence number of the HTTP request being served
	held []verifHeld

	// pass-through mode ("wu" step): the writer mutex is held (VerifWRLock) so the writer goroutine cannot
	// persist; appends go straight to the real writer WITHOUT copying, and the caller's slices are remembered
	// so that they can be overwritten the way a recycled fasthttp request buffer would be
	locked   bool
	lockReq  int // only the appends of this request pass through; later requests are held as usual
	base     int64 // total_entries when the mutex was taken
	through  int
	callerBB [][]byte
}

type verifHeld struct {
	req int
	f   func() error
}

func (p *verifWALProxy) hold(f func() error) error {
	p.mu.Lock()
	p.held = append(p.held, verifHeld{p.req, f})
	p.mu.Unlock()
	return nil
}

func (p *verifWALProxy) Append(records []map[string]interface{}) error {
	if p.locked && p.req == p.lockReq {
		p.through++
		return p.w.Append(records)
	}
	return p.hold(func() error { return p.w.Append(records) })
}

func (p *verifWALProxy) AppendRaw(payload []byte) error {
	if p.locked && p.req == p.lockReq {
		p.through++
		p.callerBB = append(p.callerBB, payload)
		return p.w.AppendRaw(payload)
	}
	cp := append([]byte(nil), payload...) // the caller's slice is the fasthttp body buffer
	return p.hold(func() error { return p.w.AppendRaw(cp) })
}

func (p *verifWALProxy) AppendRawWithMeta(database string, payload []byte) error {
	if p.locked && p.req == p.lockReq {
		p.through++
		p.callerBB = append(p.callerBB, payload)
		return p.w.AppendRawWithMeta(database, payload)
	}
	cp := append([]byte(nil), payload...)
	db := strings.Clone(database)
	return p.hold(func() error { return p.w.AppendRawWithMeta(db, cp) })
}

func (p *verifWALProxy) Stats() map[string]interface{} { return p.w.Stats() }
func (p *verifWALProxy) Close() error                  { return p.w.Close() }

func verifTotalEntries(w *wal.Writer) int64 {
	if v, ok := w.Stats()["total_entries"].(int64); ok {
		return v
	}
	return -1
}

// releaseOne forwards the appends of the oldest request that still has held appends (an array
// request makes one append per item) to the real writer and waits until the writer goroutine
// has written them to the file.
func (p *verifWALProxy) releaseOne() (int, error) {
	if p.locked {
		// the queued entries of the pass-through request: let the writer goroutine run
		n := p.through
		p.locked, p.through, p.callerBB = false, 0, nil
		base := p.base
		p.w.VerifWRUnlock()
		deadline := time.Now().Add(60 * time.Second)
		for verifTotalEntries(p.w) < base+int64(n) {
			if time.Now().After(deadline) {
				return n, fmt.Errorf("wal writer did not write the queued entries within 60s")
			}
			time.Sleep(200 * time.Microsecond)
		}
		return n, nil
	}
	p.mu.Lock()
	if len(p.held) == 0 {
		p.mu.Unlock()
		return 0, nil
	}
	req := p.held[0].req
	var fs []func() error
	for len(p.held) > 0 && p.held[0].req == req {
		fs = append(fs, p.held[0].f)
		p.held = p.held[1:]
	}
	p.mu.Unlock()
	before := verifTotalEntries(p.w)
	for _, f := range fs {
		if err := f(); err != nil {
			return len(fs), err
		}
	}
	deadline := time.Now().Add(60 * time.Second)
	for verifTotalEntries(p.w) < before+int64(len(fs)) {
		if time.Now().After(deadline) {
			return len(fs), fmt.Errorf("wal writer did not write the entries within 60s")
		}
		time.Sleep(200 * time.Microsecond)
	}
	return len(fs), nil
}

// verifWALConfig returns the WAL settings exactly as arc resolves them (config.Load: defaults, no
// arc.toml in the scenario directory), so that recovery runs with the real wal.recovery_batch_size.
func verifWALConfig() config.WALConfig {
	cfg, err := config.Load()
	if err != nil || cfg == nil {
		fmt.Fprintln(os.Stderr, "config.Load failed:", err)
		os.Exit(3)
	}
	return cfg.WAL
}

func verifServe(base string) {
	wcfg := verifWALConfig()
	vio := &verifIO{in: bufio.NewReaderSize(os.Stdin, 1<<20), out: bufio.NewWriter(os.Stdout)}
	lg := zerolog.New(os.Stderr).Level(zerolog.WarnLevel)
	zerolog.SetGlobalLevel(zerolog.WarnLevel)

	walDir := filepath.Join(base, "wal")
	backend, err := storage.NewLocalBackend(filepath.Join(base, "data"), lg)
	if err != nil {
		vio.say(map[string]interface{}{"ev": "fatal", "err": err.Error()})
		os.Exit(3)
	}

	// --- as in main(): writer first, then the buffer, then recovery ---
	walWriter, err := wal.NewWriter(&wal.WriterConfig{
		WALDir:       walDir,
		SyncMode:     wal.SyncMode(wcfg.SyncMode),
		MaxSizeBytes: int64(wcfg.MaxSizeMB) * 1024 * 1024,
		MaxAge:       time.Duration(wcfg.MaxAgeSeconds) * time.Second,
		BufferSize:   wcfg.BufferSize,
		Logger:       lg,
	})
	if err != nil {
		vio.say(map[string]interface{}{"ev": "fatal", "err": err.Error()})
		os.Exit(3)
	}
	walRecovery := wal.NewRecovery(walDir, lg)

	icfg := &config.IngestConfig{
		MaxBufferSize:       10000000, // no size-triggered flush either (a 65 600-row request is one of the classes)
		MaxBufferAgeMS:      3600 * 1000, // no age-based flush: flushes happen only when scripted
		Compression:         "snappy",
		UseDictionary:       false,
		WriteStatistics:     true,
		DataPageVersion:     "2.0",
		FlushWorkers:        2,
		FlushQueueSize:      100,
		ShardCount:          32,
		FlushTimeoutSeconds: 30,
	}
	arrowBuffer := ingest.NewArrowBuffer(icfg, backend, lg)
	proxy := &verifWALProxy{w: walWriter}
	arrowBuffer.SetWAL(proxy)

	recoveryCallback := verifwalcb.RowCallback(arrowBuffer, lg)
	columnarCallback := verifwalcb.ColumnarCallback(arrowBuffer, lg)
	var cbN int
	var cbErrs []string
	wrappedRow := func(ctx context.Context, records []map[string]interface{}) error {
		cbN++
		n := cbN
		var ids []interface{}
		for _, r := range records {
			ids = append(ids, r["v"])
		}
		if vio.gate("cb-before", n, ids) == "fail" {
			return fmt.Errorf("verif: injected transient replay failure")
		}
		err := recoveryCallback(ctx, records)
		if err != nil {
			cbErrs = append(cbErrs, err.Error())
		}
		vio.gate("cb-after", n, ids)
		return err
	}
	wrappedCol := func(ctx context.Context, database, measurement string, columns map[string][]interface{}) error {
		cbN++
		n := cbN
		ids := append([]interface{}(nil), columns["v"]...)
		if vio.gate("cb-before", n, ids) == "fail" {
			return fmt.Errorf("verif: injected transient replay failure")
		}
		err := columnarCallback(ctx, database, measurement, columns)
		if err != nil {
			cbErrs = append(cbErrs, err.Error())
		}
		vio.gate("cb-after", n, ids)
		return err
	}
	startupActiveFile := walWriter.CurrentFile()
	stats, rerr := walRecovery.RecoverWithOptions(context.Background(), wrappedRow, &wal.RecoveryOptions{
		SkipActiveFile:   startupActiveFile,
		BatchSize:        wcfg.RecoveryBatchSize,
		ColumnarCallback: wrappedCol,
	})
	rec := map[string]interface{}{"ev": "recovered", "callbacks": cbN, "cb_errors": cbErrs}
	if rerr != nil {
		rec["err"] = rerr.Error()
	} else if stats != nil {
		rec["files"] = stats.RecoveredFiles
		rec["entries"] = stats.RecoveredEntries
		rec["corrupted"] = stats.CorruptedEntries
		rec["skipped"] = stats.SkippedFiles
	}
	vio.say(rec)

	// --- the real HTTP handlers ---
	app := fiber.New(fiber.Config{DisableStartupMessage: true, BodyLimit: 64 << 20})
	api.NewMsgPackHandler(lg, arrowBuffer, 64<<20).RegisterRoutes(app)
	api.NewLineProtocolHandler(arrowBuffer, lg).RegisterRoutes(app)

	for {
		line := vio.readLine()
		if line == "" {
			continue
		}
		var cmd struct {
			Op      string            `json:"op"`
			Path    string            `json:"path"`
			Headers map[string]string `json:"headers"`
			Body    string            `json:"body_b64"`
			Lock    bool              `json:"lock"`
		}
		if err := json.Unmarshal([]byte(line), &cmd); err != nil {
			vio.say(map[string]interface{}{"ev": "error", "err": "bad command: " + err.Error()})
			continue
		}
		switch cmd.Op {
		case "write":
			body, _ := base64.StdEncoding.DecodeString(cmd.Body)
			proxy.mu.Lock()
			proxy.req++
			proxy.mu.Unlock()
			if cmd.Lock && !proxy.locked {
				proxy.base = verifTotalEntries(walWriter)
				walWriter.VerifWRLock()
				proxy.locked = true
				proxy.lockReq = proxy.req
			}
			req := httptest.NewRequest("POST", cmd.Path, bytes.NewReader(body))
			for k, v := range cmd.Headers {
				req.Header.Set(k, v)
			}
			resp, err := app.Test(req, -1)
			if err != nil {
				vio.say(map[string]interface{}{"ev": "written", "status": 0, "err": err.Error()})
				continue
			}
			rb, _ := io.ReadAll(resp.Body)
			resp.Body.Close()
			proxy.mu.Lock()
			held := len(proxy.held)
			proxy.mu.Unlock()
			vio.say(map[string]interface{}{"ev": "written", "status": resp.StatusCode, "resp": string(rb), "held": held})
		case "reuse":
			// the request buffer is recycled: overwrite what the handler passed to the WAL writer
			n := 0
			for _, b := range proxy.callerBB {
				for i := range b {
					b[i] = 0xAA
				}
				n += len(b)
			}
			vio.say(map[string]interface{}{"ev": "reused", "bytes": n, "appends": proxy.through})
		case "persist":
			n, err := proxy.releaseOne()
			m := map[string]interface{}{"ev": "persisted", "released": n > 0, "appends": n, "entries": verifTotalEntries(walWriter)}
			if err != nil {
				m["err"] = err.Error()
			}
			vio.say(m)
		case "flush":
			err := arrowBuffer.FlushAll(context.Background())
			m := map[string]interface{}{"ev": "flushed"}
			if err != nil {
				m["err"] = err.Error()
			}
			vio.say(m)
		case "exit":
			vio.say(map[string]interface{}{"ev": "bye"})
			os.Exit(0)
		default:
			vio.say(map[string]interface{}{"ev": "error", "err": "unknown op " + cmd.Op})
		}
	}
}

// verifDump prints what is durable under the base directory: every Parquet row (database and
// measurement taken from the storage key) and the row ids (column "v") found in the WAL files.
func verifDump(base string, w io.Writer) {
	out := map[string]interface{}{}
	root := filepath.Join(base, "data")
	var files []string
	filepath.Walk(root, func(p string, info os.FileInfo, err error) error {
		if err == nil && !info.IsDir() && strings.HasSuffix(p, ".parquet") {
			files = append(files, p)
		}
		return nil
	})
	sort.Strings(files)
	rows := []map[string]interface{}{}
	var errs []string
	if len(files) > 0 {
		db, err := sql.Open("duckdb", "")
		if err != nil {
			fmt.Fprintln(os.Stderr, "duckdb:", err)
			os.Exit(3)
		}
		defer db.Close()
		for _, f := range files {
			rel, _ := filepath.Rel(root, f)
			parts := strings.Split(filepath.ToSlash(rel), "/")
			if len(parts) < 3 {
				errs = append(errs, "unexpected storage key "+rel)
				continue
			}
			q := fmt.Sprintf("SELECT * FROM read_parquet('%s')", strings.ReplaceAll(f, "'", "''"))
			rs, err := db.Query(q)
			if err != nil {
				errs = append(errs, rel+": "+err.Error())
				continue
			}
			cols, _ := rs.Columns()
			for rs.Next() {
				vals := make([]interface{}, len(cols))
				ptrs := make([]interface{}, len(cols))
				for i := range vals {
					ptrs[i] = &vals[i]
				}
				if err := rs.Scan(ptrs...); err != nil {
					errs = append(errs, rel+": scan: "+err.Error())
					break
				}
				cm := map[string]interface{}{}
				for i, c := range cols {
					switch x := vals[i].(type) {
					case nil:
						// a NULL is the same as an absent column for the comparison
					case time.Time:
						cm[c] = map[string]interface{}{"us": x.UnixMicro()}
					case []byte:
						cm[c] = string(x)
					default:
						cm[c] = x
					}
				}
				rows = append(rows, map[string]interface{}{"db": parts[0], "meas": parts[1], "file": rel, "cols": cm})
			}
			if err := rs.Err(); err != nil {
				errs = append(errs, rel+": "+err.Error())
			}
			rs.Close()
		}
	}
	out["rows"] = rows
	out["parquet_files"] = len(files)

	// WAL contents: ids per file
	walFiles, _ := filepath.Glob(filepath.Join(base, "wal", "*.wal"))
	sort.Strings(walFiles)
	wl := []map[string]interface{}{}
	for _, wf := range walFiles {
		r := wal.NewReader(wf, zerolog.Nop())
		es, err := r.ReadAll()
		ids := []interface{}{}
		for _, e := range es {
			for _, rec := range e.Records {
				ids = append(ids, rec["v"])
			}
			if e.ColumnarData != nil {
				ids = append(ids, e.ColumnarData.Columns["v"]...)
			}
		}
		st, _ := os.Stat(wf)
		m := map[string]interface{}{"file": filepath.Base(wf), "ids": ids, "entries": len(es), "corrupted": r.CorruptedEntries}
		if st != nil {
			m["size"] = st.Size()
		}
		if err != nil {
			m["err"] = err.Error()
		}
		wl = append(wl, m)
	}
	out["wal"] = wl
	out["errors"] = errs
	b, _ := json.Marshal(out)
	w.Write(append(b, '\n'))
}

// Command lineproto is the C01 replay driver. Every point enumerated by TLC from
// specs/lineproto/LineProto.tla (rendered character-class string + the denotation the
// InfluxDB escaping rules give it) is concretised to bytes and fed to
//
//	(P) the real LineProtocolParser.ParseBatchWithPrecision (single line, then in batches with
//	    comment/blank lines), and
//	(E) the real write path  parser -> BatchToColumnar -> ArrowBuffer.WriteColumnarRecord ->
//	    FlushAll -> Parquet, read back with arrow-go's reader,
//
// and the observed records / stored rows are compared with the denotation. Only lines the
// specification marks strict produce verdicts; the others are tallied as observations.
package main

import (
	"context"
	"encoding/json"
	"flag"
	"fmt"
	"io"
	"math/rand"
	"net/http/httptest"
	"os"
	"regexp"
	"sort"
	"strconv"
	"strings"
	"time"

	"github.com/basekick-labs/arc/internal/api"
	"github.com/basekick-labs/arc/internal/config"
	"github.com/basekick-labs/arc/internal/ingest"
	"github.com/basekick-labs/arc/pkg/models"
	store "github.com/basekick-labs/arc/verifharness/internal/lineprotostore"
	"github.com/gofiber/fiber/v2"
	"github.com/rs/zerolog"
)

type tok struct {
	C string `json:"c"`
	T string `json:"t"`
}
type atom struct {
	M string `json:"m"`
	C string `json:"c"`
}
type focus struct {
	Sec   string `json:"sec"`
	I     int    `json:"i"`
	Atoms []atom `json:"atoms"`
}
type tsT struct {
	Prec    string `json:"prec"`
	Neg     bool   `json:"neg"`
	Digits  []int  `json:"digits"`
	Present bool   `json:"present"`
}
type microsT struct {
	Neg    bool  `json:"neg"`
	Digits []int `json:"digits"`
}
type fieldDen struct {
	K    []tok  `json:"k"`
	V    []tok  `json:"v"`
	Kind string `json:"kind"`
}
type tagDen struct {
	K []tok `json:"k"`
	V []tok `json:"v"`
}
type denT struct {
	HasTs  bool       `json:"hasTs"`
	Meas   []tok      `json:"meas"`
	Tags   []tagDen   `json:"tags"`
	Fields []fieldDen `json:"fields"`
}
type scen struct {
	Fam    string  `json:"fam"`
	Req    int     `json:"req"`
	Copy   int     `json:"copy"`
	Strict bool    `json:"strict"`
	Weak   bool    `json:"weak"`
	Foci   []focus `json:"foci"`
	Mt     []tok   `json:"mt"`
	Fs     []tok   `json:"fs"`
	Ts     tsT     `json:"ts"`
	Micros microsT `json:"micros"`
	Den    denT    `json:"den"`
}

// expected point in concrete form
type point struct {
	Meas   string
	Tags   map[string]string
	Fields map[string]interface{}
	HasTs  bool
	Micros int64
}

type witness struct {
	Line      string      `json:"line"`
	Precision string      `json:"precision"`
	Family    string      `json:"family"`
	Foci      []focus     `json:"foci,omitempty"`
	Expected  interface{} `json:"expected"`
	Got       interface{} `json:"got"`
	Stage     string      `json:"stage"`
	Note      string      `json:"note,omitempty"`
}
type finding struct {
	Signature string  `json:"signature"`
	Witness   witness `json:"witness"`
	Count     int     `json:"count"`
}
type result struct {
	Lines         int            `json:"lines"`
	StrictLines   int            `json:"strict_lines"`
	ParserChecks  int            `json:"parser_checks"`
	WeakChecks    int            `json:"doubled_backslash_checks"`
	Batches       int            `json:"batches"`
	E2ELines      int            `json:"e2e_lines"`
	E2EBatches    int            `json:"e2e_batches"`
	E2EFiles      int            `json:"e2e_parquet_files"`
	SeqRequests   int            `json:"sequence_requests"`
	PerFamily     map[string]int `json:"per_family"`
	PerSection    map[string]int `json:"per_focus_section"`
	Lenient       map[string]int `json:"lenient_observations"`
	Violations    []*finding     `json:"violations"`
	Samples       []witness      `json:"samples"`
	Infra         string         `json:"infra,omitempty"`
	DistinctLines int            `json:"distinct_lines"`
}

var pool = []string{"a", "b", "c", "d", "e", "g", "h", "k", "n", "r", "t", "u", "i", "f", "z", "A", "B", "Q", "T", "F", "Z",
	"0", "1", "7", "9", "-", "_", ".", ":", ";", "/", "!", "@", "$", "%", "^", "&", "*", "(", ")", "[", "]", "{", "}",
	"<", ">", "|", "~", "'", "?", "+", "`", "é", "ß", "日", "\U0001F600", "Ω"}

func digitsToInt(neg bool, d []int) (int64, error) {
	var sb strings.Builder
	if neg {
		sb.WriteByte('-')
	}
	for _, x := range d {
		sb.WriteByte(byte('0' + x))
	}
	return strconv.ParseInt(sb.String(), 10, 64)
}

func digitsText(neg bool, d []int) string {
	var sb strings.Builder
	if neg {
		sb.WriteByte('-')
	}
	for _, x := range d {
		sb.WriteByte(byte('0' + x))
	}
	return sb.String()
}

type concretiser struct {
	sym map[string]string
	rng *rand.Rand
	ts  string
}

func (c *concretiser) symbol(s string) string {
	if v, ok := c.sym[s]; ok {
		return v
	}
	for {
		n := 1 + c.rng.Intn(3)
		if strings.HasPrefix(s, "x") || strings.HasPrefix(s, "y") {
			n = 1 + c.rng.Intn(2)
		}
		var sb strings.Builder
		for k := 0; k < n; k++ {
			sb.WriteString(pool[c.rng.Intn(len(pool))])
		}
		v := sb.String()
		dup := v == "time" || v == "zid"
		for _, o := range c.sym {
			if o == v {
				dup = true
			}
		}
		if !dup {
			c.sym[s] = v
			return v
		}
	}
}

func (c *concretiser) raw(ts []tok) string {
	var sb strings.Builder
	for _, t := range ts {
		switch t.C {
		case "p":
			sb.WriteString(c.symbol(t.T))
		case "int":
			sb.WriteString(t.T + "i")
		case "uint":
			sb.WriteString(t.T + "u")
		case "tsint":
			sb.WriteString(c.ts)
		default:
			sb.WriteString(t.T)
		}
	}
	return sb.String()
}

func (c *concretiser) text(ts []tok) string {
	var sb strings.Builder
	for _, t := range ts {
		if t.C == "p" {
			sb.WriteString(c.symbol(t.T))
		} else {
			sb.WriteString(t.T)
		}
	}
	return sb.String()
}

func (c *concretiser) value(f fieldDen) (interface{}, error) {
	switch f.Kind {
	case "string":
		return c.text(f.V), nil
	case "float":
		return strconv.ParseFloat(f.V[0].T, 64)
	case "int":
		return strconv.ParseInt(f.V[0].T, 10, 64)
	case "uint":
		return strconv.ParseUint(f.V[0].T, 10, 64)
	case "bool":
		return f.V[0].T[0] == 't' || f.V[0].T[0] == 'T', nil
	}
	return nil, fmt.Errorf("unknown kind %s", f.Kind)
}

type concrete struct {
	sc     *scen
	line   string // without extra id field
	mt, fs string
	tsText string
	exp    point
	alt    point // weak lines: the reading in which a doubled backslash stays two characters
}

// reserved column names are outside the property: time, the driver's own id field, and the
// underscore namespace (InfluxDB reserves names that begin with '_'; arc drops such columns as
// "internal" when it builds the Parquet schema -- recorded in docs/asbuilt/C01.md).
func reserved(k string) bool {
	return k == "time" || k == "zid" || strings.HasPrefix(k, "_")
}

var validMeas = regexp.MustCompile(`^[a-zA-Z][a-zA-Z0-9_-]*$`)

// build concretises a scenario; measurement != "" forces the canonical measurement symbol.
func build(sc *scen, rng *rand.Rand, measurement string) (*concrete, error) {
	if measurement == "" {
		return buildPreset(sc, rng, nil)
	}
	return buildPreset(sc, rng, map[string]string{"M": measurement})
}

// buildPreset concretises a scenario with some symbols fixed (measurement, canonical keys).
func buildPreset(sc *scen, rng *rand.Rand, preset map[string]string) (*concrete, error) {
	for attempt := 0; attempt < 50; attempt++ {
		c := &concretiser{sym: map[string]string{}, rng: rng}
		for k, v := range preset {
			c.sym[k] = v
		}
		if sc.Ts.Present {
			c.ts = digitsText(sc.Ts.Neg, sc.Ts.Digits)
		}
		out := &concrete{sc: sc, tsText: c.ts}
		out.mt = c.raw(sc.Mt)
		out.fs = c.raw(sc.Fs)
		out.line = out.mt + " " + out.fs
		if sc.Ts.Present {
			out.line += " " + c.ts
		}
		exp := point{Meas: c.text(sc.Den.Meas), Tags: map[string]string{}, Fields: map[string]interface{}{}, HasTs: sc.Den.HasTs}
		ok := true
		keys := map[string]bool{}
		for _, t := range sc.Den.Tags {
			k := c.text(t.K)
			if keys[k] || reserved(k) {
				ok = false
			}
			keys[k] = true
			exp.Tags[k] = c.text(t.V)
		}
		for _, f := range sc.Den.Fields {
			k := c.text(f.K)
			if keys[k] || reserved(k) {
				ok = false
			}
			keys[k] = true
			v, err := c.value(f)
			if err != nil {
				return nil, err
			}
			exp.Fields[k] = v
		}
		if strings.HasPrefix(out.line, "#") || strings.TrimSpace(out.line) != out.line {
			ok = false
		}
		if !ok {
			continue
		}
		if sc.Den.HasTs {
			m, err := digitsToInt(sc.Micros.Neg, sc.Micros.Digits)
			if err != nil {
				return nil, fmt.Errorf("micros not int64: %v", err)
			}
			exp.Micros = m
		}
		out.exp = exp
		if sc.Weak {
			out.alt = altPoint(sc, c, exp)
		}
		return out, nil
	}
	return nil, fmt.Errorf("could not concretise with distinct keys")
}

// altText writes the atoms of a focused section keeping every doubled backslash as two characters.
func altText(f focus, which int, c *concretiser) string {
	var sb strings.Builder
	pfx := "x"
	if which == 1 {
		pfx = "y"
	}
	cls := map[string]string{"c": ",", "s": " ", "e": "=", "q": "\"", "b": "\\"}
	for n, a := range f.Atoms {
		t := cls[a.C]
		if a.C == "p" {
			t = c.symbol(fmt.Sprintf("%s%d", pfx, n+1))
		}
		switch a.M {
		case "keep":
			sb.WriteString("\\" + t)
		case "dbl":
			sb.WriteString("\\\\")
		default:
			sb.WriteString(t)
		}
	}
	return sb.String()
}

// altPoint: the expected point under the other reading of `\\` in names (no collapse).
func altPoint(sc *scen, c *concretiser, exp point) point {
	alt := point{Meas: exp.Meas, Tags: map[string]string{}, Fields: map[string]interface{}{}, HasTs: exp.HasTs, Micros: exp.Micros}
	over := map[string]string{}
	for k, f := range sc.Foci {
		over[fmt.Sprintf("%s/%d", f.Sec, f.I)] = altText(f, k, c)
	}
	if v, ok := over["meas/0"]; ok {
		alt.Meas = v
	}
	for i, t := range sc.Den.Tags {
		k, v := c.text(t.K), c.text(t.V)
		if o, ok := over[fmt.Sprintf("tagkey/%d", i+1)]; ok {
			k = o
		}
		if o, ok := over[fmt.Sprintf("tagval/%d", i+1)]; ok {
			v = o
		}
		alt.Tags[k] = v
	}
	for j, f := range sc.Den.Fields {
		k := c.text(f.K)
		if o, ok := over[fmt.Sprintf("fieldkey/%d", j+1)]; ok {
			k = o
		}
		v, _ := c.value(f)
		alt.Fields[k] = v
	}
	return alt
}

func recView(r *models.Record) map[string]interface{} {
	f := map[string]interface{}{}
	for k, v := range r.Fields {
		f[k] = fmt.Sprintf("%T:%v", v, v)
	}
	return map[string]interface{}{"measurement": r.Measurement, "tags": r.Tags, "fields": f, "timestamp": r.Timestamp}
}

func expView(p point) map[string]interface{} {
	f := map[string]interface{}{}
	for k, v := range p.Fields {
		f[k] = fmt.Sprintf("%T:%v", v, v)
	}
	m := map[string]interface{}{"measurement": p.Meas, "tags": p.Tags, "fields": f}
	if p.HasTs {
		m["timestamp"] = p.Micros
	} else {
		m["timestamp"] = "server time"
	}
	return m
}

// comparePoint returns "" when the record is exactly the expected point, else the component that differs.
func comparePoint(r *models.Record, p point, t0, t1 int64) string {
	if r.Measurement != p.Meas {
		return "measurement"
	}
	if len(r.Tags) != len(p.Tags) {
		return "tags"
	}
	for k, v := range p.Tags {
		if g, ok := r.Tags[k]; !ok || g != v {
			return "tags"
		}
	}
	if len(r.Fields) != len(p.Fields) {
		return "fields"
	}
	for k, v := range p.Fields {
		g, ok := r.Fields[k]
		if !ok {
			return "fields"
		}
		if fmt.Sprintf("%T", g) != fmt.Sprintf("%T", v) {
			return "field-type"
		}
		if g != v {
			return "field-value"
		}
	}
	if p.HasTs {
		if r.Timestamp != p.Micros {
			return "timestamp"
		}
	} else if r.Timestamp < t0 || r.Timestamp > t1 {
		return "timestamp"
	}
	return ""
}

func hasAtom(sc *scen, secs map[string]bool, m, c string) bool {
	for _, f := range sc.Foci {
		if !secs[f.Sec] {
			continue
		}
		for _, a := range f.Atoms {
			if a.M == m && a.C == c {
				return true
			}
		}
	}
	return false
}

// signature names the mechanism from the syntactic feature of the failing line.
func signature(sc *scen, what string) string {
	keySecs := map[string]bool{"tagkey": true, "fieldkey": true}
	nameSecs := map[string]bool{"meas": true, "tagkey": true, "tagval": true, "fieldkey": true}
	switch {
	// the quote feature first: a line with both features still fails on the quote once the
	// escaped-equals defect is repaired
	case hasAtom(sc, nameSecs, "lit", "q"):
		return "double-quote-outside-string-field:toggles-quote-state-of-delimiter-split"
	case hasAtom(sc, keySecs, "esc", "e"):
		return "escaped-equals-in-key:key-value-split-at-first-equals-sign"
	}
	switch sc.Fam {
	case "value":
		for _, f := range sc.Den.Fields {
			if f.Kind != "string" && !(f.Kind == "float" && f.V[0].T == "1.5") {
				return "field-value:" + f.Kind + ":" + f.V[0].T + ":" + what
			}
		}
		return "field-value:" + what
	case "ts":
		return "timestamp:" + sc.Ts.Prec + ":" + digitsText(sc.Ts.Neg, sc.Ts.Digits) + ":" + what
	}
	// generic: which component came out wrong, and which sections carried escapes/special characters
	// (the witness has the exact line and atoms)
	seen := map[string]bool{}
	var parts []string
	for _, f := range sc.Foci {
		if !seen[f.Sec] {
			seen[f.Sec] = true
			parts = append(parts, f.Sec)
		}
	}
	sort.Strings(parts)
	return "escape-handling:" + what + "-differs:special-characters-in-" + strings.Join(parts, "+")
}

type runner struct {
	res    *result
	parser *ingest.LineProtocolParser
	byS    map[string]*finding
}

func (r *runner) violate(sig string, w witness) {
	if f, ok := r.byS[sig]; ok {
		f.Count++
		return
	}
	f := &finding{Signature: sig, Witness: w, Count: 1}
	r.byS[sig] = f
	r.res.Violations = append(r.res.Violations, f)
}

func nowMicro() int64 { return time.Now().UnixMicro() }

func main() {
	scenPath := flag.String("scenarios", "", "json list of TLC traces")
	outp := flag.String("out", "", "result json")
	seed := flag.Int64("seed", 1, "seed")
	e2eMax := flag.Int("e2e-max", 1500, "number of lines sent through the write path (0 = all)")
	reps := flag.Int("reps", 1, "concretisations per line")
	flag.Parse()
	b, err := os.ReadFile(*scenPath)
	if err != nil {
		fatal(err)
	}
	var scs []*scen
	if err := json.Unmarshal(b, &scs); err != nil {
		fatal(err)
	}
	rng := rand.New(rand.NewSource(*seed))
	res := &result{PerFamily: map[string]int{}, PerSection: map[string]int{}, Lenient: map[string]int{}}
	r := &runner{res: res, parser: ingest.NewLineProtocolParser(), byS: map[string]*finding{}}
	distinct := map[string]bool{}

	var passed []*scen // strict lines whose single-line parse is exact
	for _, sc := range scs {
		res.Lines++
		res.PerFamily[sc.Fam]++
		for _, f := range sc.Foci {
			res.PerSection[f.Sec]++
		}
		if sc.Strict {
			res.StrictLines++
		}
		okAll := true
		for rep := 0; rep < *reps; rep++ {
			c, err := build(sc, rng, "")
			if err != nil {
				res.Infra = err.Error()
				break
			}
			distinct[c.line] = true
			t0 := nowMicro()
			recs := r.parser.ParseBatchWithPrecision([]byte(c.line), sc.Ts.Prec)
			t1 := nowMicro()
			res.ParserChecks++
			what := ""
			var got interface{}
			switch {
			case len(recs) == 0:
				what = "dropped"
				got = "no record"
			case len(recs) > 1:
				what = "split"
				var vs []interface{}
				for _, x := range recs {
					vs = append(vs, recView(x))
				}
				got = vs
			default:
				what = comparePoint(recs[0], c.exp, t0, t1)
				got = recView(recs[0])
			}
			if !sc.Strict && sc.Weak {
				// doubled backslash in a name: exact up to the open choice (one backslash or two)
				if what != "" && len(recs) == 1 && comparePoint(recs[0], c.alt, t0, t1) == "" {
					what = ""
				}
				res.WeakChecks++
				if what != "" {
					sig := signature(sc, what)
					if strings.HasPrefix(sig, "escape-handling:") {
						sig = "doubled-backslash-in-name:" + strings.TrimPrefix(sig, "escape-handling:")
					}
					r.violate(sig, witness{Line: c.line, Precision: sc.Ts.Prec, Family: sc.Fam, Foci: sc.Foci,
						Expected: []interface{}{expView(c.exp), expView(c.alt)}, Got: got, Stage: "ParseBatchWithPrecision",
						Note: "a backslash written as \\\\ in a name may denote one or two backslashes, but it escapes nothing after it: the point must be kept with the same tags and fields"})
				}
				continue
			}
			if !sc.Strict {
				key := lenientKey(sc)
				if what == "" {
					res.Lenient[key+" => read as the documented rules say (backslash kept)"]++
				} else {
					res.Lenient[key+" => differs ("+what+")"]++
				}
				continue
			}
			if what != "" {
				okAll = false
				r.violate(signature(sc, what), witness{Line: c.line, Precision: sc.Ts.Prec, Family: sc.Fam, Foci: sc.Foci,
					Expected: expView(c.exp), Got: got, Stage: "ParseBatchWithPrecision"})
			} else if len(res.Samples) < 4 && res.ParserChecks%1777 == 3 {
				res.Samples = append(res.Samples, witness{Line: c.line, Precision: sc.Ts.Prec, Family: sc.Fam, Foci: sc.Foci,
					Expected: expView(c.exp), Got: got, Stage: "ParseBatchWithPrecision"})
			}
		}
		if res.Infra != "" {
			break
		}
		if sc.Strict && okAll {
			passed = append(passed, sc)
		}
	}
	res.DistinctLines = len(distinct)

	if res.Infra == "" {
		r.batches(passed, rng)
	}
	if res.Infra == "" {
		r.e2e(scs, passed, rng, *e2eMax)
	}
	ob, _ := json.MarshalIndent(res, "", " ")
	if err := os.WriteFile(*outp, ob, 0o644); err != nil {
		fatal(err)
	}
}

func lenientKey(sc *scen) string {
	var parts []string
	for _, f := range sc.Foci {
		for _, a := range f.Atoms {
			if a.M == "keep" && a.C != "p" {
				sec := f.Sec
				if sec == "tagkey" || sec == "tagval" || sec == "fieldkey" {
					sec = "tag/field-key"
				}
				parts = append(parts, "backslash+"+a.C+" in "+sec)
			}
		}
	}
	sort.Strings(parts)
	if len(parts) > 1 {
		parts = parts[:1]
	}
	return strings.Join(parts, ";")
}

func canonPoint(p point, withTs bool) string {
	m := expView(p)
	if !p.HasTs || !withTs {
		delete(m, "timestamp")
	}
	b, _ := json.Marshal(m)
	return string(b)
}

func canonRec(rec *models.Record, withTs bool) string {
	m := recView(rec)
	if !withTs {
		delete(m, "timestamp")
	}
	b, _ := json.Marshal(m)
	return string(b)
}

// batches: several lines per request body, with blank and comment lines; all precisions of a batch equal.
func (r *runner) batches(passed []*scen, rng *rand.Rand) {
	byPrec := map[string][]*scen{}
	for _, sc := range passed {
		byPrec[sc.Ts.Prec] = append(byPrec[sc.Ts.Prec], sc)
	}
	fillers := []string{"", "# comment, with=stuff \"and a quote", "   ", "#"}
	for prec, list := range byPrec {
		rng.Shuffle(len(list), func(i, j int) { list[i], list[j] = list[j], list[i] })
		for i := 0; i < len(list); {
			n := 2 + rng.Intn(6)
			if i+n > len(list) {
				n = len(list) - i
			}
			var lines []string
			var exp []string
			for _, sc := range list[i : i+n] {
				c, err := build(sc, rng, "")
				if err != nil {
					r.res.Infra = err.Error()
					return
				}
				if rng.Intn(3) == 0 {
					lines = append(lines, fillers[rng.Intn(len(fillers))])
				}
				lines = append(lines, c.line)
				exp = append(exp, canonPoint(c.exp, true))
			}
			i += n
			body := strings.Join(lines, "\n")
			if rng.Intn(2) == 0 {
				body += "\n"
			}
			recs := r.parser.ParseBatchWithPrecision([]byte(body), prec)
			r.res.Batches++
			var got []string
			for k, rec := range recs {
				withTs := true
				// a record without a client timestamp carries the server time: masked
				_ = k
				got = append(got, canonRec(rec, withTs))
			}
			// mask server-time stamps: compare without timestamp when the expected point has none
			expNoTs := map[string]int{}
			for _, e := range exp {
				expNoTs[e]++
			}
			bad := len(got) != len(exp)
			if !bad {
				for _, rec := range recs {
					k1 := canonRec(rec, true)
					k2 := canonRec(rec, false)
					if expNoTs[k1] > 0 {
						expNoTs[k1]--
					} else if expNoTs[k2] > 0 {
						expNoTs[k2]--
					} else {
						bad = true
					}
				}
			}
			if bad {
				r.violate("batch-of-valid-lines-yields-different-points-than-the-lines-alone",
					witness{Line: body, Precision: prec, Family: "batch", Expected: exp, Got: got, Stage: "ParseBatchWithPrecision(batch)"})
			}
		}
	}
}

type e2eLine struct {
	c   *concrete
	id  int64
	grp int
}

func kindOf(v interface{}) string {
	switch v.(type) {
	case float64:
		return "float"
	case int64, uint64:
		return "int"
	case string:
		return "string"
	case bool:
		return "bool"
	}
	return "?"
}

// writePath drives one long-lived LineProtocolHandler (the real handleWrite behind a fiber app)
// on one ArrowBuffer with an in-memory storage backend.
type writePath struct {
	r   *runner
	mem *store.Mem
	buf *ingest.ArrowBuffer
	app *fiber.App
	idc int64
}

func newWritePath(r *runner) *writePath {
	mem := store.NewMem()
	cfg := &config.IngestConfig{MaxBufferSize: 1 << 30, MaxBufferAgeMS: 3600 * 1000, Compression: "snappy",
		FlushWorkers: 2, FlushQueueSize: 16, ShardCount: 4}
	buf := ingest.NewArrowBuffer(cfg, mem, zerolog.Nop())
	h := api.NewLineProtocolHandler(buf, zerolog.Nop())
	app := fiber.New(fiber.Config{DisableStartupMessage: true, BodyLimit: 64 << 20})
	h.RegisterRoutes(app)
	return &writePath{r: r, mem: mem, buf: buf, app: app}
}

// send posts one request body through the real handler, flushes, reads every Parquet object back
// and judges every line of the request.
func (w *writePath) send(lines []*e2eLine, prec string, family string) bool {
	r := w.r
	var body strings.Builder
	for _, l := range lines {
		// the id field goes first: it contains no quote or backslash, so the lexical context of
		// everything after it is the same as in the line that was checked alone
		body.WriteString(l.c.mt + " zid=" + strconv.FormatInt(l.id, 10) + "i," + l.c.fs)
		if l.c.sc.Ts.Present {
			body.WriteString(" " + l.c.tsText)
		}
		body.WriteString("\n")
	}
	t0 := nowMicro()
	req := httptest.NewRequest("POST", "/api/v1/write/line-protocol?precision="+prec, strings.NewReader(body.String()))
	req.Header.Set("x-arc-database", "verifdb")
	resp, err := w.app.Test(req, -1)
	if err != nil {
		r.res.Infra = "fiber app.Test: " + err.Error()
		return false
	}
	rb, _ := io.ReadAll(resp.Body)
	resp.Body.Close()
	ferr := w.buf.FlushAll(context.Background())
	t1 := nowMicro()
	files := w.mem.Snapshot()
	r.res.E2EBatches++
	r.res.E2ELines += len(lines)
	r.res.E2EFiles += len(files)
	wit := witness{Line: body.String(), Precision: prec, Family: family, Stage: "handleWrite->ArrowBuffer->Parquet"}
	if resp.StatusCode != 204 || ferr != nil {
		wit.Note = fmt.Sprintf("HTTP %d %s; flush error %v", resp.StatusCode, string(rb), ferr)
		wit.Got = resp.StatusCode
		r.violate("request-of-valid-points-fails-in-the-write-path:"+family, wit)
		return true
	}
	stored := map[int64]store.Row{}
	storedMeas := map[int64]string{}
	types := map[string]map[string]string{}
	dupOrLost := ""
	for path, data := range files {
		parts := strings.Split(path, "/")
		if len(parts) < 3 || parts[0] != "verifdb" {
			dupOrLost = "unexpected object " + path
			continue
		}
		tbl, err := store.ReadParquet(data)
		if err != nil {
			r.res.Infra = fmt.Sprintf("cannot read back %s: %v", path, err)
			return false
		}
		if types[parts[1]] == nil {
			types[parts[1]] = map[string]string{}
		}
		for k, v := range tbl.Types {
			types[parts[1]][k] = v
		}
		for _, row := range tbl.Rows {
			id, ok := row["zid"].(int64)
			if !ok {
				dupOrLost = "row without zid"
				continue
			}
			if _, dup := stored[id]; dup {
				dupOrLost = fmt.Sprintf("point %d stored twice", id)
			}
			stored[id] = row
			storedMeas[id] = parts[1]
		}
	}
	if dupOrLost != "" {
		wit.Note = dupOrLost
		r.violate("stored-rows:duplicated-or-foreign-row", wit)
	}
	if len(stored) != len(lines) {
		wit.Note = fmt.Sprintf("%d points written, %d rows stored", len(lines), len(stored))
		wit.Expected = len(lines)
		wit.Got = len(stored)
		r.violate("stored-rows:point-count-differs", wit)
	}
	for _, l := range lines {
		row, ok := stored[l.id]
		lw := witness{Line: l.c.mt + " zid=" + strconv.FormatInt(l.id, 10) + "i," + l.c.fs + " " + l.c.tsText, Precision: prec,
			Family: l.c.sc.Fam, Foci: l.c.sc.Foci, Expected: expView(l.c.exp), Stage: "handleWrite->ArrowBuffer->Parquet"}
		if !ok {
			lw.Got = "no row"
			r.violate(e2eSig(l.c.sc, "stored-rows:point-missing"), lw)
			continue
		}
		lw.Got = row
		if storedMeas[l.id] != l.c.exp.Meas {
			r.violate(e2eSig(l.c.sc, "stored-rows:wrong-measurement"), lw)
			continue
		}
		what := compareRow(row, l.c.exp, types[l.c.exp.Meas], t0, t1)
		if what != "" {
			lw.Note = what
			sig := "stored-rows:" + strings.SplitN(what, " ", 2)[0]
			if family == "sequence" {
				sig += ":second-or-later-request-with-sparse-columns"
				lw.Note += " (request " + strconv.Itoa(l.c.sc.Req) + " of a dense-then-sparse sequence for one measurement on one handler)"
			}
			r.violate(e2eSig(l.c.sc, sig), lw)
		}
	}
	return true
}

// sequences: TLC's two-request family. Request 1 is dense (every point has both tags and both
// fields, distinctive values), request 2 sparse (points of the same measurement with different
// key sets), on the same handler instance; repeated with fresh values.
func (r *runner) sequences(w *writePath, scs []*scen, rng *rand.Rand, rounds int) {
	var dense, sparse []*scen
	for _, sc := range scs {
		if sc.Fam == "seq" && sc.Req == 1 {
			dense = append(dense, sc)
		}
		if sc.Fam == "seq" && sc.Req == 2 {
			sparse = append(sparse, sc)
		}
	}
	if len(dense) == 0 || len(sparse) == 0 {
		return
	}
	for round := 0; round < rounds && r.res.Infra == ""; round++ {
		preset := map[string]string{"M": fmt.Sprintf("seq%d", round), "K1": "ka", "K2": "kb", "F1": "fa", "F2": "fb"}
		for _, reqSet := range [][]*scen{dense, sparse} {
			var lines []*e2eLine
			for _, sc := range reqSet {
				c, err := buildPreset(sc, rng, preset)
				if err != nil {
					r.res.Infra = err.Error()
					return
				}
				w.idc++
				lines = append(lines, &e2eLine{c: c, id: w.idc})
			}
			if !w.send(lines, "ns", "sequence") {
				return
			}
			r.res.SeqRequests++
		}
	}
}

// e2e: the real write path up to Parquet, through the real HTTP handler.
func (r *runner) e2e(all []*scen, passed []*scen, rng *rand.Rand, max int) {
	w := newWritePath(r)
	defer w.buf.Close()
	r.sequences(w, all, rng, 3)
	var cand []*scen
	for _, sc := range passed {
		meas := sc.Fam == "seq"
		for _, f := range sc.Foci {
			if f.Sec == "meas" {
				meas = true
			}
		}
		if !meas { // the HTTP layer only accepts [a-zA-Z][a-zA-Z0-9_-]* measurements
			cand = append(cand, sc)
		}
	}
	rng.Shuffle(len(cand), func(i, j int) { cand[i], cand[j] = cand[j], cand[i] })
	if max > 0 && len(cand) > max {
		// keep every value/ts point, sample the rest
		sort.SliceStable(cand, func(i, j int) bool {
			pi := cand[i].Fam == "value" || cand[i].Fam == "ts"
			pj := cand[j].Fam == "value" || cand[j].Fam == "ts"
			return pi && !pj
		})
		cand = cand[:max]
		rng.Shuffle(len(cand), func(i, j int) { cand[i], cand[j] = cand[j], cand[i] })
	}
	byPrec := map[string][]*scen{}
	for _, sc := range cand {
		byPrec[sc.Ts.Prec] = append(byPrec[sc.Ts.Prec], sc)
	}
	batchNo := 0
	for _, prec := range []string{"ns", "us", "ms", "s"} {
		list := byPrec[prec]
		for i := 0; i < len(list) && r.res.Infra == ""; {
			n := 8 + rng.Intn(40)
			if i+n > len(list) {
				n = len(list) - i
			}
			batchNo++
			// group lines into measurements with compatible column kinds (sparse columns on purpose)
			type grp struct {
				name  string
				kinds map[string]string
			}
			var groups []*grp
			var lines []*e2eLine
			for _, sc := range list[i : i+n] {
				w.idc++
				placed := false
				for gi, g := range groups {
					if rng.Intn(3) == 0 {
						continue
					}
					c, err := build(sc, rng, g.name)
					if err != nil {
						r.res.Infra = err.Error()
						return
					}
					ok := true
					for k := range c.exp.Tags {
						if kk, has := g.kinds[k]; has && kk != "string" {
							ok = false
						}
					}
					for k, v := range c.exp.Fields {
						if kk, has := g.kinds[k]; has && kk != kindOf(v) {
							ok = false
						}
					}
					if ok {
						for k := range c.exp.Tags {
							g.kinds[k] = "string"
						}
						for k, v := range c.exp.Fields {
							g.kinds[k] = kindOf(v)
						}
						lines = append(lines, &e2eLine{c: c, id: w.idc, grp: gi})
						placed = true
						break
					}
				}
				if !placed {
					g := &grp{name: fmt.Sprintf("m%d_%d", batchNo, len(groups)), kinds: map[string]string{}}
					groups = append(groups, g)
					c, err := build(sc, rng, g.name)
					if err != nil {
						r.res.Infra = err.Error()
						return
					}
					for k := range c.exp.Tags {
						g.kinds[k] = "string"
					}
					for k, v := range c.exp.Fields {
						g.kinds[k] = kindOf(v)
					}
					lines = append(lines, &e2eLine{c: c, id: w.idc, grp: len(groups) - 1})
				}
			}
			i += n
			if !w.send(lines, prec, "e2e") {
				return
			}
		}
	}
	// the sequence once more, after many requests went through the same handler
	r.sequences(w, all, rng, 3)
}

// e2eSig: a line that carries one of the syntactic features with a known mechanism is
// attributed to that mechanism (appending the id field changes what follows a stray quote).
func e2eSig(sc *scen, dflt string) string {
	s := signature(sc, "x")
	if strings.HasPrefix(s, "escaped-equals-in-key:") || strings.HasPrefix(s, "double-quote-outside-string-field:") {
		return s
	}
	return dflt
}

func compareRow(row store.Row, p point, types map[string]string, t0, t1 int64) string {
	// non-null columns of the row must be exactly time, zid, tags, fields
	want := map[string]interface{}{}
	for k, v := range p.Tags {
		want[k] = v
	}
	for k, v := range p.Fields {
		if u, ok := v.(uint64); ok {
			want[k] = int64(u) // arc stores unsigned fields in an Int64 column; values above MaxInt64 are not generated
		} else {
			want[k] = v
		}
	}
	for k, v := range row {
		if k == "time" || k == "zid" || v == nil {
			continue
		}
		w, ok := want[k]
		if !ok {
			return "extra-column-value column=" + k
		}
		if fmt.Sprintf("%T", w) != fmt.Sprintf("%T", v) {
			return fmt.Sprintf("column-type-differs column=%s stored=%T(%s) expected=%T", k, v, types[k], w)
		}
		if w != v {
			return "column-value-differs column=" + k
		}
	}
	for k := range want {
		if v, ok := row[k]; !ok || v == nil {
			return "column-missing column=" + k
		}
	}
	ts, ok := row["time"].(int64)
	if !ok {
		return "time-missing"
	}
	if types["time"] != "timestamp[us]" {
		return "time-type-differs " + types["time"]
	}
	if p.HasTs {
		if ts != p.Micros {
			return fmt.Sprintf("timestamp-differs stored=%d expected=%d", ts, p.Micros)
		}
	} else if ts < t0 || ts > t1 {
		return fmt.Sprintf("timestamp-differs stored=%d expected server time", ts)
	}
	return ""
}

func fatal(err error) {
	fmt.Fprintln(os.Stderr, "lineproto:", err)
	os.Exit(2)
}

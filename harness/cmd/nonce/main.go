// C26 driver: replays TLC-generated delivery schedules (specs/nonce/Nonce.tla) against every
// real validate-then-track site of arc under the overlay clock and judges, on the real
// accept/reject decisions, "accepted at most once" and "rejected outside the window".
//
// Sites (each is the real handler with its nonce cache constructed by the real code path or
// by the expression written at the real construction site, see harness/cmd/noncegen):
//
//	repl-sync          cluster.Coordinator.handleReplicateSync   cache from Coordinator.Start()
//	forward-apply      cluster.Coordinator.handleForwardApply    (same cache)
//	cache-invalidate   api.CacheInvalidateHandler (fiber)        NewNonceCache(<main.go expr>), <main.go tolerance>
//	edgesync-file      api.EdgeSyncHandler POST /sync/file       Replay: NewNonceCache(<main.go expr>)
//	edgesync-reconcile api.EdgeSyncHandler POST /sync/reconcile  (same cache)
//
//	nonce -mode probe  -out probe.json
//	nonce -mode replay -in replay.json -out result.json
package main

import (
	"context"
	"encoding/json"
	"flag"
	"fmt"
	"net"
	"os"
	"sort"
	"strconv"
	"strings"
	"sync/atomic"
	"time"

	"github.com/basekick-labs/arc/internal/api"
	"github.com/basekick-labs/arc/internal/cluster"
	"github.com/basekick-labs/arc/internal/cluster/protocol"
	"github.com/basekick-labs/arc/internal/cluster/security"
	"github.com/basekick-labs/arc/internal/config"
	"github.com/basekick-labs/arc/internal/edgesync"
	"github.com/basekick-labs/arc/internal/license"
	"github.com/basekick-labs/arc/verifharness/internal/noncesites"
	"github.com/gofiber/fiber/v2"
	"github.com/rs/zerolog"
	"github.com/valyala/fasthttp"
	"github.com/valyala/fasthttp/fasthttputil"
)

const (
	secret      = "verif-shared-secret"
	clusterName = "verif-cluster"
	localID     = "verif-local"
	hubID       = "verif-hub"
	half        = int64(500 * time.Millisecond)
)

var clk atomic.Int64 // unix nanos of the virtual clock

// padBytes: see call() in buildSites
var padBytes int

// The controlled clock lives in [clockStart, clockLimit] (int64 nanoseconds overflow at
// 9.22e9 s): when the scenario epochs approach clockLimit the sites are rebuilt through the
// same real constructors and the epoch restarts at clockStart. Inside one generation the
// clock never goes backwards; anything else is a defect of this driver and is reported as an
// infrastructure failure (exit 3), never as a verdict.
const (
	clockStart = int64(2_000_000_000) * int64(time.Second)
	clockLimit = int64(7_000_000_000) * int64(time.Second)
)

var clkFloor int64

func setClock(ns int64) {
	if ns < clockStart || ns > clockLimit+int64(400*24*time.Hour) || ns < clkFloor {
		fatal("controlled clock out of range or running backwards: %d ns (previous %d)", ns, clkFloor)
	}
	clkFloor = ns
	clk.Store(ns)
}

// resetClock starts a new clock generation (only together with freshly built sites).
func resetClock(ns int64) { clkFloor = 0; setClock(ns) }

var cleanup []func()

func nowSec() int64 { return clk.Load() / int64(time.Second) }

type site struct {
	Name     string `json:"name"`
	TolWhere string `json:"tol_where"`
	TolText  string `json:"tol_text"`
	TolNs    int64  `json:"tol_ns"`
	TolS     int64  `json:"tol_s"`
	TtlWhere string `json:"ttl_where"`
	TtlText  string `json:"ttl_text"`
	TtlNs    int64  `json:"ttl_ns"` // effective retention measured on the real cache
	TtlH     int64  `json:"ttl_h"`
	cache    *security.NonceCache
	deliver  func(sender, nonce string, ts int64) (bool, error)
}

func fatal(f string, a ...any) {
	fmt.Fprintf(os.Stderr, "nonce driver: "+f+"\n", a...)
	os.Exit(3)
}

func genItem(kind, ctx string) noncesites.Item {
	var found []noncesites.Item
	for _, it := range noncesites.Gen {
		if it.Kind == kind && it.Ctx == ctx {
			found = append(found, it)
		}
	}
	if len(found) != 1 {
		fatal("expected exactly one %s expression for %s in the arc tree, found %d (construction site moved? extend harness/cmd/noncegen)", kind, ctx, len(found))
	}
	if found[0].Dynamic {
		fatal("%s expression for %s at %s (%s) is not a constant expression; extend the driver to obtain it", kind, ctx, found[0].Where, found[0].Text)
	}
	return found[0]
}

// measureTTL finds the smallest d (ns) such that a pair tracked at T is accepted again at T+d.
func measureTTL(nc *security.NonceCache, at *int64) int64 {
	n := 0
	probe := func(d int64) bool {
		n++
		id, nonce := "ttl-probe", strconv.Itoa(n)+"-"+strconv.FormatInt(*at, 10)
		setClock(*at)
		if !nc.Track(id, nonce) {
			fatal("ttl probe: fresh nonce rejected")
		}
		setClock(*at + d)
		r := nc.Track(id, nonce)
		*at += d + int64(time.Hour)
		return r
	}
	hi := int64(48 * time.Hour)
	if !probe(hi) {
		return hi // retention longer than anything the property needs
	}
	lo := int64(0) // invariant: probe(lo) false or lo==0 ; probe(hi) true
	if probe(0) {
		return 0
	}
	for hi-lo > 1 {
		mid := lo + (hi-lo)/2
		if probe(mid) {
			hi = mid
		} else {
			lo = mid
		}
	}
	return hi
}

// freshSites tears down the previous generation (if any), restarts the clock at clockStart and
// builds every site again through the real constructors.
func freshSites(at *int64) []*site {
	for _, f := range cleanup {
		f()
	}
	cleanup = nil
	*at = clockStart
	resetClock(*at)
	sites := buildSites(at)
	*at = (*at/int64(time.Second) + 1) * int64(time.Second) // probes leave a fractional epoch behind
	return sites
}

func buildSites(at *int64) []*site {
	setClock(*at)
	nop := zerolog.Nop()
	var sites []*site

	// ---- coordinator: real NewCoordinator + Start (no raft, no listener, no seeds)
	coord, err := cluster.NewCoordinator(&cluster.CoordinatorConfig{
		Config: &config.ClusterConfig{Enabled: true, NodeID: localID, Role: "writer", ClusterName: clusterName,
			SharedSecret: secret},
		LicenseClient: license.VerifNonceLicensedClient(license.FeatureClustering),
		Version:       "verif", Logger: nop,
	})
	if err != nil {
		fatal("NewCoordinator: %v", err)
	}
	if err := coord.Start(); err != nil {
		fatal("Coordinator.Start: %v", err)
	}
	cleanup = append(cleanup, func() { _ = coord.Stop() })
	cc := cluster.VerifNonceCache(coord)
	if cc == nil {
		fatal("Coordinator.Start left nonceCache nil")
	}
	roundTrip := func(run func(conn net.Conn)) (*protocol.Message, error) {
		a, b := net.Pipe()
		done := make(chan struct{})
		go func() { defer close(done); run(a); a.Close() }()
		msg, err := protocol.ReceiveMessage(b, 30*time.Second)
		b.Close()
		<-done
		return msg, err
	}
	tolRS := genItem("tol", "repl-sync")
	sites = append(sites, &site{Name: "repl-sync", TolWhere: tolRS.Where, TolText: tolRS.Text, TolNs: int64(tolRS.D),
		TtlWhere: "internal/cluster/coordinator.go:Start (cache read back from the started coordinator)", cache: cc,
		deliver: func(sender, nonce string, ts int64) (bool, error) {
			req := &protocol.ReplicateSync{ReaderID: sender, LastKnownSequence: 7, Nonce: nonce, ClusterName: clusterName, Timestamp: ts,
				HMAC: security.ComputeReplicateSyncHMAC(secret, nonce, sender, clusterName, 7, ts)}
			msg, err := roundTrip(func(c net.Conn) { cluster.VerifHandleReplicateSync(coord, c, req) })
			if err != nil {
				return false, err
			}
			var ack *protocol.ReplicateSyncAck
			switch p := msg.Payload.(type) {
			case *protocol.ReplicateSyncAck:
				ack = p
			case protocol.ReplicateSyncAck:
				ack = &p
			default:
				return false, fmt.Errorf("unexpected reply %T", msg.Payload)
			}
			return ack.Error != "authentication failed", nil
		}})
	tolFA := genItem("tol", "forward-apply")
	sites = append(sites, &site{Name: "forward-apply", TolWhere: tolFA.Where, TolText: tolFA.Text, TolNs: int64(tolFA.D),
		TtlWhere: "internal/cluster/coordinator.go:Start (cache read back from the started coordinator)", cache: cc,
		deliver: func(sender, nonce string, ts int64) (bool, error) {
			cmd := []byte(`{"type":0}`)
			req := &protocol.ForwardApplyRequest{CommandJSON: cmd, NodeID: sender, Nonce: nonce, Timestamp: ts,
				HMAC: security.ComputeForwardHMAC(secret, nonce, sender, clusterName, cmd, ts)}
			msg, err := roundTrip(func(c net.Conn) { cluster.VerifHandleForwardApply(coord, c, req) })
			if err != nil {
				return false, err
			}
			var ack *protocol.ForwardApplyAck
			switch p := msg.Payload.(type) {
			case *protocol.ForwardApplyAck:
				ack = p
			case protocol.ForwardApplyAck:
				ack = &p
			default:
				return false, fmt.Errorf("unexpected reply %T", msg.Payload)
			}
			return ack.Code != protocol.ForwardCodeAuth, nil
		}})

	// HTTP sites are driven the way a peer reaches them: ONE long-lived fiber app served on an
	// in-memory listener, ONE keep-alive client connection, so fasthttp re-uses the same pooled
	// request context (and its header buffers) for every request -- handler code that retains
	// fiber's zero-copy header strings sees them overwritten by later traffic. Requests are
	// synchronous round trips (no sleeps). padBytes > 0 prepends unsigned headers, which shifts
	// the header slots: a captured request replayed with a different header layout.
	serve := func(app *fiber.App) *fasthttp.HostClient {
		ln := fasthttputil.NewInmemoryListener()
		go func() { _ = app.Listener(ln) }()
		return &fasthttp.HostClient{Addr: "verif", MaxConns: 1, Dial: func(string) (net.Conn, error) { return ln.Dial() }}
	}
	call := func(c *fasthttp.HostClient, path string, hdr map[string]string) int {
		req, resp := fasthttp.AcquireRequest(), fasthttp.AcquireResponse()
		defer fasthttp.ReleaseRequest(req)
		defer fasthttp.ReleaseResponse(resp)
		req.Header.SetMethod("POST")
		req.SetRequestURI("http://verif" + path)
		if padBytes > 0 {
			req.Header.Set("Accept", "*/*")
			req.Header.Set("X-Verif-Pad", strings.Repeat("p", padBytes))
		}
		keys := make([]string, 0, len(hdr))
		for k := range hdr {
			keys = append(keys, k)
		}
		sort.Strings(keys)
		for _, k := range keys {
			req.Header.Set(k, hdr[k])
		}
		if err := c.Do(req, resp); err != nil {
			return -1
		}
		return resp.StatusCode()
	}

	// ---- cache invalidate: constructor arguments as written in cmd/arc/main.go
	ciTTL := genItem("ttl", "api.NewCacheInvalidateHandler#3")
	ciTol := genItem("next", "api.NewCacheInvalidateHandler#4")
	ciCache := security.NewNonceCache(ciTTL.D)
	invalidations := 0
	ci := api.NewCacheInvalidateHandler(secret, clusterName, localID, ciCache, ciTol.D, func() { invalidations++ }, nop)
	ciApp := fiber.New(fiber.Config{DisableStartupMessage: true})
	ci.Register(ciApp)
	ciH := serve(ciApp)
	cleanup = append(cleanup, func() { _ = ciApp.Shutdown() })
	sites = append(sites, &site{Name: "cache-invalidate", TolWhere: ciTol.Where, TolText: ciTol.Text, TolNs: int64(ciTol.D),
		TtlWhere: ciTTL.Where, TtlText: ciTTL.Text, cache: ciCache,
		deliver: func(sender, nonce string, ts int64) (bool, error) {
			before := invalidations
			st := call(ciH, api.CacheInvalidatePath, map[string]string{
				"X-Arc-Node-ID": sender, "X-Arc-Cluster": clusterName, "X-Arc-Nonce": nonce,
				"X-Arc-Timestamp": strconv.FormatInt(ts, 10),
				"X-Arc-HMAC":      security.ComputeCacheInvalidateHMAC(secret, nonce, sender, clusterName, ts)})
			switch {
			case st == fiber.StatusNoContent && invalidations == before+1:
				return true, nil
			case st == fiber.StatusForbidden && invalidations == before:
				return false, nil
			}
			return false, fmt.Errorf("cache-invalidate: status %d, callback delta %d", st, invalidations-before)
		}})

	// ---- edge sync: Replay guard as written in cmd/arc/main.go; requests are signed for a
	// different hub, so an authenticated request stops at the post-MAC hub-ID check (400)
	// and never reaches the (unconfigured) receiver/reconciler; 401 = auth/replay rejection.
	esTTL := genItem("ttl", "api.EdgeSyncHandlerConfig.Replay")
	esCache := security.NewNonceCache(esTTL.D)
	es, err := api.NewEdgeSyncHandler(api.EdgeSyncHandlerConfig{
		Receiver: &edgesync.Receiver{}, Reconciler: &edgesync.Reconciler{},
		SpokeSecrets: func(ctx context.Context, spokeID string) (string, bool) { return secret + ":" + spokeID, true },
		Replay:       esCache, HubID: hubID, MaxFileBytes: 1 << 20, Logger: nop,
	})
	if err != nil {
		fatal("NewEdgeSyncHandler: %v", err)
	}
	esApp := fiber.New(fiber.Config{DisableStartupMessage: true})
	es.RegisterRoutes(esApp)
	esH := serve(esApp)
	cleanup = append(cleanup, func() { _ = esApp.Shutdown() })
	const otherHub = "some-other-hub"
	esVerdict := func(st int) (bool, error) {
		switch st {
		case fiber.StatusBadRequest:
			return true, nil
		case fiber.StatusUnauthorized:
			return false, nil
		}
		return false, fmt.Errorf("edgesync: unexpected status %d", st)
	}
	tolEF := genItem("tol", "edgesync-file")
	sites = append(sites, &site{Name: "edgesync-file", TolWhere: tolEF.Where, TolText: tolEF.Text, TolNs: int64(tolEF.D),
		TtlWhere: esTTL.Where, TtlText: esTTL.Text, cache: esCache,
		deliver: func(sender, nonce string, ts int64) (bool, error) {
			sha := "e3b0c44298fc1c149afbf4c8996fb92427ae41e4649b934ca495991b7852b855"
			mac, err := security.ComputeSyncFileHMAC(secret+":"+sender, nonce, sender, otherHub, "db/m/f.parquet", sha, ts)
			if err != nil {
				return false, err
			}
			return esVerdict(call(esH, "/api/v1/sync/file", map[string]string{
				"X-Arc-Spoke-ID": sender, "X-Arc-Sync-HubID": otherHub, "X-Arc-Sync-Path": "db/m/f.parquet",
				"X-Arc-Sync-SHA256": sha, "X-Arc-Sync-Size": "0", "X-Arc-Sync-Nonce": nonce,
				"X-Arc-Sync-Timestamp": strconv.FormatInt(ts, 10), "X-Arc-Sync-MAC": mac}))
		}})
	tolER := genItem("tol", "edgesync-reconcile")
	sites = append(sites, &site{Name: "edgesync-reconcile", TolWhere: tolER.Where, TolText: tolER.Text, TolNs: int64(tolER.D),
		TtlWhere: esTTL.Where, TtlText: esTTL.Text, cache: esCache,
		deliver: func(sender, nonce string, ts int64) (bool, error) {
			mac, err := security.ComputeSyncReconcileHMAC(secret+":"+sender, nonce, sender, otherHub, nil, ts)
			if err != nil {
				return false, err
			}
			return esVerdict(call(esH, "/api/v1/sync/reconcile", map[string]string{
				"X-Arc-Spoke-ID": sender, "X-Arc-Sync-HubID": otherHub, "X-Arc-Sync-Nonce": nonce,
				"X-Arc-Sync-Timestamp": strconv.FormatInt(ts, 10), "X-Arc-Sync-MAC": mac}))
		}})

	for _, s := range sites {
		s.TolS = int64(time.Duration(s.TolNs).Seconds())
	}
	measured := map[*security.NonceCache]int64{}
	for _, s := range sites {
		if _, ok := measured[s.cache]; !ok {
			measured[s.cache] = measureTTL(s.cache, at)
		}
		s.TtlNs = measured[s.cache]
		s.TtlH = (s.TtlNs + half/2) / half
	}
	// the overlay clock must control the validators: a message stamped with the virtual
	// "now" (years away from the wall clock) must be accepted by every site
	for i, s := range sites {
		*at += int64(time.Hour)
		setClock(*at)
		ok, err := s.deliver("clock-probe", "cp-"+strconv.Itoa(i), nowSec())
		if err != nil {
			fatal("site %s: %v", s.Name, err)
		}
		if !ok {
			fatal("site %s rejects a fresh message stamped with the virtual clock: the clock overlay does not control this path (or the site rejects everything)", s.Name)
		}
	}
	return sites
}

type event struct {
	K   int   `json:"k"` // 0 = the message, 1 = unrelated message
	T   int64 `json:"t"` // half seconds from the scenario epoch
	Acc bool  `json:"acc"`
	N   int   `json:"n"` // K=1: size of the burst of unrelated messages
}
type scenario struct {
	Ts int64   `json:"ts"`
	Ev []event `json:"ev"`
}
type replayIn struct {
	Pairs map[string]string `json:"pairs"` // "tolS/ttlH" -> scenarios file
}
type finding struct {
	Signature string         `json:"signature"`
	Witness   map[string]any `json:"witness"`
	Count     int            `json:"count"`
	Sites     map[string]int `json:"sites"`
}
type result struct {
	Sites      []*site             `json:"sites"`
	Scenarios  map[string]int      `json:"scenarios"`
	Deliveries int                 `json:"deliveries"`
	PerSite    map[string]int      `json:"per_site_deliveries"`
	Classes    map[string]int      `json:"classes"`
	Violations map[string]*finding `json:"violations"`
	Drift      map[string]*finding `json:"drift"`
	Samples    []map[string]any    `json:"samples"`
	Rebuilds   int                 `json:"clock_generations_restarted"`
	Truncated  map[string]int      `json:"truncated,omitempty"` // site -> schedules replayed before the replay was cut short
	Infra      string              `json:"infra,omitempty"`
}

func rel(ttlH, tolS int64) string {
	switch {
	case ttlH < 2*tolS:
		return "ttl<tol"
	case ttlH == 2*tolS:
		return "ttl=tol"
	case ttlH < 4*tolS+2:
		return "tol<ttl<2tol+1s"
	}
	return "ttl>=2tol+1s"
}

func main() {
	mode := flag.String("mode", "probe", "")
	in := flag.String("in", "", "")
	out := flag.String("out", "", "")
	flag.Parse()
	if len(noncesites.Gen) == 0 {
		fatal("noncesites.Gen is empty: build with -tags noncegen after running noncegen")
	}
	security.VerifNow = func() time.Time { return time.Unix(0, clk.Load()) }
	at := clockStart // scenario epochs: whole seconds, far from the wall clock
	sites := freshSites(&at)
	res := &result{Sites: sites, Scenarios: map[string]int{}, PerSite: map[string]int{}, Classes: map[string]int{},
		Violations: map[string]*finding{}, Drift: map[string]*finding{}}
	if *mode == "replay" {
		var ri replayIn
		b, err := os.ReadFile(*in)
		if err != nil {
			fatal("%v", err)
		}
		if err := json.Unmarshal(b, &ri); err != nil {
			fatal("%v", err)
		}
		for _, s := range sites {
			key := fmt.Sprintf("%d/%d", s.TolS, s.TtlH)
			f, ok := ri.Pairs[key]
			if !ok {
				fatal("no scenarios for pair %s (site %s)", key, s.Name)
			}
			b, err := os.ReadFile(f)
			if err != nil {
				fatal("%v", err)
			}
			var scs []scenario
			if err := json.Unmarshal(b, &scs); err != nil {
				fatal("%v", err)
			}
			res.Scenarios[s.Name] = len(scs)
			if msg := replaySite(s.Name, &sites, scs, &at, res); msg != "" {
				res.Infra = msg
				break
			}
		}
	}
	b, _ := json.Marshal(res)
	if err := os.WriteFile(*out, b, 0o644); err != nil {
		fatal("%v", err)
	}
}

func siteViolations(res *result, site string) int {
	n := 0
	for _, f := range res.Violations {
		n += f.Sites[site]
	}
	return n
}

func record(m map[string]*finding, sig, siteName string, w map[string]any) {
	f := m[sig]
	if f == nil {
		f = &finding{Signature: sig, Witness: w, Sites: map[string]int{}}
		m[sig] = f
	}
	f.Count++
	f.Sites[siteName]++
}

func siteByName(sites []*site, name string) *site {
	for _, s := range sites {
		if s.Name == name {
			return s
		}
	}
	fatal("site %s missing after rebuild", name)
	return nil
}

func replaySite(name string, sites *[]*site, scs []scenario, at *int64, res *result) string {
	s := siteByName(*sites, name)
	var maxT int64
	for _, sc := range scs {
		for _, e := range sc.Ev {
			if e.T > maxT {
				maxT = e.T
			}
		}
	}
	// between two scenarios: every entry of the previous one has expired and the sweep interval has passed
	gap := (maxT*half+s.TtlNs)/int64(time.Second)*int64(time.Second) + int64(2*time.Minute)
	relation := rel(s.TtlH, s.TolS)
	for i, sc := range scs {
		if *at+2*gap > clockLimit {
			// out of clock: fresh instances through the same real constructors, epoch back to clockStart
			tolS, ttlH := s.TolS, s.TtlH
			*sites = freshSites(at)
			s = siteByName(*sites, name)
			if s.TolS != tolS || s.TtlH != ttlH {
				fatal("site %s changed its (tolerance, retention) after a rebuild", name)
			}
			res.Rebuilds++
		}
		*at += gap
		epoch := *at
		epochSec := epoch / int64(time.Second)
		setClock(epoch)
		// warm-up: an unrelated message at the epoch makes the lazy sweep run, so that the
		// cache is in the model's initial state (no live entry, lastEvict = epoch)
		ok, err := s.deliver("warm", fmt.Sprintf("w%d", i), epochSec)
		if err != nil {
			return fmt.Sprintf("site %s warm-up: %v", s.Name, err)
		}
		if !ok {
			return fmt.Sprintf("site %s rejected the warm-up message of scenario %d", s.Name, i)
		}
		sender, nonce := "peer-1", fmt.Sprintf("n%d", i)
		ts := epochSec + sc.Ts
		accepts := 0
		var firstAcc int64 = -1
		obs := make([]bool, len(sc.Ev))
		others, deliveries := 0, 0
		for j, e := range sc.Ev {
			setClock(epoch + e.T*half)
			var got bool
			if e.K == 0 {
				// the original goes out bare, every replay with a different (unsigned) header layout
				padBytes = 5 * deliveries
				deliveries++
				got, err = s.deliver(sender, nonce, ts)
				padBytes = 0
			} else {
				// a burst of unrelated authentic traffic from other peers through the same transport,
				// with varying identities and header lengths
				got = true
				n := e.N
				if n < 1 {
					n = 1
				}
				for b := 0; b < n && err == nil; b++ {
					others++
					padBytes = (others % 3) * 9
					var g bool
					g, err = s.deliver(fmt.Sprintf("peer-%d", 2+others%4), fmt.Sprintf("o%d-%d-%s", i, others, strings.Repeat("x", others%5)), nowSec())
					got = got && g
				}
				padBytes = 0
			}
			if err != nil {
				return fmt.Sprintf("site %s scenario %d event %d: %v", s.Name, i, j, err)
			}
			obs[j] = got
			res.Deliveries++
			res.PerSite[s.Name]++
			w := func() map[string]any {
				return map[string]any{"site": s.Name, "tol_s": s.TolS, "ttl_ns": s.TtlNs, "ts_rel_s": sc.Ts,
					"events_half_seconds": sc.Ev, "observed": obs[:j+1], "event": j, "epoch_unix": epochSec}
			}
			if got != e.Acc {
				record(res.Drift, fmt.Sprintf("decision differs from Nonce.tla (tol=%ds ttl=%dhs) kind=%d predicted=%v", s.TolS, s.TtlH, e.K, e.Acc), s.Name, w())
			}
			if e.K != 0 || !got {
				if e.K == 0 {
					res.Classes["rejected"]++
				}
				continue
			}
			// ---- the property, judged on the real decision
			drift := (epoch+e.T*half)/int64(time.Second) - ts
			if drift > s.TolS || -drift > s.TolS {
				dir := "stale"
				if drift < 0 {
					dir = "future-dated"
				}
				record(res.Violations, "accepted-outside-window:"+dir, s.Name, w())
			}
			accepts++
			if accepts == 1 {
				firstAcc = e.T
				res.Classes["first-accept"]++
				continue
			}
			// a second acceptance of the same (sender, nonce)
			sig := "replay-accepted:within-retention:site=" + s.Name
			if (e.T-firstAcc)*half >= s.TtlNs {
				skew := "unskewed-ts:truncated-seconds-window"
				first := epochSec + firstAcc/2
				if ts > first {
					skew = "future-dated-ts"
				} else if ts < first {
					skew = "past-dated-ts"
				}
				sig = "replay-accepted:after-nonce-expiry:" + relation + ":" + skew
			}
			res.Classes["replay-accepted"]++
			record(res.Violations, sig, s.Name, w())
		}
		// the verdict for this site is established; a broken cache can also grow without bound
		// (entries that can no longer be evicted), which would make the remaining replay quadratic
		if siteViolations(res, s.Name) >= 300 {
			if res.Truncated == nil {
				res.Truncated = map[string]int{}
			}
			res.Truncated[s.Name] = i + 1
			break
		}
		if len(res.Samples) < 4 && i%997 == 3 {
			res.Samples = append(res.Samples, map[string]any{"site": s.Name, "ts_rel_s": sc.Ts, "events": sc.Ev, "observed": obs})
		}
	}
	return ""
}

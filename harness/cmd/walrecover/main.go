// Command walrecover is the C05 replay driver. For every behaviour enumerated by TLC from
// specs/walrecover/WalRecover.tla (a write history plus a schedule of persist / flush / crash /
// restart / replay / delete steps) it runs the REAL arc ingest stack in a child process (the
// overlaid arc binary, see overlay/walrecover/cmd/arc/zz_verif_child.go), kills it with SIGKILL
// at the scripted points (recovery-phase points are reached through the gated recovery
// callbacks, never by sleeping), restarts it on the same directories, flushes, and compares all
// Parquet rows with a crash-free run of the same history (real-vs-real verdict). The TLC
// prediction is used only as a drift detector.
package main

import (
	"bufio"
	"encoding/base64"
	"encoding/json"
	"flag"
	"fmt"
	"io"
	"os"
	"os/exec"
	"path/filepath"
	"reflect"
	"sort"
	"strings"
	"sync"
	"syscall"
	"time"

	"github.com/Basekick-Labs/msgpack/v6"
	"github.com/basekick-labs/arc/verifharness/internal/walrecoverextract"
)

type class struct {
	Kind string `json:"kind"`
	DB   string `json:"db"`
	Ts   string `json:"ts"`
	Sp   string `json:"sp"`
	Mk   string `json:"mk"`
	Sz   string `json:"sz"`
}

// rows carried by one request of the class
func rowsOf(c class) int {
	switch {
	case c.Sz == "mid":
		return 20
	case c.Sz == "big":
		return 65600
	case c.Sz == "win":
		return batchSize + 2
	case c.Kind == "row":
		return 1
	}
	return 2
}

func allRows(c class) []int {
	out := make([]int, rowsOf(c))
	for i := range out {
		out[i] = i
	}
	return out
}

type predRow struct {
	ID   int    `json:"id"`
	DB   string `json:"db"`
	Meas string `json:"meas"`
	Tm   string `json:"tm"`
	Drop string `json:"drop"`
}

type scenario struct {
	Writes  []class     `json:"writes"`
	Sched   []string    `json:"sched"`
	Must    []int       `json:"must"`
	Allowed [][]predRow `json:"allowed"`
}

type finding struct {
	Signature string      `json:"signature"`
	Witness   interface{} `json:"witness"`
}

type result struct {
	Scenarios   int            `json:"scenarios"`
	RefRuns     int            `json:"ref_runs"`
	Children    int            `json:"children"`
	Kills       int            `json:"kills"`
	KillPoints  map[string]int `json:"kill_points"`
	Rejected    []string       `json:"rejected_classes"`
	Violations  []finding      `json:"violations"`
	Drift       []finding      `json:"drift"`
	Duplicates  int            `json:"scenarios_with_duplicate_rows"`
	Samples     []interface{}  `json:"samples"`
	Nontrivial  []string       `json:"nontrivial_keys"`
	Infra       string         `json:"infra,omitempty"`
	SigCounts   map[string]int `json:"signature_counts"`
	RowsChecked int            `json:"rows_checked"`
}

var (
	arcBin    string
	tmpBase   string
	batchSize int // wal.recovery_batch_size as resolved by arc's config.Load in the child
)

// time column (microseconds) of the "win"/"mixedwin" columnar class: ordinary values, except the row that
// starts the second recovery window (pre-1970) and, as a control, the row after it (1970-02-27)
func winTimeUS(j int) int64 {
	switch j {
	case batchSize:
		return -1_000_000
	case batchSize + 1:
		return 5_000_000_000_000
	}
	return 1_700_000_000_000_000 + int64(j)
}

// ---------------------------------------------------------------- child handling

type child struct {
	cmd    *exec.Cmd
	in     io.WriteCloser
	out    *bufio.Reader
	stderr string
}

func startChild(dir string) (*child, error) {
	c := exec.Command(arcBin)
	c.Env = append(os.Environ(), "ARC_VERIF_DIR="+dir, "ARC_VERIF_ROLE=serve")
	c.Dir = dir // no arc.toml here: config.Load resolves to the defaults
	in, err := c.StdinPipe()
	if err != nil {
		return nil, err
	}
	out, err := c.StdoutPipe()
	if err != nil {
		return nil, err
	}
	errPath := filepath.Join(dir, fmt.Sprintf("child-%d.stderr", time.Now().UnixNano()))
	ef, err := os.Create(errPath)
	if err != nil {
		return nil, err
	}
	c.Stderr = ef
	if err := c.Start(); err != nil {
		ef.Close()
		return nil, err
	}
	ef.Close()
	return &child{cmd: c, in: in, out: bufio.NewReaderSize(out, 1<<20), stderr: errPath}, nil
}

func (c *child) read() (map[string]interface{}, error) {
	type res struct {
		line string
		err  error
	}
	ch := make(chan res, 1)
	go func() {
		l, err := c.out.ReadString('\n')
		ch <- res{l, err}
	}()
	select {
	case r := <-ch:
		if r.err != nil {
			tail, _ := os.ReadFile(c.stderr)
			if len(tail) > 1500 {
				tail = tail[len(tail)-1500:]
			}
			return nil, fmt.Errorf("child closed stdout: %v; stderr tail: %s", r.err, tail)
		}
		var m map[string]interface{}
		if err := json.Unmarshal([]byte(r.line), &m); err != nil {
			return nil, fmt.Errorf("bad child line %q: %v", r.line, err)
		}
		return m, nil
	case <-time.After(120 * time.Second):
		return nil, fmt.Errorf("child silent for 120s")
	}
}

func (c *child) send(v interface{}) error {
	var b []byte
	if s, ok := v.(string); ok {
		b = []byte(s)
	} else {
		b, _ = json.Marshal(v)
	}
	_, err := c.in.Write(append(b, '\n'))
	return err
}

func (c *child) kill() {
	c.cmd.Process.Signal(syscall.SIGKILL)
	c.cmd.Wait()
}

func (c *child) exit() error {
	if err := c.send(map[string]string{"op": "exit"}); err != nil {
		return err
	}
	if _, err := c.read(); err != nil {
		return err
	}
	c.cmd.Wait()
	return nil
}

type dumpRow struct {
	DB   string                 `json:"db"`
	Meas string                 `json:"meas"`
	File string                 `json:"file"`
	Cols map[string]interface{} `json:"cols"`
}

type dump struct {
	Rows []dumpRow `json:"rows"`
	Wal  []struct {
		File      string        `json:"file"`
		IDs       []interface{} `json:"ids"`
		Entries   int           `json:"entries"`
		Corrupted int           `json:"corrupted"`
		Size      int64         `json:"size"`
	} `json:"wal"`
	Errors []string `json:"errors"`
}

// dump servers: long-lived child processes in role "dumpserver" (one per worker)
var dumpPool chan *child

func startDumpServer() (*child, error) {
	c := exec.Command(arcBin)
	c.Env = append(os.Environ(), "ARC_VERIF_DIR=/nonexistent", "ARC_VERIF_ROLE=dumpserver")
	in, err := c.StdinPipe()
	if err != nil {
		return nil, err
	}
	out, err := c.StdoutPipe()
	if err != nil {
		return nil, err
	}
	c.Stderr = os.Stderr
	if err := c.Start(); err != nil {
		return nil, err
	}
	return &child{cmd: c, in: in, out: bufio.NewReaderSize(out, 1<<20)}, nil
}

func runDump(dir string) (*dump, error) {
	ds := <-dumpPool
	defer func() { dumpPool <- ds }()
	if _, err := ds.in.Write([]byte(dir + "\n")); err != nil {
		return nil, fmt.Errorf("dump server: %v", err)
	}
	line, err := ds.out.ReadString('\n')
	if err != nil {
		return nil, fmt.Errorf("dump server died: %v", err)
	}
	var d dump
	dec := json.NewDecoder(strings.NewReader(line))
	dec.UseNumber()
	if err := dec.Decode(&d); err != nil {
		return nil, fmt.Errorf("dump output: %v", err)
	}
	if len(d.Errors) > 0 {
		return nil, fmt.Errorf("dump could not read parquet: %v", d.Errors)
	}
	return &d, nil
}

func toInt(v interface{}) (int, bool) {
	switch x := v.(type) {
	case json.Number:
		i, err := x.Int64()
		if err != nil {
			f, err2 := x.Float64()
			if err2 != nil {
				return 0, false
			}
			return int(f), true
		}
		return int(i), true
	case float64:
		return int(x), true
	case int64:
		return int(x), true
	}
	return 0, false
}

// ---------------------------------------------------------------- request construction

const (
	spValDB   = "dz"
	spValMeas = "mz"
)

func spVal(sp string) string {
	if strings.Contains(sp, "database") {
		return spValDB
	}
	return spValMeas
}

// instant of row j (0/1) of a write, in seconds (all classes are whole seconds)
func tsSeconds(ts string, j int) int64 {
	j = j % 3000 // all rows of a request stay inside one hour
	switch ts {
	case "neg":
		return -86400 + int64(j)
	case "lt1e10":
		return 5000 + int64(j)
	case "lt1e13":
		return 5_000_000 + int64(j)
	case "far":
		return 11_000_000_000 + int64(j)
	}
	return 1_700_000_000 + int64(j)
}

const idStride = 100000

func rowID(w, j int) int64 { return int64(w*idStride + j + 1) }

type request struct {
	Lock    bool              `json:"lock,omitempty"`
	Op      string            `json:"op"`
	Path    string            `json:"path"`
	Headers map[string]string `json:"headers"`
	Body    string            `json:"body_b64"`
}

func columnar(c class, w int, rows []int) map[string]interface{} {
	cols := map[string]interface{}{}
	var tcol, vcol, fcol, scol, hcol, spcol []interface{}
	for _, j := range rows {
		id := rowID(w, j)
		if c.Ts == "mixedwin" {
			tcol = append(tcol, winTimeUS(j))
		} else {
			tcol = append(tcol, tsSeconds(c.Ts, j))
		}
		vcol = append(vcol, id)
		fcol = append(fcol, float64(id)+0.5)
		scol = append(scol, fmt.Sprintf("s%d", id))
		hcol = append(hcol, fmt.Sprintf("h%d", id))
		spcol = append(spcol, spVal(c.Sp))
	}
	cols["time"], cols["v"], cols["f"], cols["s"], cols["host"] = tcol, vcol, fcol, scol, hcol
	if c.Sp != "none" {
		cols[c.Sp] = spcol
	}
	var m interface{} = "m"
	if c.Mk == "int" {
		m = int64(7)
	}
	return map[string]interface{}{"m": m, "columns": cols}
}

func buildRequest(c class, w int) (request, []int64, error) {
	hdr := map[string]string{"x-arc-database": c.DB, "Content-Type": "application/msgpack"}
	var body []byte
	var err error
	var ids []int64
	for _, j := range allRows(c) {
		ids = append(ids, rowID(w, j))
	}
	path := "/api/v1/write/msgpack"
	switch c.Kind {
	case "raw":
		body, err = msgpack.Marshal(columnar(c, w, allRows(c)))
	case "batch":
		body, err = msgpack.Marshal(map[string]interface{}{"batch": []interface{}{columnar(c, w, allRows(c))}})
	case "array":
		body, err = msgpack.Marshal([]interface{}{columnar(c, w, []int{0}), columnar(c, w, []int{1})})
	case "row":
		id := rowID(w, 0)
		var t int64
		if c.Ts == "normal" {
			t = tsSeconds(c.Ts, 0) * 1000 // milliseconds
		} else {
			t = tsSeconds(c.Ts, 0) // seconds (< 1e10)
		}
		tags := map[string]interface{}{"region": "r"}
		if c.Sp != "none" {
			tags[c.Sp] = spVal(c.Sp)
		}
		var m interface{} = "m"
		if c.Mk == "int" {
			m = int64(7)
		}
		body, err = msgpack.Marshal(map[string]interface{}{"m": m, "t": t, "h": fmt.Sprintf("h%d", id),
			"fields": map[string]interface{}{"v": id, "f": float64(id) + 0.5, "s": fmt.Sprintf("s%d", id)}, "tags": tags})
	case "lp":
		path = "/api/v1/write/line-protocol?precision=us"
		hdr["Content-Type"] = "text/plain"
		var sb strings.Builder
		for _, j := range allRows(c) {
			id := rowID(w, j)
			sb.WriteString("m,host=h")
			sb.WriteString(fmt.Sprint(id))
			if c.Sp != "none" {
				sb.WriteString("," + c.Sp + "=" + spVal(c.Sp))
			}
			fmt.Fprintf(&sb, " v=%di,f=%g,s=\"s%d\" %d\n", id, float64(id)+0.5, id, tsSeconds(c.Ts, j)*1_000_000)
		}
		body = []byte(sb.String())
	default:
		err = fmt.Errorf("unknown kind %s", c.Kind)
	}
	if err != nil {
		return request{}, nil, err
	}
	return request{Op: "write", Path: path, Headers: hdr, Body: base64.StdEncoding.EncodeToString(body)}, ids, nil
}

func attrOf(c class) string {
	switch {
	case c.Sz == "mid" || c.Sz == "big" || c.Sz == "win":
		return "rows=" + c.Sz
	case c.Mk == "int":
		return "m=int"
	case c.Sp != "none":
		return "col=" + c.Sp
	case c.Ts != "normal":
		return "ts=" + c.Ts
	}
	return "plain"
}

func walFmt(c class) string {
	if c.Kind == "raw" {
		return "envelope"
	}
	return "rowrecords"
}

// ---------------------------------------------------------------- canonical rows

type crow struct {
	DB, Meas string
	Cols     map[string]interface{}
}

func canonRows(d *dump) (map[int][]crow, []crow) {
	byID := map[int][]crow{}
	var unid []crow
	for _, r := range d.Rows {
		cr := crow{DB: r.DB, Meas: r.Meas, Cols: r.Cols}
		id, ok := toInt(r.Cols["v"])
		if !ok {
			unid = append(unid, cr)
			continue
		}
		byID[id] = append(byID[id], cr)
	}
	return byID, unid
}

func timeUS(c crow) (int64, bool) {
	m, ok := c.Cols["time"].(map[string]interface{})
	if !ok {
		return 0, false
	}
	n, ok := m["us"].(json.Number)
	if !ok {
		return 0, false
	}
	v, err := n.Int64()
	return v, err == nil
}

func sameRow(a, b crow) bool {
	return a.DB == b.DB && a.Meas == b.Meas && reflect.DeepEqual(a.Cols, b.Cols)
}

// diffKinds names how a recovered row differs from the crash-free one
func diffKinds(exp, got crow) (kinds []string, tm string, dropped []string) {
	tm = "x1"
	if exp.DB != got.DB {
		kinds = append(kinds, "database-changed")
	}
	if exp.Meas != got.Meas {
		kinds = append(kinds, "measurement-changed")
	}
	et, eok := timeUS(exp)
	gt, gok := timeUS(got)
	if eok && gok && et != gt {
		switch {
		case et*1000 == gt:
			tm = "x1e3"
		case et*1_000_000 == gt:
			tm = "x1e6"
		case et/1000 == gt:
			tm = "div1e3"
		default:
			tm = "other"
		}
		kinds = append(kinds, "time-rescaled-"+tm)
	} else if eok != gok {
		kinds = append(kinds, "time-missing")
		tm = "other"
	}
	var names []string
	for k := range exp.Cols {
		names = append(names, k)
	}
	sort.Strings(names)
	valueChanged := false
	for _, k := range names {
		if k == "time" {
			continue
		}
		gv, ok := got.Cols[k]
		if !ok {
			dropped = append(dropped, k)
		} else if !reflect.DeepEqual(gv, exp.Cols[k]) {
			valueChanged = true
		}
	}
	if len(dropped) > 0 {
		kinds = append(kinds, "column-dropped")
	}
	if valueChanged {
		kinds = append(kinds, "value-changed")
	}
	for k := range got.Cols {
		if _, ok := exp.Cols[k]; !ok {
			kinds = append(kinds, "column-added")
			break
		}
	}
	return
}

// ---------------------------------------------------------------- runs

type refRun struct {
	status []int
	rows   map[int][]crow
	err    error
}

func writesKey(ws []class) string {
	b, _ := json.Marshal(ws)
	return string(b)
}

func waitRecovered(c *child) (map[string]interface{}, error) {
	for {
		m, err := c.read()
		if err != nil {
			return nil, err
		}
		switch m["ev"] {
		case "cb-before", "cb-after":
			if err := c.send("go"); err != nil {
				return nil, err
			}
		case "recovered":
			return m, nil
		case "fatal":
			return nil, fmt.Errorf("child fatal: %v", m["err"])
		}
	}
}

func doWrite(c *child, cl class, w int, lock bool) (int, error) {
	req, _, err := buildRequest(cl, w)
	if err != nil {
		return 0, err
	}
	req.Lock = lock
	if err := c.send(req); err != nil {
		return 0, err
	}
	m, err := c.read()
	if err != nil {
		return 0, err
	}
	st, _ := m["status"].(float64)
	if int(st) == 0 {
		return 0, fmt.Errorf("request got no response: %v", m["err"])
	}
	return int(st), nil
}

func cmdExpect(c *child, op, ev string) (map[string]interface{}, error) {
	if err := c.send(map[string]string{"op": op}); err != nil {
		return nil, err
	}
	m, err := c.read()
	if err != nil {
		return nil, err
	}
	if m["ev"] != ev {
		return nil, fmt.Errorf("expected %s, child said %v", ev, m)
	}
	if e, ok := m["err"]; ok {
		return m, fmt.Errorf("%s failed in child: %v", op, e)
	}
	return m, nil
}

func runReference(ws []class, children *int) *refRun {
	r := &refRun{}
	dir, err := os.MkdirTemp(tmpBase, "wr-ref-")
	if err != nil {
		r.err = err
		return r
	}
	defer os.RemoveAll(dir)
	c, err := startChild(dir)
	if err != nil {
		r.err = err
		return r
	}
	*children++
	defer c.kill()
	if _, err := waitRecovered(c); err != nil {
		r.err = err
		return r
	}
	for i, cl := range ws {
		st, err := doWrite(c, cl, i+1, false)
		if err != nil {
			r.err = err
			return r
		}
		r.status = append(r.status, st)
		if st == 204 {
			if _, err := cmdExpect(c, "persist", "persisted"); err != nil {
				r.err = err
				return r
			}
		}
	}
	if m, err := cmdExpect(c, "flush", "flushed"); err != nil {
		r.err = fmt.Errorf("%v (%v)", err, m)
		return r
	}
	if err := c.exit(); err != nil {
		r.err = err
		return r
	}
	d, err := runDump(dir)
	if err != nil {
		r.err = err
		return r
	}
	r.rows, _ = canonRows(d)
	return r
}

type killInfo struct {
	Label string `json:"label"`
	Step  int    `json:"step"`
	wal   map[int]bool
	pq    map[int]bool
	WalN  int `json:"wal_ids"`
	PqN   int `json:"parquet_ids"`
}

type scenarioOutcome struct {
	infra      string
	violations []finding
	drift      []finding
	kills      []killInfo
	children   int
	dups       bool
	rowsCk     int
	sample     interface{}
}

func snapshot(dir string) (map[int]bool, map[int]bool, error) {
	d, err := runDump(dir)
	if err != nil {
		return nil, nil, err
	}
	w, p := map[int]bool{}, map[int]bool{}
	for _, f := range d.Wal {
		for _, v := range f.IDs {
			if id, ok := toInt(v); ok {
				w[id] = true
			}
		}
	}
	for _, r := range d.Rows {
		if id, ok := toInt(r.Cols["v"]); ok {
			p[id] = true
		}
	}
	return w, p, nil
}

func runScenario(sc scenario, ref *refRun) (o scenarioOutcome) {
	dir, err := os.MkdirTemp(tmpBase, "wr-sc-")
	if err != nil {
		o.infra = err.Error()
		return
	}
	defer os.RemoveAll(dir)
	var c *child
	defer func() {
		if c != nil {
			c.kill()
		}
	}()
	start := func() error {
		var err error
		c, err = startChild(dir)
		o.children++
		return err
	}
	if err := start(); err != nil {
		o.infra = err.Error()
		return
	}
	if _, err := waitRecovered(c); err != nil {
		o.infra = "first start: " + err.Error()
		return
	}
	nextW := 0
	replayFailed, retried := map[int]bool{}, map[int]bool{}
	reusedBuf := map[int]bool{} // writes whose request buffer was overwritten while the entry was queued
	acked := map[int]bool{}
	durableAt := map[int]int{} // write index -> schedule step at which it became durable (WAL file or Parquet)
	var pending []int          // acknowledged by this incarnation, WAL append still held
	var buffered []int         // acknowledged by this incarnation, not yet flushed
	replayedThisIncarnation := 0
	flushedSinceStart := false
	recoveryIncarnation := false
	kill := func(label string, step int) error {
		c.kill()
		c = nil
		w, p, err := snapshot(dir)
		if err != nil {
			return err
		}
		o.kills = append(o.kills, killInfo{Label: label, Step: step, wal: w, pq: p, WalN: len(w), PqN: len(p)})
		return nil
	}
	i := 0
	for i < len(sc.Sched) {
		lab := sc.Sched[i]
		switch lab {
		case "w", "wu":
			reusedBuf[nextW+1] = lab == "wu"
			st, err := doWrite(c, sc.Writes[nextW], nextW+1, lab == "wu")
			if err == nil && lab == "wu" {
				// the handler has answered; now the caller's request buffer is reused while the entry is queued
				if m, e2 := cmdExpect(c, "reuse", "reused"); e2 != nil {
					err = e2
				} else if n, _ := m["bytes"].(float64); n == 0 && st == 204 {
					err = fmt.Errorf("pass-through write handed no raw payload to the WAL writer")
				}
			}
			if err != nil {
				o.infra = fmt.Sprintf("step %d write: %v", i, err)
				return
			}
			if st != ref.status[nextW] {
				o.infra = fmt.Sprintf("step %d: status %d differs from the crash-free run's %d for the same request", i, st, ref.status[nextW])
				return
			}
			if st == 204 {
				acked[nextW+1] = true
				pending = append(pending, nextW+1)
				buffered = append(buffered, nextW+1)
			}
			nextW++
		case "p":
			// a rejected write enqueued nothing (or its entry is not an obligation): skip silently
			m, err := cmdExpect(c, "persist", "persisted")
			if err != nil {
				o.infra = fmt.Sprintf("step %d persist: %v", i, err)
				return
			}
			if rel, _ := m["released"].(bool); rel && len(pending) > 0 {
				if _, ok := durableAt[pending[0]]; !ok {
					durableAt[pending[0]] = i
				}
				pending = pending[1:]
			}
		case "f":
			if _, err := cmdExpect(c, "flush", "flushed"); err != nil {
				o.infra = fmt.Sprintf("step %d flush: %v", i, err)
				return
			}
			flushedSinceStart = true
			for _, w := range buffered {
				if _, ok := durableAt[w]; !ok {
					durableAt[w] = i
				}
			}
			buffered = nil
		case "x":
			label := "live"
			if recoveryIncarnation && !flushedSinceStart && replayedThisIncarnation > 0 {
				label = "after-recovery-before-flush"
			}
			if err := kill(label, i); err != nil {
				o.infra = err.Error()
				return
			}
		case "s":
			// plan the recovery phase from the labels that follow
			nR := 0
			failStep := map[int]bool{}
			stopAt, stopN := "", 0
			j := i + 1
			for ; j < len(sc.Sched); j++ {
				l := sc.Sched[j]
				if l == "r" {
					nR++
				} else if l == "rf" {
					nR++
					failStep[nR] = true
				} else if l == "xa" {
					stopAt, stopN = "cb-after", nR
					break
				} else if l == "xb" {
					stopAt, stopN = "cb-before", nR+1
					break
				} else if l == "R" {
					break
				} else if l != "d" && l != "k" {
					o.infra = "unexpected label in recovery phase: " + l
					return
				}
			}
			if err := start(); err != nil {
				o.infra = err.Error()
				return
			}
			recoveryIncarnation, flushedSinceStart, replayedThisIncarnation = true, false, 0
			pending, buffered = nil, nil
			killed := false
			// one "r" of the specification = the replay of all WAL entries of one request (an
			// array request makes one entry per item); callbacks are grouped by the row ids
			done, inGroup := 0, map[int]int{}
			for {
				m, err := c.read()
				if err != nil {
					o.infra = fmt.Sprintf("step %d recovery: %v", i, err)
					return
				}
				ev, _ := m["ev"].(string)
				if ev == "cb-before" || ev == "cb-after" {
					w, cnt := 0, 0
					if id, ok := toInt(m["first"]); ok {
						w = id / idStride
					}
					if c, ok := m["count"].(float64); ok {
						cnt = int(c)
					}
					if w < 1 || w > len(sc.Writes) {
						o.infra = fmt.Sprintf("replayed entry without a known row id: %v", m)
						return
					}
					per := rowsOf(sc.Writes[w-1]) // a step is complete when every row of the request was replayed
					if ev == "cb-before" && inGroup[w]%per == 0 && failStep[done+1] {
						// scripted transient failure of this entry's callback
						if err := c.send("fail"); err != nil {
							o.infra = err.Error()
							return
						}
						done++
						replayFailed[w] = true
						continue
					}
					if ev == "cb-after" {
						inGroup[w] += cnt
						if inGroup[w]%per == 0 {
							done++
							replayedThisIncarnation = done
							if replayFailed[w] {
								retried[w] = true
							}
						}
					}
					hit := false
					if stopAt == "cb-after" && ev == "cb-after" && done == stopN && inGroup[w]%per == 0 {
						hit = true
					}
					if stopAt == "cb-before" && ev == "cb-before" && done == stopN-1 && inGroup[w]%per == 0 {
						hit = true
					}
					if hit {
						label := "recovery-after-replay-before-file-delete"
						if ev == "cb-before" {
							if stopN == 1 {
								label = "recovery-before-first-replay"
							} else {
								label = "recovery-after-file-delete"
							}
						}
						if err := kill(label, j); err != nil {
							o.infra = err.Error()
							return
						}
						killed = true
						break
					}
					if err := c.send("go"); err != nil {
						o.infra = err.Error()
						return
					}
					continue
				}
				if ev == "recovered" {
					if stopAt != "" {
						o.drift = append(o.drift, finding{"recovery-finished-before-the-scripted-crash-point",
							map[string]interface{}{"writes": sc.Writes, "sched": sc.Sched, "wanted": fmt.Sprintf("%s %d", stopAt, stopN), "callbacks": m["callbacks"]}})
						// continue as if the crash happened right after recovery
						if err := kill("after-recovery-before-flush", j); err != nil {
							o.infra = err.Error()
							return
						}
						killed = true
					} else if done != nR {
						o.drift = append(o.drift, finding{"replayed-entry-count-differs-from-WalRecover.tla",
							map[string]interface{}{"writes": sc.Writes, "sched": sc.Sched, "predicted": nR, "real": done, "cb_errors": m["cb_errors"]}})
					}
					break
				}
				if ev == "fatal" {
					o.infra = fmt.Sprintf("child fatal: %v", m["err"])
					return
				}
			}
			if killed {
				i = j // the crash label is consumed
			} else {
				i = j // at "R" (or end)
			}
		case "r", "d", "R":
			// consumed by the "s" planning; reaching them here means the schedule is malformed
		case "F":
			if _, err := cmdExpect(c, "flush", "flushed"); err != nil {
				o.infra = fmt.Sprintf("final flush: %v", err)
				return
			}
			if err := c.exit(); err != nil {
				o.infra = "exit: " + err.Error()
				return
			}
			c = nil
		default:
			o.infra = "unknown label " + lab
			return
		}
		i++
	}
	d, err := runDump(dir)
	if err != nil {
		o.infra = err.Error()
		return
	}
	got, unid := canonRows(d)
	wit := func(extra map[string]interface{}) map[string]interface{} {
		m := map[string]interface{}{"writes": sc.Writes, "sched": strings.Join(sc.Sched, " "), "kills": o.kills}
		for k, v := range extra {
			m[k] = v
		}
		return m
	}
	if len(unid) > 0 {
		o.violations = append(o.violations, finding{"recovered-row-without-id-column", wit(map[string]interface{}{"row": unid[0]})})
	}
	must := map[int]bool{}
	for _, w := range sc.Must {
		must[w] = true
	}
	real := map[string]bool{} // abstract outcome for the drift detector
	for w := 1; w <= len(sc.Writes); w++ {
		cl := sc.Writes[w-1]
		for _, j := range allRows(cl) {
			id := int(rowID(w, j))
			exp, inRef := ref.rows[id]
			if !inRef {
				continue // the crash-free run stores no such row (rejected request, or a one-row kind)
			}
			o.rowsCk++
			rows := got[id]
			if len(rows) > 1 {
				o.dups = true
			}
			if len(rows) == 0 {
				if !must[w] {
					continue // never durable: the property does not speak about it
				}
				// where did it stop being durable?
				mech := "not-restored-although-durable:" + walFmt(cl) + ":" + attrOf(cl)
				if replayFailed[w] && !retried[w] {
					mech = "wal-file-deleted-although-replay-callback-failed"
				}
				everInWal := false
				for _, k := range o.kills {
					if at, ok := durableAt[w]; !ok || k.Step < at {
						continue
					}
					if k.wal[id] {
						everInWal = true
					}
					if !k.wal[id] && !k.pq[id] {
						if !everInWal && k.Label == "live" && reusedBuf[w] {
							mech = "wal-entry-corrupted-by-request-buffer-reuse:" + walFmt(cl)
						} else if !everInWal && k.Label == "live" {
							mech = "wal-entry-unreadable:" + walFmt(cl) + ":" + attrOf(cl)
						} else if replayFailed[w] && !retried[w] {
							mech = "wal-file-deleted-although-replay-callback-failed"
						} else if k.Label == "after-recovery-before-flush" || k.Label == "recovery-after-file-delete" {
							mech = "wal-file-deleted-before-replayed-rows-flushed"
						} else {
							mech = "not-durable-at-crash:" + k.Label
						}
						break
					}
				}
				addOnce(&o, "row-missing:"+mech, wit(map[string]interface{}{"row_id": id, "expected": exp[0]}))
				continue
			}
			for _, g := range rows {
				if sameRow(exp[0], g) {
					real[fmt.Sprintf("%d|%s|%s|x1|none", w, "same", "same")] = true
					continue
				}
				kinds, tm, dropped := diffKinds(exp[0], g)
				addOnce(&o, "row-changed:"+walFmt(cl)+":"+attrOf(cl)+":"+strings.Join(kinds, "+"),
					wit(map[string]interface{}{"row_id": id, "expected": exp[0], "recovered": g}))
				dbc, mc := "same", "same"
				if exp[0].DB != g.DB {
					dbc = g.DB
				}
				if exp[0].Meas != g.Meas {
					mc = g.Meas
				}
				dr := "none"
				if len(dropped) > 0 {
					dr = strings.Join(dropped, ",")
				}
				real[fmt.Sprintf("%d|%s|%s|%s|%s", w, dbc, mc, tm, dr)] = true
			}
		}
	}
	for id, rows := range got {
		if _, ok := ref.rows[id]; !ok {
			o.violations = append(o.violations, finding{"row-not-in-crash-free-run", wit(map[string]interface{}{"row_id": id, "recovered": rows[0]})})
		}
	}
	// drift detector: does one of the TLC-predicted terminal states match?
	if len(sc.Allowed) > 0 {
		match := false
		var preds []map[string]bool
		for _, a := range sc.Allowed {
			p := map[string]bool{}
			for _, r := range a {
				cl := sc.Writes[r.ID-1]
				if _, inRef := ref.rows[int(rowID(r.ID, 0))]; !inRef {
					continue
				}
				dbc, mc := "same", "same"
				if r.DB != cl.DB {
					dbc = r.DB
				}
				if r.Meas != "m" {
					mc = r.Meas
				}
				p[fmt.Sprintf("%d|%s|%s|%s|%s", r.ID, dbc, mc, r.Tm, r.Drop)] = true
			}
			preds = append(preds, p)
			if reflect.DeepEqual(p, real) {
				match = true
			}
		}
		if !match {
			o.drift = append(o.drift, finding{"recovered-state-differs-from-WalRecover.tla",
				wit(map[string]interface{}{"real": keys(real), "predicted": predKeys(preds)})})
		}
	}
	o.sample = map[string]interface{}{"writes": sc.Writes, "sched": strings.Join(sc.Sched, " "), "kills": o.kills,
		"recovered_rows": len(d.Rows), "violations": len(o.violations)}
	return
}

func addOnce(o *scenarioOutcome, sig string, w interface{}) {
	for _, v := range o.violations {
		if v.Signature == sig {
			return
		}
	}
	o.violations = append(o.violations, finding{sig, w})
}

func keys(m map[string]bool) []string {
	var out []string
	for k := range m {
		out = append(out, k)
	}
	sort.Strings(out)
	return out
}

func predKeys(ps []map[string]bool) [][]string {
	var out [][]string
	for _, p := range ps {
		out = append(out, keys(p))
	}
	return out
}

func main() {
	scen := flag.String("scenarios", "", "json: list of scenarios")
	outp := flag.String("out", "", "result json")
	workers := flag.Int("workers", 6, "parallel scenarios")
	flag.StringVar(&arcBin, "child", "", "walrecoverchild binary")
	extract := flag.String("extract", "", "path of cmd/arc/main.go: write the generated internal/verifwalcb file to -out and exit")
	flag.Parse()
	if *extract != "" {
		gen, err := walrecoverextract.Extract(*extract, "verifwalcb",
			[]string{"createWALRecoveryCallback", "createColumnarRecoveryCallback"}, verifwalcbTrailer)
		if err != nil {
			fatal(err)
		}
		if err := os.WriteFile(*outp, gen, 0o644); err != nil {
			fatal(err)
		}
		return
	}
	if st, err := os.Stat("/dev/shm"); err == nil && st.IsDir() {
		tmpBase = "/dev/shm"
	}
	b, err := os.ReadFile(*scen)
	if err != nil {
		fatal(err)
	}
	var scs []scenario
	if err := json.Unmarshal(b, &scs); err != nil {
		fatal(err)
	}
	res := result{KillPoints: map[string]int{}, SigCounts: map[string]int{}}
	{
		c := exec.Command(arcBin)
		c.Env = append(os.Environ(), "ARC_VERIF_DIR=/nonexistent", "ARC_VERIF_ROLE=config")
		c.Dir = os.TempDir()
		ob, err := c.Output()
		var cf struct {
			N int `json:"recovery_batch_size"`
		}
		if err != nil || json.Unmarshal(ob, &cf) != nil || cf.N <= 0 || cf.N+2 >= idStride {
			fatal(fmt.Errorf("cannot use the child's wal.recovery_batch_size (%v, %q)", err, string(ob)))
		}
		batchSize = cf.N
	}
	dumpPool = make(chan *child, *workers)
	for i := 0; i < *workers; i++ {
		ds, err := startDumpServer()
		if err != nil {
			fatal(err)
		}
		dumpPool <- ds
		defer ds.kill()
	}

	// crash-free reference runs, one per distinct history
	refs := map[string]*refRun{}
	var order []string
	for _, sc := range scs {
		k := writesKey(sc.Writes)
		if _, ok := refs[k]; !ok {
			refs[k] = nil
			order = append(order, k)
		}
	}
	var mu sync.Mutex
	sem := make(chan struct{}, *workers)
	var wg sync.WaitGroup
	byKey := map[string][]class{}
	for _, sc := range scs {
		byKey[writesKey(sc.Writes)] = sc.Writes
	}
	for _, k := range order {
		wg.Add(1)
		sem <- struct{}{}
		go func(k string) {
			defer wg.Done()
			defer func() { <-sem }()
			n := 0
			r := runReference(byKey[k], &n)
			mu.Lock()
			refs[k] = r
			res.Children += n
			res.RefRuns++
			mu.Unlock()
		}(k)
	}
	wg.Wait()
	rej := map[string]bool{}
	for k, r := range refs {
		if r.err != nil {
			res.Infra = fmt.Sprintf("crash-free run of %s: %v", k, r.err)
			break
		}
		for i, st := range r.status {
			if st != 204 {
				cb, _ := json.Marshal(byKey[k][i])
				rej[fmt.Sprintf("%s -> %d", cb, st)] = true
			}
		}
	}
	for k := range rej {
		res.Rejected = append(res.Rejected, k)
	}
	sort.Strings(res.Rejected)

	if res.Infra == "" {
		seenSig := map[string]bool{}
		seenDrift := map[string]bool{}
		nontriv := map[string]bool{}
		for si := range scs {
			wg.Add(1)
			sem <- struct{}{}
			go func(sc scenario, si int) {
				defer wg.Done()
				defer func() { <-sem }()
				o := runScenario(sc, refs[writesKey(sc.Writes)])
				mu.Lock()
				defer mu.Unlock()
				res.Scenarios++
				res.Children += o.children
				res.Kills += len(o.kills)
				res.RowsChecked += o.rowsCk
				for _, k := range o.kills {
					res.KillPoints[k.Label]++
				}
				if o.dups {
					res.Duplicates++
				}
				if o.infra != "" && res.Infra == "" {
					res.Infra = fmt.Sprintf("scenario %v / %v: %s", sc.Writes, sc.Sched, o.infra)
				}
				if len(o.kills) > 0 {
					nontriv[writesKey(sc.Writes)+"|"+strings.Join(sc.Sched, "")] = true
				}
				for _, v := range o.violations {
					res.SigCounts[v.Signature]++
					if !seenSig[v.Signature] {
						seenSig[v.Signature] = true
						res.Violations = append(res.Violations, v)
					}
				}
				for _, d := range o.drift {
					if !seenDrift[d.Signature] {
						seenDrift[d.Signature] = true
						res.Drift = append(res.Drift, d)
					}
				}
				if o.sample != nil && len(res.Samples) < 5 && si%97 == 3 {
					res.Samples = append(res.Samples, o.sample)
				}
			}(scs[si], si)
		}
		wg.Wait()
		for k := range nontriv {
			res.Nontrivial = append(res.Nontrivial, k)
		}
		sort.Strings(res.Nontrivial)
	}
	sort.Slice(res.Violations, func(i, j int) bool { return res.Violations[i].Signature < res.Violations[j].Signature })
	ob, _ := json.MarshalIndent(res, "", " ")
	if err := os.WriteFile(*outp, ob, 0o644); err != nil {
		fatal(err)
	}
}

const verifwalcbTrailer = `// RowCallback exposes createWALRecoveryCallback (copied verbatim from cmd/arc/main.go).
func RowCallback(b *ingest.ArrowBuffer, l zerolog.Logger) wal.RecoveryCallback {
	return createWALRecoveryCallback(b, l)
}

// ColumnarCallback exposes createColumnarRecoveryCallback (copied verbatim from cmd/arc/main.go).
func ColumnarCallback(b *ingest.ArrowBuffer, l zerolog.Logger) wal.ColumnarRecoveryCallback {
	return createColumnarRecoveryCallback(b, l)
}
`

func fatal(err error) {
	fmt.Fprintln(os.Stderr, "walrecover:", err)
	os.Exit(2)
}

// Command puller is the C25 replay driver. Every behaviour enumerated by TLC from
// specs/puller/Puller.tla (file size, staging file left by earlier attempts, sequence of
// per-attempt fetch outcomes) is replayed against the real filereplication.Puller, the real
// filereplication.FetchClient and the real storage.LocalBackend. The peer is a scripted TCP
// server on the loop-back interface speaking arc's cluster protocol (real protocol codec):
// it applies the scripted defect of the attempt to real bytes. One outcome is consumed per
// PeerResolver.ResolvePeers call, which is also the observation point for the state left by
// the previous attempt. After every attempt and every processEntry run the bytes at the final
// path and at the ".part" path and the puller counters are read and judged against the
// property; TLC's prediction for the same behaviour is compared as a drift detector only.
package main

import (
	"bytes"
	"context"
	"crypto/sha256"
	"encoding/hex"
	"encoding/json"
	"flag"
	"fmt"
	"io"
	"net"
	"os"
	"path/filepath"
	"strings"
	"sync"
	"time"

	"github.com/basekick-labs/arc/internal/cluster/filereplication"
	"github.com/basekick-labs/arc/internal/cluster/protocol"
	"github.com/basekick-labs/arc/internal/cluster/raft"
	"github.com/basekick-labs/arc/internal/storage"
	"github.com/rs/zerolog"
)

type obs struct {
	Final    string `json:"final"`
	Plen     int    `json:"plen"`
	Pok      bool   `json:"pok"`
	Pulled   int64  `json:"pulled"`
	Skipped  int64  `json:"skipped"`
	Failed   int64  `json:"failed"`
	Mismatch int64  `json:"mismatch"`
}

type event struct {
	Ev        string `json:"ev"`
	Size      int    `json:"size,omitempty"`
	Plen      int    `json:"plen,omitempty"`
	Pok       bool   `json:"pok,omitempty"`
	Calm      bool   `json:"calm,omitempty"`
	T         string `json:"t,omitempty"`
	K         int    `json:"k,omitempty"`
	Att       int    `json:"att,omitempty"`
	Offset    int    `json:"offset,omitempty"`
	Succeeded bool   `json:"succeeded,omitempty"`
	X         bool   `json:"x,omitempty"`
	Np        int    `json:"np,omitempty"` // candidate peers offered to this attempt
	T2        string `json:"t2,omitempty"` // outcome scripted for the second candidate ("none": no such candidate)
	K2        int    `json:"k2,omitempty"`
	X2        bool   `json:"x2,omitempty"`
	Offset2   int    `json:"offset2,omitempty"`
	Final     string `json:"final,omitempty"` // "mid" events: state when the backend's write call returned
	Obs       *obs   `json:"obs,omitempty"`
	// real run only: OffsetSeen = the scripted peer received the request (so Offset is an observation)
	OffsetSeen  bool `json:"offset_seen,omitempty"`
	Offset2Seen bool `json:"offset2_seen,omitempty"`
	CaughtUp    bool `json:"caught,omitempty"` // Puller.FullyCaughtUp() at the end of a processEntry run
}

type outcome struct {
	T string `json:"t"`
	K int    `json:"k"`
}

// plan of one attempt: the candidates the resolver offers and the outcome scripted for each
type plan struct {
	Np int     `json:"np"`
	O1 outcome `json:"o1"`
	O2 outcome `json:"o2"`
	X2 bool    `json:"second_served_after_script_end,omitempty"`
}

// midBackend is the recording proxy around the real LocalBackend: the puller's write goroutine calls it, and when the real
// WriteReader / AppendReader has returned (the puller has not post-processed the fetch yet) it calls back so that the
// driver can look at the final path in that intermediate state.
type midBackend struct {
	*storage.LocalBackend
	after func()
}

func (m *midBackend) WriteReader(ctx context.Context, path string, reader io.Reader, size int64) error {
	err := m.LocalBackend.WriteReader(ctx, path, reader, size)
	m.after()
	return err
}

func (m *midBackend) AppendReader(ctx context.Context, path string, reader io.Reader, appendSize int64) error {
	err := m.LocalBackend.AppendReader(ctx, path, reader, appendSize)
	m.after()
	return err
}

type finding struct {
	Signature string                 `json:"signature"`
	Witness   map[string]interface{} `json:"witness"`
}

type result struct {
	Scenarios         int            `json:"scenarios"`
	Runs              int            `json:"runs"`
	Attempts          int            `json:"attempts"`
	Sessions          int            `json:"sessions"`
	CalmRuns          int            `json:"calm_runs"`
	PerOutcome        map[string]int `json:"per_outcome"`
	Resumes           int            `json:"resumed_attempts"`
	TwoPeerAttempts   int            `json:"two_candidate_attempts"`
	SecondPeerFetches int            `json:"second_candidate_fetches"`
	MidObservations   int            `json:"mid_attempt_observations"`
	Promotions        int            `json:"promotions"`
	Keys              []string       `json:"nontrivial_keys"`
	Violations        []finding      `json:"violations"`
	Drift             []finding      `json:"drift"`
	Samples           []interface{}  `json:"samples"`
	Infra             string         `json:"infra,omitempty"`
	ScalesUsed        map[string]int `json:"scales_used"`
	WallSeconds       float64        `json:"wall_s"`
}

// ---------------------------------------------------------------- scripted peer

type peer struct {
	ln   net.Listener
	addr string

	mu      sync.Mutex
	cur     outcome
	good    []byte
	sha     string
	scale   int
	sub     int // byte inside the unit that a "corrupt" outcome flips
	lastOff int64
	sawReq  bool
	wg      sync.WaitGroup
}

func newPeer() (*peer, error) {
	ln, err := net.Listen("tcp", "127.0.0.1:0")
	if err != nil {
		return nil, err
	}
	p := &peer{ln: ln, addr: ln.Addr().String()}
	go p.loop()
	return p, nil
}

func (p *peer) loop() {
	for {
		c, err := p.ln.Accept()
		if err != nil {
			return
		}
		p.wg.Add(1)
		go func() {
			defer p.wg.Done()
			p.serve(c)
		}()
	}
}

func (p *peer) serve(c net.Conn) {
	defer c.Close()
	defer func() { _ = recover() }() // a malformed request ends the connection, never the driver
	msg, err := protocol.ReceiveMessage(c, 20*time.Second)
	if err != nil {
		return
	}
	req, ok := msg.Payload.(*protocol.FetchFileRequest)
	if !ok {
		return
	}
	p.mu.Lock()
	cur, good, sha, scale, sub := p.cur, p.good, p.sha, p.scale, p.sub
	p.lastOff = req.ByteOffset
	p.sawReq = true
	p.mu.Unlock()

	send := func(a *protocol.FetchFileAckHeader) bool {
		return protocol.SendMessage(c, &protocol.Message{Type: protocol.MsgFetchFileAck, Payload: a}, 20*time.Second) == nil
	}
	// a request the script did not anticipate is answered as arc's own fetch handler (Coordinator.handleFetchFile) would:
	// an offset outside [0, size) is rejected with bad_offset whatever the scripted outcome is
	off := req.ByteOffset
	if off < 0 || off >= int64(len(good)) {
		send(&protocol.FetchFileAckHeader{Status: "error", Code: protocol.AckCodeBadOffset,
			Error: fmt.Sprintf("invalid byte offset %d for file size %d", off, len(good))})
		return
	}
	tail := good[off:]
	okAck := &protocol.FetchFileAckHeader{Status: "ok", SizeBytes: int64(len(tail)), SHA256: sha, ByteOffset: req.ByteOffset}
	tailUnits := len(tail) / scale
	d := cur.K
	if d > tailUnits-1 {
		d = tailUnits - 1
	}
	if d < 0 {
		d = 0
	}
	switch cur.T {
	case "errack":
		send(&protocol.FetchFileAckHeader{Status: "error", Code: protocol.AckCodeBackend, Error: "backend unavailable"})
	case "notfound":
		send(&protocol.FetchFileAckHeader{Status: "error", Code: protocol.AckCodeNotFound, Error: protocol.ErrMsgFileNotFound})
	case "badoffset":
		send(&protocol.FetchFileAckHeader{Status: "error", Code: protocol.AckCodeBadOffset, Error: "offset rejected"})
	case "wrongsize":
		a := *okAck
		a.SizeBytes++
		if send(&a) {
			c.Write(tail)
			c.Write([]byte{0x5a})
		}
	case "wronghash":
		a := *okAck
		other := sha256.Sum256(append([]byte("x"), good...))
		a.SHA256 = hex.EncodeToString(other[:])
		if send(&a) {
			c.Write(tail)
		}
	case "trunc":
		if send(okAck) {
			c.Write(tail[:d*scale])
		}
	case "corrupt":
		if send(okAck) {
			b := append([]byte(nil), tail...)
			b[d*scale+sub%scale] ^= 0x41
			c.Write(b)
		}
	case "ok":
		if send(okAck) {
			c.Write(tail)
		}
	default:
		// "dial"/"none" candidates are not expected to be contacted; if the code under test comes here anyway
		// (more requests than the script anticipated) the peer serves the file correctly
		if send(okAck) {
			c.Write(tail)
		}
	}
}

// ---------------------------------------------------------------- one scenario

type resolver struct {
	fn func() []string
}

func (r resolver) ResolvePeers(origin, path string) []string { return r.fn() }

type runner struct {
	peer    *peer
	peer2   *peer
	base    string
	maxSess int
	retry   int
	res     *result
	n       int
}

func goodBytes(n int, salt int) []byte {
	b := make([]byte, n)
	x := uint32(2463534242 + salt*7919)
	for i := range b {
		x ^= x << 13
		x ^= x >> 17
		x ^= x << 5
		b[i] = byte(x >> 11)
	}
	return b
}

func classify(root, rel string, good []byte, scale int) (final string, plen int, pok bool, raw map[string]interface{}) {
	raw = map[string]interface{}{}
	fb, err := os.ReadFile(filepath.Join(root, rel))
	switch {
	case err == nil && bytes.Equal(fb, good):
		final = "good"
	case err == nil:
		final = "bad"
		raw["final_len"] = len(fb)
	case os.IsNotExist(err):
		final = "absent"
	default:
		final = "error:" + err.Error()
	}
	pb, err := os.ReadFile(filepath.Join(root, rel+".part"))
	if err != nil {
		if !os.IsNotExist(err) {
			raw["part_err"] = err.Error()
		}
		return final, -1, true, raw
	}
	raw["part_bytes"] = len(pb)
	pok = len(pb) <= len(good) && bytes.Equal(pb, good[:len(pb)])
	if len(pb)%scale == 0 {
		plen = len(pb) / scale
	} else {
		plen = len(pb)/scale + 1
		raw["part_unaligned"] = true
	}
	return final, plen, pok, raw
}

func stagingClass(plen, size int) string {
	switch {
	case plen < 0:
		return "absent"
	case plen < size:
		return "short"
	case plen == size:
		return "size-match"
	default:
		return "oversize"
	}
}

func (r *runner) violation(sig string, w map[string]interface{}) {
	for _, v := range r.res.Violations {
		if v.Signature == sig {
			return
		}
	}
	r.res.Violations = append(r.res.Violations, finding{sig, w})
}

func (r *runner) drift(sig string, w map[string]interface{}) {
	if len(r.res.Drift) < 5 {
		r.res.Drift = append(r.res.Drift, finding{sig, w})
	}
}

func (r *runner) run(hist []event, scale int) error {
	r.n++
	init := hist[0]
	size := init.Size
	good := goodBytes(size*scale, r.n)
	sum := sha256.Sum256(good)
	sha := hex.EncodeToString(sum[:])
	// the scripted plans are those consumed before the model's script ended (x = false); after that the driver serves
	// one candidate that succeeds, as the model does
	var script []plan
	for _, e := range hist {
		if e.Ev == "attempt" && !e.X {
			script = append(script, plan{Np: e.Np, O1: outcome{e.T, e.K}, O2: outcome{e.T2, e.K2}, X2: e.X2})
		}
	}
	root := filepath.Join(r.base, fmt.Sprintf("r%d", r.n))
	if err := os.MkdirAll(root, 0o700); err != nil {
		return err
	}
	defer os.RemoveAll(root)
	rel := fmt.Sprintf("db/cpu/2026/01/02/03/f%d.parquet", r.n)
	if init.Plen >= 0 {
		var pb []byte
		switch {
		case init.Plen > size:
			pb = append(append([]byte(nil), good...), bytes.Repeat([]byte{0x77}, scale)...)
		default:
			pb = append([]byte(nil), good[:init.Plen*scale]...)
			if !init.Pok {
				pb[0] ^= 0x24
			}
		}
		if err := os.MkdirAll(filepath.Dir(filepath.Join(root, rel)), 0o700); err != nil {
			return err
		}
		if err := os.WriteFile(filepath.Join(root, rel+".part"), pb, 0o600); err != nil {
			return err
		}
	}
	backend, err := storage.NewLocalBackend(root, zerolog.Nop())
	if err != nil {
		return err
	}
	fc, err := filereplication.NewFetchClient(filereplication.FetchClient{SelfNodeID: "replica", ClusterName: "verif",
		SharedSecret: "s3cret", DialTimeout: 5 * time.Second, ResponseHeaderTimeout: 20 * time.Second})
	if err != nil {
		return err
	}

	entry := &raft.FileEntry{Path: rel, SHA256: sha, SizeBytes: int64(len(good)), Database: "db", Measurement: "cpu",
		OriginNodeID: "origin", Tier: "hot"}

	var (
		mu        sync.Mutex
		real      []event
		pos       int
		exhausted bool
		attInSess int
		pending   *event
		lastType  string
		mids      int
		pl        *filereplication.Puller
	)
	peers := []*peer{r.peer, r.peer2}
	real = append(real, event{Ev: "init", Size: size, Plen: init.Plen, Pok: init.Pok})
	snapshot := func() (*obs, map[string]interface{}) {
		f, plen, pok, raw := classify(root, rel, good, scale)
		st := pl.Stats()
		return &obs{Final: f, Plen: plen, Pok: pok, Pulled: st["pulled"], Skipped: st["skipped_local"], Failed: st["failed"],
			Mismatch: st["checksum_mismatch"]}, raw
	}
	witness := func(extra map[string]interface{}) map[string]interface{} {
		w := map[string]interface{}{"size_units": size, "unit_bytes": scale, "initial_part_units": init.Plen, "initial_part_is_prefix": init.Pok,
			"outcomes": script, "retry_max_attempts": r.retry, "real_events": append([]event(nil), real...)}
		for k, v := range extra {
			w[k] = v
		}
		return w
	}
	judgeFinal := func(o *obs, raw map[string]interface{}, after string) {
		if o.Final != "absent" && o.Final != "good" {
			sig := "bad-final:" + strings.SplitN(o.Final, ":", 2)[0] + ":after=" + after
			r.violation(sig, witness(map[string]interface{}{"raw": raw}))
		}
	}
	// close the pending attempt (fill in what the server saw) and log the state it left
	closeAttempt := func(kind string) (*obs, map[string]interface{}) {
		o, raw := snapshot()
		if pending != nil {
			for i, pr := range peers {
				pr.mu.Lock()
				if pr.sawReq {
					if i == 0 {
						pending.Offset, pending.OffsetSeen = int(pr.lastOff)/scale, true
					} else {
						pending.Offset2, pending.Offset2Seen = int(pr.lastOff)/scale, true
						r.res.SecondPeerFetches++
					}
					if pr.lastOff > 0 {
						r.res.Resumes++
					}
				}
				pr.sawReq = false
				pr.mu.Unlock()
			}
			real = append(real, *pending)
			lastType = pending.T
			if pending.Np == 0 {
				lastType = "nopeer"
			}
			if pending.Offset2Seen {
				lastType = pending.T2
			}
			judgeFinal(o, raw, pending.T)
			pending = nil
		}
		return o, raw
	}
	res := resolver{fn: func() []string {
		mu.Lock()
		defer mu.Unlock()
		if attInSess > 0 {
			o, _ := closeAttempt("obs")
			real = append(real, event{Ev: "obs", Obs: o})
		}
		attInSess++
		var pn plan
		x1 := false
		if pos < len(script) && !exhausted {
			pn = script[pos]
			pos++
			if pn.X2 {
				exhausted = true // the script ends after the first candidate's outcome; the second one just works
			}
		} else {
			exhausted = true
			x1 = true
			pn = plan{Np: 1, O1: outcome{"ok", 0}, O2: outcome{"none", 0}}
		}
		mids = 0
		r.res.Attempts++
		if pn.Np == 0 {
			r.res.PerOutcome["nopeer"]++
		}
		pending = &event{Ev: "attempt", Np: pn.Np, Att: attInSess, T: pn.O1.T, K: pn.O1.K, X: x1, Offset: -1,
			T2: pn.O2.T, K2: pn.O2.K, X2: pn.X2, Offset2: -1}
		var addrs []string
		for i, oc := range []outcome{pn.O1, pn.O2} {
			if i >= pn.Np {
				break
			}
			r.res.PerOutcome[oc.T]++
			pr := peers[i]
			pr.mu.Lock()
			pr.cur, pr.good, pr.sha, pr.scale, pr.sub = oc, good, sha, scale, r.n*31
			pr.sawReq = false
			pr.mu.Unlock()
			if oc.T == "dial" {
				addrs = append(addrs, "127.0.0.1:0")
			} else {
				addrs = append(addrs, pr.addr)
			}
		}
		if pn.Np == 2 {
			r.res.TwoPeerAttempts++
		}
		return addrs
	}}

	// intermediate observation: the backend's write call has returned, the puller has not post-processed the fetch yet
	proxy := &midBackend{LocalBackend: backend, after: func() {
		mu.Lock()
		defer mu.Unlock()
		f, plen, pok, raw := classify(root, rel, good, scale)
		real = append(real, event{Ev: "mid", Final: f, Plen: plen, Pok: pok})
		r.res.MidObservations++
		mids++
		if f != "absent" && f != "good" {
			oc := "?"
			if pending != nil {
				oc = pending.T
				if mids == 2 {
					oc = pending.T2
				}
			}
			r.violation("bad-final:during-attempt:"+strings.SplitN(f, ":", 2)[0]+":outcome="+oc, witness(map[string]interface{}{"raw": raw,
				"observed_when": "the backend's WriteReader/AppendReader call returned, before the puller handled the fetch result"}))
		}
	}}

	cfg := filereplication.DefaultConfig()
	cfg.SelfNodeID = "replica"
	cfg.Backend = proxy
	cfg.Fetcher = fc
	cfg.PeerResolver = res
	cfg.Workers = 1
	cfg.QueueSize = 8
	cfg.RetryMaxAttempts = r.retry
	cfg.RetryInitialBackoff = time.Nanosecond
	cfg.FetchTimeout = 30 * time.Second
	cfg.Logger = zerolog.Nop()
	pl, err = filereplication.New(cfg)
	if err != nil {
		return err
	}
	ctx, cancel := context.WithCancel(context.Background())
	defer cancel()
	pl.Start(ctx)
	defer pl.Stop()

	waitIdle := func() error {
		deadline := time.Now().Add(60 * time.Second)
		for i := 0; ; i++ {
			st := pl.Stats()
			if st["inflight_count"] == 0 && st["queue_depth"] == 0 && st["catchup_inflight"] == 0 {
				return nil
			}
			if time.Now().After(deadline) {
				return fmt.Errorf("puller did not become idle within 60s (stats %v)", st)
			}
			if i < 200 {
				time.Sleep(20 * time.Microsecond)
			} else {
				time.Sleep(time.Millisecond)
			}
		}
	}

	sessions := 0
	calm := false
	var last *obs
	for {
		mu.Lock()
		calm = exhausted
		attInSess = 0
		lastType = "none"
		before, _ := snapshot()
		real = append(real, event{Ev: "session", Calm: calm})
		mu.Unlock()
		if sessions == 0 {
			served := false
			pl.RunCatchUp(ctx, func(cursor string, limit int) ([]*raft.FileEntry, string, error) {
				if served {
					return nil, "", nil
				}
				served = true
				return []*raft.FileEntry{entry}, "", nil
			})
		} else {
			pl.Enqueue(entry)
		}
		if err := waitIdle(); err != nil {
			return err
		}
		r.peer.wg.Wait()
		r.peer2.wg.Wait()
		sessions++
		r.res.Sessions++
		mu.Lock()
		o, raw := closeAttempt("end")
		counted := o.Pulled > before.Pulled || o.Skipped > before.Skipped
		via := "pulled"
		if o.Skipped > before.Skipped {
			via = "skipped_local"
		}
		caught := pl.FullyCaughtUp()
		real = append(real, event{Ev: "end", Succeeded: counted, Obs: o, CaughtUp: caught})
		if o.Pulled > before.Pulled {
			r.res.Promotions++
		}
		if counted && o.Final != "good" {
			sig := fmt.Sprintf("counted-present:%s:final=%s:staging=%s", via, strings.SplitN(o.Final, ":", 2)[0], stagingClass(o.Plen, size))
			r.violation(sig, witness(map[string]interface{}{"raw": raw, "fully_caught_up": caught}))
		} else if caught && o.Final != "good" {
			sig := fmt.Sprintf("catchup-gate-open:final=%s:run-ended-on=%s", strings.SplitN(o.Final, ":", 2)[0], lastType)
			r.violation(sig, witness(map[string]interface{}{"raw": raw}))
		}
		last = o
		mu.Unlock()
		if calm || sessions >= r.maxSess {
			break
		}
	}
	if calm {
		r.res.CalmRuns++
		if last.Final != "good" {
			sig := fmt.Sprintf("no-convergence:final=%s:staging=%s", strings.SplitN(last.Final, ":", 2)[0], stagingClass(last.Plen, size))
			r.violation(sig, witness(nil))
		}
	}
	// drift: compare with TLC's prediction event by event
	if d := compare(hist, real); d != "" {
		r.drift("puller-behaviour-differs-from-Puller.tla", witness(map[string]interface{}{"difference": d, "predicted": hist}))
	}
	if len(r.res.Samples) < 4 && len(script) >= 2 && r.n%97 == 0 {
		r.res.Samples = append(r.res.Samples, witness(nil))
	}
	r.res.Keys = append(r.res.Keys, keyOf(init, script, scale))
	return nil
}

func keyOf(init event, script []plan, scale int) string {
	var sb strings.Builder
	fmt.Fprintf(&sb, "s%d/p%d%v/u%d", init.Size, init.Plen, init.Pok, scale)
	for _, pn := range script {
		switch pn.Np {
		case 0:
			sb.WriteString("/nopeer")
		case 1:
			fmt.Fprintf(&sb, "/%s%d", pn.O1.T, pn.O1.K)
		default:
			fmt.Fprintf(&sb, "/%s%d+%s%d", pn.O1.T, pn.O1.K, pn.O2.T, pn.O2.K)
		}
	}
	return sb.String()
}

func compare(want, got []event) string {
	if len(want) != len(got) {
		return fmt.Sprintf("predicted %d events, observed %d", len(want), len(got))
	}
	for i := range want {
		w, g := want[i], got[i]
		if w.Ev != g.Ev {
			return fmt.Sprintf("event %d: predicted %s observed %s", i, w.Ev, g.Ev)
		}
		switch w.Ev {
		case "session":
			if w.Calm != g.Calm {
				return fmt.Sprintf("event %d: calm predicted %v observed %v", i, w.Calm, g.Calm)
			}
		case "attempt":
			if w.Np != g.Np || w.T != g.T || w.K != g.K || w.Att != g.Att || w.X != g.X || w.T2 != g.T2 || w.K2 != g.K2 || w.X2 != g.X2 ||
				(g.OffsetSeen && w.Offset != g.Offset) || (g.Offset2Seen && w.Offset2 != g.Offset2) ||
				(!g.OffsetSeen && w.Np >= 1 && w.T != "dial" && w.Offset >= 0) || (!g.Offset2Seen && w.T2 != "dial" && w.Offset2 >= 0) {
				return fmt.Sprintf("event %d: attempt predicted %+v observed %+v", i, w, g)
			}
		case "mid":
			if w.Final != g.Final || w.Plen != g.Plen || (w.Plen >= 0 && w.Pok != g.Pok) {
				return fmt.Sprintf("event %d: state when the backend write returned: predicted %s/%d/%v observed %s/%d/%v", i, w.Final, w.Plen, w.Pok, g.Final, g.Plen, g.Pok)
			}
		case "obs", "end":
			if w.Ev == "end" && (w.Succeeded != g.Succeeded || w.CaughtUp != g.CaughtUp) {
				return fmt.Sprintf("event %d: succeeded/caught-up predicted %v/%v observed %v/%v", i, w.Succeeded, w.CaughtUp, g.Succeeded, g.CaughtUp)
			}
			a, b := *w.Obs, *g.Obs
			if a.Plen < 0 {
				a.Pok = true
			}
			if a != b {
				return fmt.Sprintf("event %d: state predicted %+v observed %+v", i, a, b)
			}
		}
	}
	return ""
}

func main() {
	in := flag.String("scenarios", "", "json file: list of TLC histories")
	out := flag.String("out", "", "result json")
	scratch := flag.String("scratch", "", "scratch directory (default: /dev/shm)")
	maxSess := flag.Int("maxsess", 4, "session bound (MaxScript+2)")
	retry := flag.Int("retry", 2, "RetryMaxAttempts")
	bigScale := flag.Int("big-scale", 33000, "unit size in bytes for the large-file leg")
	bigEvery := flag.Int("big-every", 20, "replay every n-th scenario also with the large unit size (0 = never)")
	seed := flag.Int("seed", 1, "VERIF_SEED")
	flag.Parse()
	t0 := time.Now()
	res := &result{PerOutcome: map[string]int{}, ScalesUsed: map[string]int{}}
	fail := func(err error) {
		res.Infra = err.Error()
		b, _ := json.Marshal(res)
		os.WriteFile(*out, b, 0o644)
		os.Exit(0)
	}
	raw, err := os.ReadFile(*in)
	if err != nil {
		fail(err)
	}
	var scen [][]event
	if err := json.Unmarshal(raw, &scen); err != nil {
		fail(err)
	}
	basedir := *scratch
	if basedir == "" {
		basedir = "/dev/shm"
	}
	base, err := os.MkdirTemp(basedir, "verif-puller-")
	if err != nil {
		fail(err)
	}
	defer os.RemoveAll(base)
	p, err := newPeer()
	if err != nil {
		os.RemoveAll(base)
		fail(err)
	}
	p2, err := newPeer()
	if err != nil {
		os.RemoveAll(base)
		fail(err)
	}
	r := &runner{peer: p, peer2: p2, base: base, maxSess: *maxSess, retry: *retry, res: res}
	for i, h := range scen {
		if len(h) == 0 || h[0].Ev != "init" {
			os.RemoveAll(base)
			fail(fmt.Errorf("scenario %d has no init event", i))
		}
		res.Scenarios++
		scales := []int{1}
		if *bigEvery > 0 && (i+*seed)%*bigEvery == 0 {
			scales = append(scales, *bigScale)
		}
		for _, sc := range scales {
			if err := r.run(h, sc); err != nil {
				os.RemoveAll(base)
				fail(fmt.Errorf("scenario %d (unit %d bytes): %v", i, sc, err))
			}
			res.Runs++
			res.ScalesUsed[fmt.Sprint(sc)]++
		}
	}
	p.ln.Close()
	p2.ln.Close()
	res.WallSeconds = time.Since(t0).Seconds()
	b, _ := json.Marshal(res)
	if err := os.WriteFile(*out, b, 0o644); err != nil {
		fmt.Fprintln(os.Stderr, err)
		os.RemoveAll(base)
		os.Exit(2)
	}
}

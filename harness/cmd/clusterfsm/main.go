// Command clusterfsm replays TLC-generated command histories (specs/clusterfsm/ClusterFSM.tla)
// into real raft.ClusterFSM instances and judges C22 / C23 on what the real code does.
//
// C22 (real-vs-real): node A = node B after every command; Restore(Persist(Snapshot(A_k))) = A_k
// for every prefix k, and the restored node fed the suffix ends where A ends; every secondary
// index = the index recomputed from the primary maps; a batch either changes nothing (error) or
// equals its ops applied one by one.
// C23: invariants on the real dump after every command (<=1 primary; named primary exists and is
// marked; re-registration keeps the recorded writer state; RBAC parents exist).
// The state predicted by the specification is compared too: a difference is drift, not a verdict.
package main

import (
	"bufio"
	"bytes"
	"crypto/sha1"
	"encoding/json"
	"flag"
	"fmt"
	"io"
	"os"
	"reflect"
	"sort"
	"strings"
	"sync"
	"time"

	craft "github.com/basekick-labs/arc/internal/cluster/raft"
	hraft "github.com/hashicorp/raft"
	"github.com/rs/zerolog"
)

type J = map[string]interface{}

type Step struct {
	C  J    `json:"c"`
	OK bool `json:"ok"`
}
type Scenario struct {
	H        []Step                   `json:"h"`
	Post     map[string]interface{}   `json:"post"`
	Restored []map[string]interface{} `json:"restored"`
	Src      string                   `json:"src"`
}

type Finding struct {
	Signature string      `json:"signature"`
	Witness   interface{} `json:"witness"`
}

type Result struct {
	Infra       string            `json:"infra,omitempty"`
	Scenarios   int               `json:"scenarios"`
	Applies     int               `json:"applies"`
	Restores    int               `json:"restores"`
	Dumps       int               `json:"dumps"`
	Edges       int               `json:"distinct_edges"`
	PerCmd      map[string][2]int `json:"per_cmd"` // type -> [accepted, refused]
	Cascades    int               `json:"cascade_steps"`
	Batches     [2]int            `json:"batches"` // accepted, refused
	QuarRestore int               `json:"restores_that_quarantined"`
	C22         []Finding         `json:"c22"`
	C23         []Finding         `json:"c23"`
	Drift       []Finding         `json:"drift"`
	Samples     []interface{}     `json:"samples"`
}

var long257 = strings.Repeat("x", 257)
var t0 = time.Date(2026, 4, 11, 14, 0, 0, 0, time.UTC)

func str(c J, k string) string {
	s, _ := c[k].(string)
	if s == "LONG" {
		return long257
	}
	return s
}
func num(c J, k string) int64 {
	f, _ := c[k].(float64)
	return int64(f)
}
func boolean(c J, k string) bool { b, _ := c[k].(bool); return b }
func strs(c J, k string) []string {
	out := []string{}
	if a, ok := c[k].([]interface{}); ok {
		for _, x := range a {
			out = append(out, x.(string))
		}
	}
	sort.Strings(out)
	return out
}

func must(b []byte, err error) []byte {
	if err != nil {
		panic(err)
	}
	return b
}

func fileEntry(o J) craft.FileEntry {
	fe := craft.FileEntry{Path: str(o, "path"), SHA256: fmt.Sprintf("sha-%d", num(o, "sz")), SizeBytes: num(o, "sz"),
		Database: str(o, "db"), Measurement: "cpu", PartitionTime: t0, OriginNodeID: "n1", Tier: "hot", CreatedAt: t0.Add(time.Minute)}
	if boolean(o, "cz") {
		fe.CreatedAt = time.Time{}
	}
	return fe
}

func fileOp(o J) (craft.CommandType, []byte) {
	switch str(o, "k") {
	case "reg":
		return craft.CommandRegisterFile, must(json.Marshal(craft.RegisterFilePayload{File: fileEntry(o)}))
	case "upd":
		return craft.CommandUpdateFile, must(json.Marshal(craft.UpdateFilePayload{File: fileEntry(o)}))
	case "del":
		return craft.CommandDeleteFile, must(json.Marshal(craft.DeleteFilePayload{Path: str(o, "path"), Reason: "compaction"}))
	case "unsup":
		return craft.CommandAddNode, []byte(`{}`)
	case "badjson":
		return craft.CommandRegisterFile, []byte(`{"file":`)
	}
	panic("unknown file op kind " + str(o, "k"))
}

func cz(c J, v int64) int64 {
	if boolean(c, "cz") {
		return 0
	}
	return v
}

// concretize builds the wire command for an abstract command of the specification.
func concretize(c J, idx uint64) []byte {
	var ty craft.CommandType
	var pl []byte
	switch t := str(c, "t"); t {
	case "AddNode", "UpdateNode":
		// shaped as Coordinator.handleJoinRequest / registerSelfInFSMWhenLeader build it; a join
		// request carries no writer_state (ws = "")
		n := craft.NodeInfo{ID: str(c, "id"), Name: "node-" + str(c, "id"), Role: str(c, "role"), ClusterName: "c1",
			Address: str(c, "id") + ":9100", APIAddress: str(c, "id") + ":8000", State: str(c, "state"), Version: "v1",
			WriterState: str(c, "ws"), CoreCount: 2}
		if t == "AddNode" {
			ty, pl = craft.CommandAddNode, must(json.Marshal(craft.AddNodePayload{Node: n}))
		} else {
			ty, pl = craft.CommandUpdateNode, must(json.Marshal(craft.UpdateNodePayload{Node: n}))
		}
	case "RemoveNode":
		ty, pl = craft.CommandRemoveNode, must(json.Marshal(craft.RemoveNodePayload{NodeID: str(c, "id")}))
	case "UpdateNodeState":
		ty, pl = craft.CommandUpdateNodeState, must(json.Marshal(craft.UpdateNodeStatePayload{NodeID: str(c, "id"), NewState: str(c, "state")}))
	case "PromoteWriter":
		ty, pl = craft.CommandPromoteWriter, must(json.Marshal(craft.PromoteWriterPayload{NodeID: str(c, "id"), OldPrimaryID: str(c, "old")}))
	case "DemoteWriter":
		ty, pl = craft.CommandDemoteWriter, must(json.Marshal(craft.DemoteWriterPayload{NodeID: str(c, "id")}))
	case "AssignCompactor":
		ty, pl = craft.CommandAssignCompactor, must(json.Marshal(craft.AssignCompactorPayload{NodeID: str(c, "id")}))
	case "RegisterFile", "UpdateFile", "DeleteFile":
		ty, pl = fileOp(c)
	case "BatchFileOps":
		var ops []craft.BatchFileOp
		for _, o := range c["ops"].([]interface{}) {
			oty, opl := fileOp(o.(J))
			ops = append(ops, craft.BatchFileOp{Type: oty, Payload: opl})
		}
		ty, pl = craft.CommandBatchFileOps, must(json.Marshal(craft.BatchFileOpsPayload{Ops: ops}))
	case "CreateToken":
		ty, pl = craft.CommandCreateToken, must(json.Marshal(craft.CreateTokenPayload{Token: craft.TokenEntry{Name: str(c, "name"),
			Description: "d", Permissions: str(c, "perms"), TokenHash: str(c, "hash"), TokenPrefix: str(c, "prefix"),
			CreatedAtUnixNano: cz(c, 1000), ExpiresAtUnixNano: num(c, "exp"), Enabled: false}}))
	case "UpdateToken":
		ty, pl = craft.CommandUpdateToken, must(json.Marshal(craft.UpdateTokenPayload{ID: num(c, "id"), Name: str(c, "name"),
			Permissions: str(c, "perms"), ExpiresAtUnixNano: num(c, "exp"), ChangedFields: strs(c, "changed")}))
	case "RevokeToken":
		ty, pl = craft.CommandRevokeToken, must(json.Marshal(craft.RevokeTokenPayload{ID: num(c, "id")}))
	case "DeleteToken":
		ty, pl = craft.CommandDeleteToken, must(json.Marshal(craft.DeleteTokenPayload{ID: num(c, "id")}))
	case "RotateToken":
		ty, pl = craft.CommandRotateToken, must(json.Marshal(craft.RotateTokenPayload{ID: num(c, "id"), NewHash: str(c, "hash"), NewPrefix: str(c, "prefix")}))
	case "CreateOrg":
		ty, pl = craft.CommandCreateOrganization, must(json.Marshal(craft.CreateOrganizationPayload{Organization: craft.OrganizationEntry{
			Name: str(c, "name"), Description: "d", CreatedAtUnixNano: cz(c, 1000)}}))
	case "UpdateOrg":
		ty, pl = craft.CommandUpdateOrganization, must(json.Marshal(craft.UpdateOrganizationPayload{ID: num(c, "id"), Name: str(c, "name"),
			Enabled: boolean(c, "enabled"), UpdatedAtUnixNano: 2000 + int64(idx), ChangedFields: strs(c, "changed")}))
	case "DeleteOrg":
		ty, pl = craft.CommandDeleteOrganization, must(json.Marshal(craft.DeleteOrganizationPayload{ID: num(c, "id")}))
	case "CreateTeam":
		ty, pl = craft.CommandCreateTeam, must(json.Marshal(craft.CreateTeamPayload{Team: craft.TeamEntry{OrganizationID: num(c, "org"),
			Name: str(c, "name"), CreatedAtUnixNano: cz(c, 1000)}}))
	case "UpdateTeam":
		ty, pl = craft.CommandUpdateTeam, must(json.Marshal(craft.UpdateTeamPayload{ID: num(c, "id"), Name: str(c, "name"),
			Enabled: boolean(c, "enabled"), UpdatedAtUnixNano: 2000 + int64(idx), ChangedFields: strs(c, "changed")}))
	case "DeleteTeam":
		ty, pl = craft.CommandDeleteTeam, must(json.Marshal(craft.DeleteTeamPayload{ID: num(c, "id")}))
	case "CreateRole":
		ty, pl = craft.CommandCreateRole, must(json.Marshal(craft.CreateRolePayload{Role: craft.RoleEntry{TeamID: num(c, "team"),
			DatabasePattern: str(c, "pat"), Permissions: str(c, "perms"), CreatedAtUnixNano: cz(c, 1000)}}))
	case "UpdateRole":
		ty, pl = craft.CommandUpdateRole, must(json.Marshal(craft.UpdateRolePayload{ID: num(c, "id"), DatabasePattern: str(c, "pat"),
			Permissions: str(c, "perms"), ChangedFields: strs(c, "changed")}))
	case "DeleteRole":
		ty, pl = craft.CommandDeleteRole, must(json.Marshal(craft.DeleteRolePayload{ID: num(c, "id")}))
	case "CreateMPerm":
		ty, pl = craft.CommandCreateMeasurementPermission, must(json.Marshal(craft.CreateMeasurementPermissionPayload{
			MeasurementPermission: craft.MeasurementPermissionEntry{RoleID: num(c, "role"), MeasurementPattern: str(c, "pat"),
				Permissions: str(c, "perms"), CreatedAtUnixNano: cz(c, 1000)}}))
	case "DeleteMPerm":
		ty, pl = craft.CommandDeleteMeasurementPermission, must(json.Marshal(craft.DeleteMeasurementPermissionPayload{ID: num(c, "id")}))
	case "AddTokenToTeam":
		ty, pl = craft.CommandAddTokenToTeam, must(json.Marshal(craft.AddTokenToTeamPayload{Membership: craft.TokenMembershipEntry{
			TokenID: num(c, "token"), TeamID: num(c, "team"), CreatedAtUnixNano: cz(c, 1000)}}))
	case "RemoveTokenFromTeam":
		ty, pl = craft.CommandRemoveTokenFromTeam, must(json.Marshal(craft.RemoveTokenFromTeamPayload{TokenID: num(c, "token"), TeamID: num(c, "team")}))
	default:
		panic("unknown abstract command " + t)
	}
	return must(json.Marshal(craft.Command{Type: ty, Payload: pl}))
}

// ---------------------------------------------------------------------------------------------
type memSink struct{ bytes.Buffer }

func (s *memSink) ID() string    { return "verif" }
func (s *memSink) Cancel() error { return nil }
func (s *memSink) Close() error  { return nil }

var nop = zerolog.Nop()

func newFSM() *craft.ClusterFSM { return craft.NewClusterFSM(nop) }

// apply returns "" when Apply returned nil, the error text otherwise.
func apply(f *craft.ClusterFSM, data []byte, idx uint64) (res string) {
	defer func() {
		if r := recover(); r != nil {
			res = fmt.Sprintf("PANIC: %v", r)
		}
	}()
	r := f.Apply(&hraft.Log{Index: idx, Term: 1, Type: hraft.LogCommand, Data: data})
	if r == nil {
		return ""
	}
	if e, ok := r.(error); ok {
		return "error: " + e.Error()
	}
	return fmt.Sprintf("non-error result: %v", r)
}

func takeSnapshot(f *craft.ClusterFSM) (s hraft.FSMSnapshot, err error) {
	defer func() {
		if r := recover(); r != nil {
			err = fmt.Errorf("PANIC: %v", r)
		}
	}()
	return f.Snapshot()
}

func persist(s hraft.FSMSnapshot) (b []byte, err error) {
	defer func() {
		if r := recover(); r != nil {
			err = fmt.Errorf("PANIC: %v", r)
		}
	}()
	sink := &memSink{}
	if err := s.Persist(sink); err != nil {
		return nil, err
	}
	s.Release()
	return sink.Bytes(), nil
}

func restore(b []byte) (f *craft.ClusterFSM, err error) {
	defer func() {
		if r := recover(); r != nil {
			err = fmt.Errorf("PANIC: %v", r)
		}
	}()
	f = newFSM()
	err = f.Restore(io.NopCloser(bytes.NewReader(b)))
	return f, err
}

// ---------------------------------------------------------------------------------------------
// dump handling

var sections = []string{"nodes", "primary", "compactor", "files", "fdb", "tokens", "tpre", "tname", "orgs", "oname",
	"teams", "torg", "roles", "rteam", "mperms", "mrole", "mems", "mpair", "mtok", "mteam"}
var indexOf = map[string]string{"fdb": "files", "tpre": "tokens", "tname": "tokens", "oname": "orgs", "torg": "teams",
	"rteam": "roles", "mrole": "mperms", "mpair": "mems", "mtok": "mems", "mteam": "mems"}

type Dump map[string][]string

func dumpOf(f *craft.ClusterFSM) Dump {
	d := f.VerifDumpState()
	return Dump{"nodes": d.Nodes, "primary": {d.Primary}, "compactor": {d.Compactor}, "files": d.Files, "fdb": d.FDB,
		"tokens": d.Tokens, "tpre": d.TPre, "tname": d.TName, "orgs": d.Orgs, "oname": d.OName, "teams": d.Teams, "torg": d.TOrg,
		"roles": d.Roles, "rteam": d.RTeam, "mperms": d.MPerms, "mrole": d.MRole, "mems": d.Mems, "mpair": d.MPair,
		"mtok": d.MTok, "mteam": d.MTeam}
}

func sameList(a, b []string) bool {
	if len(a) != len(b) {
		return false
	}
	for i := range a {
		if a[i] != b[i] {
			return false
		}
	}
	return true
}

// diffSections lists the sections (fixed order) in which two dumps differ.
func diffSections(a, b Dump, only func(string) bool) []string {
	var out []string
	for _, s := range sections {
		if only != nil && !only(s) {
			continue
		}
		if !sameList(a[s], b[s]) {
			out = append(out, s)
		}
	}
	return out
}

func setDiff(a, b []string) (onlyA, onlyB []string) {
	m := map[string]int{}
	for _, x := range a {
		m[x]++
	}
	for _, x := range b {
		if m[x] > 0 {
			m[x]--
		} else {
			onlyB = append(onlyB, x)
		}
	}
	for _, x := range a {
		if m[x] > 0 {
			m[x]--
			onlyA = append(onlyA, x)
		}
	}
	return
}

type entry struct {
	Key interface{} `json:"key"`
	E   J           `json:"e"`
}

func entries(list []string) []entry {
	out := make([]entry, 0, len(list))
	for _, s := range list {
		var e entry
		if err := json.Unmarshal([]byte(s), &e); err != nil {
			panic("dump entry unparsable: " + s)
		}
		out = append(out, e)
	}
	return out
}

func js(v interface{}) string { return string(must(json.Marshal(v))) }

func sorted(l []string) []string { sort.Strings(l); return l }

// recomputed returns every secondary index recomputed from the primary maps of d, in the shim's format.
func recomputed(d Dump) Dump {
	r := Dump{}
	for _, e := range entries(d["files"]) {
		r["fdb"] = append(r["fdb"], js(J{"db": e.E["database"], "path": e.Key}))
	}
	for _, e := range entries(d["tokens"]) {
		r["tpre"] = append(r["tpre"], js(J{"prefix": e.E["token_prefix"], "id": e.Key}))
		r["tname"] = append(r["tname"], js(J{"name": e.E["name"], "id": e.Key}))
	}
	for _, e := range entries(d["orgs"]) {
		r["oname"] = append(r["oname"], js(J{"name": e.E["name"], "id": e.Key}))
	}
	for _, e := range entries(d["teams"]) {
		r["torg"] = append(r["torg"], js(J{"org": e.E["organization_id"], "name": e.E["name"], "id": e.Key}))
	}
	for _, e := range entries(d["roles"]) {
		r["rteam"] = append(r["rteam"], js(J{"team": e.E["team_id"], "id": e.Key}))
	}
	for _, e := range entries(d["mperms"]) {
		r["mrole"] = append(r["mrole"], js(J{"role": e.E["role_id"], "id": e.Key}))
	}
	for _, e := range entries(d["mems"]) {
		r["mpair"] = append(r["mpair"], js(J{"token": e.E["token_id"], "team": e.E["team_id"], "id": e.Key}))
		r["mtok"] = append(r["mtok"], js(J{"token": e.E["token_id"], "id": e.Key}))
		r["mteam"] = append(r["mteam"], js(J{"team": e.E["team_id"], "id": e.Key}))
	}
	for k := range indexOf {
		r[k] = sorted(r[k])
	}
	return r
}

// keyMismatch: a primary map key that differs from the id / path stored in its entry.
func keyMismatch(d Dump) string {
	for _, s := range []string{"nodes", "files", "tokens", "orgs", "teams", "roles", "mperms", "mems"} {
		f := "id"
		if s == "files" {
			f = "path"
		}
		for _, e := range entries(d[s]) {
			if !reflect.DeepEqual(e.Key, e.E[f]) {
				return s
			}
		}
	}
	return ""
}

func class(s string) string {
	switch {
	case s == "":
		return "empty"
	case len(s) > 256:
		return "long"
	}
	return "ok"
}

// classOf describes an index record / entry by the value classes that matter (mechanism, not instance)
func classOf(section, rec string) string {
	var m J
	json.Unmarshal([]byte(rec), &m)
	if e, ok := m["e"].(J); ok {
		m = e
	}
	switch section {
	case "fdb":
		return "db=" + class(fmt.Sprint(m["db"]))
	case "files":
		return "db=" + class(fmt.Sprint(m["database"]))
	case "tokens", "tname":
		return "name=" + class(fmt.Sprint(m["name"]))
	case "tpre":
		return "prefix=" + class(fmt.Sprint(m["prefix"]))
	case "orgs", "oname", "teams", "torg":
		return "name=" + class(fmt.Sprint(m["name"]))
	}
	return "-"
}

// discrepancy classifies how `got` differs from `want` in one section: missing(<class>) / stale(<class>) / changed
func discrepancy(section string, want, got []string) string {
	miss, extra := setDiff(want, got)
	switch {
	case len(miss) > 0 && len(extra) == 0:
		return "missing(" + classOf(section, miss[0]) + ")"
	case len(extra) > 0 && len(miss) == 0:
		return "extra(" + classOf(section, extra[0]) + ")"
	case len(miss) > 0:
		return "changed(" + classOf(section, miss[0]) + ")"
	}
	return "same"
}

// ---------------------------------------------------------------------------------------------
// abstraction of a real dump to the specification's state (drift detector only)

func abstractName(v interface{}) interface{} {
	if s, ok := v.(string); ok && s == long257 {
		return "LONG"
	}
	return v
}

func abstract(d Dump) map[string][]string {
	a := map[string][]string{}
	add := func(s string, r J) { a[s] = append(a[s], js(r)) }
	for _, e := range entries(d["nodes"]) {
		add("nodes", J{"id": e.E["id"], "role": e.E["role"], "ws": orEmpty(e.E["writer_state"]), "state": e.E["state"]})
	}
	for _, e := range entries(d["files"]) {
		add("files", J{"path": e.E["path"], "db": e.E["database"], "sz": e.E["size_bytes"], "lsn": e.E["lsn"]})
	}
	for _, e := range entries(d["tokens"]) {
		add("tokens", J{"id": e.E["id"], "name": abstractName(e.E["name"]), "prefix": e.E["token_prefix"], "hash": e.E["token_hash"],
			"perms": e.E["permissions"], "enabled": e.E["enabled"], "exp": orZero(e.E["expires_at_unix_nano"]), "lsn": e.E["lsn"]})
	}
	for _, e := range entries(d["orgs"]) {
		add("orgs", J{"id": e.E["id"], "name": abstractName(e.E["name"]), "enabled": e.E["enabled"], "lsn": e.E["lsn"]})
	}
	for _, e := range entries(d["teams"]) {
		add("teams", J{"id": e.E["id"], "org": e.E["organization_id"], "name": abstractName(e.E["name"]), "enabled": e.E["enabled"], "lsn": e.E["lsn"]})
	}
	for _, e := range entries(d["roles"]) {
		add("roles", J{"id": e.E["id"], "team": e.E["team_id"], "pat": e.E["database_pattern"], "perms": e.E["permissions"], "lsn": e.E["lsn"]})
	}
	for _, e := range entries(d["mperms"]) {
		add("mperms", J{"id": e.E["id"], "role": e.E["role_id"], "pat": e.E["measurement_pattern"], "perms": e.E["permissions"], "lsn": e.E["lsn"]})
	}
	for _, e := range entries(d["mems"]) {
		add("mems", J{"id": e.E["id"], "token": e.E["token_id"], "team": e.E["team_id"], "lsn": e.E["lsn"]})
	}
	for s := range indexOf {
		for _, rec := range d[s] {
			var m J
			json.Unmarshal([]byte(rec), &m)
			if n, ok := m["name"]; ok {
				m["name"] = abstractName(n)
			}
			add(s, m)
		}
	}
	a["primary"] = d["primary"]
	a["compactor"] = d["compactor"]
	for k := range a {
		sort.Strings(a[k])
	}
	return a
}

func orZero(v interface{}) interface{} {
	if v == nil {
		return 0
	}
	return v
}

func orEmpty(v interface{}) interface{} {
	if v == nil {
		return ""
	}
	return v
}

func specState(p map[string]interface{}) map[string][]string {
	a := map[string][]string{}
	for k, v := range p {
		switch x := v.(type) {
		case string:
			a[k] = []string{x}
		case []interface{}:
			for _, r := range x {
				a[k] = append(a[k], js(r))
			}
			sort.Strings(a[k])
		}
	}
	return a
}

func driftSections(real, spec map[string][]string) []string {
	var out []string
	for _, s := range sections {
		if !sameList(real[s], spec[s]) {
			out = append(out, s)
		}
	}
	return out
}

// ---------------------------------------------------------------------------------------------
// C23 on a real dump

type nodeView struct {
	primaries []string
	ws        map[string]string
	named     string
}

func viewNodes(d Dump) nodeView {
	v := nodeView{ws: map[string]string{}, named: d["primary"][0]}
	for _, e := range entries(d["nodes"]) {
		id := fmt.Sprint(e.Key)
		w, _ := e.E["writer_state"].(string)
		v.ws[id] = w
		if w == "primary" {
			v.primaries = append(v.primaries, id)
		}
	}
	return v
}

// coherent: the node-role part of the state satisfies C23 (<=1 marked primary; a named primary is registered and marked).
func (v nodeView) coherent() bool {
	if len(v.primaries) > 1 {
		return false
	}
	if v.named != "" {
		if w, ok := v.ws[v.named]; !ok || w != "primary" {
			return false
		}
	}
	return true
}

func (v nodeView) broken() string {
	if len(v.primaries) > 1 {
		return "two-primaries"
	}
	if v.named != "" {
		w, ok := v.ws[v.named]
		if !ok {
			return "named-primary-not-registered"
		}
		if w != "primary" {
			return "named-primary-not-marked"
		}
	}
	return ""
}

func rbacOrphan(d Dump) string {
	has := func(sec string) map[string]bool {
		m := map[string]bool{}
		for _, e := range entries(d[sec]) {
			m[fmt.Sprint(e.Key)] = true
		}
		return m
	}
	orgs, teams, roles, tokens := has("orgs"), has("teams"), has("roles"), has("tokens")
	for _, e := range entries(d["teams"]) {
		if !orgs[fmt.Sprint(e.E["organization_id"])] {
			return "team-without-organization"
		}
	}
	for _, e := range entries(d["roles"]) {
		if !teams[fmt.Sprint(e.E["team_id"])] {
			return "role-without-team"
		}
	}
	for _, e := range entries(d["mperms"]) {
		if !roles[fmt.Sprint(e.E["role_id"])] {
			return "measurement-permission-without-role"
		}
	}
	for _, e := range entries(d["mems"]) {
		if !tokens[fmt.Sprint(e.E["token_id"])] {
			return "membership-without-token"
		}
		if !teams[fmt.Sprint(e.E["team_id"])] {
			return "membership-without-team"
		}
	}
	return ""
}

// ---------------------------------------------------------------------------------------------
type collector struct {
	mu       sync.Mutex
	res      *Result
	seen     map[string]map[string]int // list -> signature -> witness length
	edges    map[[20]byte]struct{}
	maxDrift int
}

func (c *collector) add(list *[]Finding, name, sig string, hlen int, w interface{}) {
	c.mu.Lock()
	defer c.mu.Unlock()
	m := c.seen[name]
	if m == nil {
		m = map[string]int{}
		c.seen[name] = m
	}
	if old, ok := m[sig]; ok {
		if hlen >= old {
			return
		}
		for i := range *list {
			if (*list)[i].Signature == sig {
				(*list)[i].Witness = w
			}
		}
		m[sig] = hlen
		return
	}
	if name == "drift" && len(*list) >= c.maxDrift {
		return
	}
	m[sig] = hlen
	*list = append(*list, Finding{sig, w})
}

func cmdsOf(sc *Scenario, upto int) []J {
	var out []J
	for i := 0; i < upto && i < len(sc.H); i++ {
		out = append(out, sc.H[i].C)
	}
	return out
}

func cmdTag(c J) string {
	t := str(c, "t")
	if t == "AddNode" || t == "UpdateNode" {
		if str(c, "ws") == "" {
			return t + "(payload=join-shaped)"
		}
		return t + "(payload=ws:" + str(c, "ws") + ")"
	}
	return t
}

func replay(sc *Scenario, col *collector) {
	L := len(sc.H)
	datas := make([][]byte, L)
	for i := range sc.H {
		datas[i] = concretize(sc.H[i].C, uint64(i+1))
	}
	A, B, C := newFSM(), newFSM(), newFSM()
	cSync := true
	dA := make([]Dump, L+1)
	snaps := make([][]byte, L+1)
	resA := make([]string, L+1)
	dA[0] = dumpOf(A)
	var applies, dumps, restoresN, cascades, quar int
	per := map[string][2]int{}
	batches := [2]int{}
	wit := func(step int, extra J) J {
		w := J{"history": cmdsOf(sc, step), "step": step, "source": sc.Src}
		for k, v := range extra {
			w[k] = v
		}
		return w
	}
	c22 := func(sig string, step int, extra J) { col.add(&col.res.C22, "c22", sig, step, wit(step, extra)) }
	c23 := func(sig string, step int, extra J) { col.add(&col.res.C23, "c23", sig, step, wit(step, extra)) }
	// Snapshot() is taken right after command k, Persist() is called only after the whole history has been
	// applied (hashicorp/raft persists concurrently with later Apply calls): the bytes must still be state k
	var err error
	held := make([]hraft.FSMSnapshot, L+1)
	if held[0], err = takeSnapshot(A); err != nil {
		c22("snapshot-fails:after=init", 0, J{"error": err.Error()})
	}
	idxBad := map[string]bool{} // index sections currently disagreeing with their primaries
	// nodes whose current writer_state was written by an AddNode/UpdateNode payload (not by promote/demote): a
	// broken invariant that involves such a node after a later command is a consequence of the open
	// add/update-node findings and is not reported again under the later command's name
	wsFromPayload := map[string]bool{}
	orphaned := false
	for k := 1; k <= L; k++ {
		c := sc.H[k-1].C
		tag := cmdTag(c)
		ty := str(c, "t")
		resA[k] = apply(A, datas[k-1], uint64(k))
		resB := apply(B, datas[k-1], uint64(k))
		applies += 2
		dA[k] = dumpOf(A)
		dumps++
		pc := per[ty]
		if resA[k] == "" {
			pc[0]++
		} else {
			pc[1]++
		}
		per[ty] = pc
		if strings.HasPrefix(resA[k], "PANIC") {
			c22("apply-panics:after="+tag, k, J{"result": resA[k]})
		}
		lost := func(sec string) int { return len(dA[k-1][sec]) - len(dA[k][sec]) }
		switch ty {
		case "DeleteOrg":
			if lost("teams") > 0 {
				cascades++
			}
		case "DeleteTeam":
			if lost("roles")+lost("mems") > 0 {
				cascades++
			}
		case "DeleteRole":
			if lost("mperms") > 0 {
				cascades++
			}
		case "DeleteToken":
			if lost("mems") > 0 {
				cascades++
			}
		}
		// --- C22 determinism: two nodes applying the same log
		if resA[k] != resB {
			c22("nondeterministic-result:after="+tag, k, J{"node_a": resA[k], "node_b": resB})
		} else if k == L || k%3 == 0 {
			dB := dumpOf(B)
			dumps++
			if ds := diffSections(dA[k], dB, nil); len(ds) > 0 {
				c22("nondeterministic-state:"+ds[0]+":after="+tag, k, J{"sections": ds, "node_a": dA[k][ds[0]], "node_b": dB[ds[0]]})
			}
		}
		// --- C22 index agreement (transition per index section)
		if s := keyMismatch(dA[k]); s != "" && keyMismatch(dA[k-1]) == "" {
			c22("map-key-differs-from-entry:"+s+":after="+tag, k, J{"entries": dA[k][s]})
		}
		rc := recomputed(dA[k])
		for _, s := range sections {
			if _, isIdx := indexOf[s]; !isIdx {
				continue
			}
			bad := !sameList(rc[s], dA[k][s])
			if bad && !idxBad[s] {
				c22("index-mismatch:"+s+":"+discrepancy(s, rc[s], dA[k][s])+":after="+ty, k,
					J{"index": s, "index_in_fsm": dA[k][s], "recomputed_from_primaries": rc[s], "result": resA[k]})
			}
			idxBad[s] = bad
		}
		// --- C22 batches: all-or-nothing
		if ty == "BatchFileOps" {
			if resA[k] != "" {
				batches[1]++
				if ds := diffSections(dA[k-1], dA[k], nil); len(ds) > 0 {
					c22("batch-refused-but-partially-applied:"+ds[0], k, J{"result": resA[k], "before": dA[k-1][ds[0]], "after": dA[k][ds[0]]})
					cSync = false
				}
			} else {
				batches[0]++
				if cSync {
					failed := ""
					for _, o := range c["ops"].([]interface{}) {
						oty, opl := fileOp(o.(J))
						r := apply(C, must(json.Marshal(craft.Command{Type: oty, Payload: opl})), uint64(k))
						applies++
						if r != "" && failed == "" {
							failed = r
						}
					}
					dC := dumpOf(C)
					dumps++
					if failed != "" {
						c22("batch-accepted-with-failing-op", k, J{"single_op_result": failed})
						cSync = false
					} else if ds := diffSections(dA[k], dC, nil); len(ds) > 0 {
						c22("batch-differs-from-single-ops:"+ds[0], k, J{"batch": dA[k][ds[0]], "single_ops": dC[ds[0]]})
						cSync = false
					}
				}
			}
		} else if cSync {
			apply(C, datas[k-1], uint64(k))
			applies++
		}
		// --- C23 on the real state after this command
		pre, post := viewNodes(dA[k-1]), viewNodes(dA[k])
		switch ty {
		case "AddNode", "UpdateNode":
			wsFromPayload[str(c, "id")] = str(c, "ws") != ""
		case "RemoveNode":
			delete(wsFromPayload, str(c, "id"))
		default:
			for id, w := range post.ws {
				if pre.ws[id] != w {
					delete(wsFromPayload, id) // rewritten by promote / demote
				}
			}
		}
		consequence := false
		if ty != "AddNode" && ty != "UpdateNode" {
			for _, id := range append(append([]string{}, post.primaries...), post.named) {
				if wsFromPayload[id] {
					consequence = true
				}
			}
		}
		// "a node named as the primary writer exists": right after RemoveNode(x) the recorded primary must not be
		// x, however x's primary mark was lost before -- judged independently of the pre-state
		if ty == "RemoveNode" && post.named != "" && post.named == str(c, "id") {
			c23("named-primary-not-registered:after=RemoveNode", k, J{"primary_writer_id": post.named, "removed": str(c, "id"),
				"writer_state_before_removal": pre.ws[str(c, "id")], "result": resA[k]})
		} else if pre.coherent() {
			if b := post.broken(); b != "" && !consequence {
				c23(b+":after="+ty, k, J{"primary_writer_id": post.named, "marked_primary": post.primaries, "writer_states": post.ws, "result": resA[k]})
			}
			if ty == "AddNode" || ty == "UpdateNode" {
				id := str(c, "id")
				// "silently": the payload is what a (re)join proposes -- it carries no writer_state at all
				if was, known := pre.ws[id]; known && str(c, "ws") == "" && post.ws[id] != was {
					c23("reregistration-changes-writer-state:after="+ty, k, J{"node": id, "recorded": was, "now": post.ws[id], "primary_writer_id": post.named})
				}
			}
		}
		if o := rbacOrphan(dA[k]); o != "" && !orphaned {
			c23("rbac-orphan:"+o+":after="+ty, k, J{"result": resA[k]})
			orphaned = true
		} else if o == "" {
			orphaned = false
		}
		if held[k], err = takeSnapshot(A); err != nil {
			c22("snapshot-fails:after="+tag, k, J{"error": err.Error()})
		}
	}
	for k := 0; k <= L; k++ {
		if held[k] == nil {
			continue
		}
		if snaps[k], err = persist(held[k]); err != nil {
			c22("snapshot-persist-fails", k, J{"error": err.Error()})
		}
	}
	// --- C22 snapshot fidelity at every prefix + suffix replay
	tainted := false
	lastFaithful := -1
	var lastRestored Dump
	// histories that TLC emitted per transition share their prefixes with the histories emitted for the
	// earlier transitions: every prefix is restored when the history is short or simulated, otherwise the
	// prefixes 0, L/2, L-1 and L
	allPrefixes := L <= 3 || strings.HasPrefix(sc.Src, "Sim_")
	for k := 0; k <= L; k++ {
		if snaps[k] == nil || !(allPrefixes || k == 0 || k == L/2 || k >= L-1) {
			continue
		}
		R, err := restore(snaps[k])
		restoresN++
		after := "init"
		if k > 0 {
			after = cmdTag(sc.H[k-1].C)
		}
		_ = after
		if err != nil {
			c22("restore-fails:after="+after, k, J{"error": err.Error()})
			continue
		}
		dR := dumpOf(R)
		dumps++
		if k == L {
			lastRestored = dR
		}
		src := dA[k]
		rcSrc := recomputed(src)
		// an index that already disagrees with its primaries in the source is reported above; the restored
		// index is rebuilt, so compare it only where the source index was sound
		ds := diffSections(src, dR, func(s string) bool {
			if _, isIdx := indexOf[s]; isIdx {
				return sameList(rcSrc[s], src[s])
			}
			return true
		})
		if len(ds) > 0 {
			quar++
			if !tainted {
				// attribute to the first unfaithful prefix: walk back over prefixes that were not restored above
				kk, dsk, srck, dRk := k, ds, src, dR
				for j := k - 1; j > lastFaithful && j >= 0; j-- {
					if snaps[j] == nil {
						break
					}
					Rj, e := restore(snaps[j])
					restoresN++
					if e != nil {
						break
					}
					dRj := dumpOf(Rj)
					dumps++
					rcj := recomputed(dA[j])
					dj := diffSections(dA[j], dRj, func(s string) bool {
						if _, isIdx := indexOf[s]; isIdx {
							return sameList(rcj[s], dA[j][s])
						}
						return true
					})
					if len(dj) == 0 {
						break
					}
					kk, dsk, srck, dRk = j, dj, dA[j], dRj
				}
				after = "init"
				if kk > 0 {
					after = cmdTag(sc.H[kk-1].C)
				}
				c22("restore-differs-from-source:"+dsk[0]+":"+discrepancy(dsk[0], srck[dsk[0]], dRk[dsk[0]])+":after="+after, kk,
					J{"sections": dsk, "source": srck[dsk[0]], "restored": dRk[dsk[0]]})
			}
			tainted = true
			continue // a suffix on top of an unfaithful restore diverges by construction
		}
		lastFaithful = k
		if tainted {
			continue
		}
		if rs := keyMismatch(dR); rs != "" {
			c22("map-key-differs-from-entry:"+rs+":after=restore", k, J{"entries": dR[rs]})
		}
		if rr := recomputed(dR); true {
			for s := range indexOf {
				if !sameList(rr[s], dR[s]) {
					c22("index-mismatch-after-restore:"+s+":"+discrepancy(s, rr[s], dR[s]), k, J{"index_in_fsm": dR[s], "recomputed_from_primaries": rr[s]})
				}
			}
		}
		for j := k + 1; j <= L; j++ {
			r := apply(R, datas[j-1], uint64(j))
			applies++
			dj := dumpOf(R)
			dumps++
			if r != resA[j] {
				c22("restored-node-result-differs:after="+cmdTag(sc.H[j-1].C), j, J{"snapshot_at": k, "log_node": resA[j], "restored_node": r})
				break
			}
			// where the log-applying node's own index is already unsound, only the primaries are compared
			rcJ := recomputed(dA[j])
			if ds := diffSections(dA[j], dj, func(s string) bool {
				if _, isIdx := indexOf[s]; isIdx {
					return sameList(rcJ[s], dA[j][s])
				}
				return true
			}); len(ds) > 0 {
				c22("restored-node-diverges:"+ds[0]+":"+discrepancy(ds[0], dA[j][ds[0]], dj[ds[0]])+":after="+cmdTag(sc.H[j-1].C), j,
					J{"snapshot_at": k, "sections": ds, "log_node": dA[j][ds[0]], "restored_node": dj[ds[0]]})
				break
			}
		}
	}
	// --- drift: specification's predictions vs real code
	for k := 1; k <= L; k++ {
		if (resA[k] == "") != sc.H[k-1].OK {
			col.add(&col.res.Drift, "drift", "drift:result:"+str(sc.H[k-1].C, "t"), k, wit(k, J{"real": resA[k], "spec_ok": sc.H[k-1].OK}))
		}
	}
	if sc.Post != nil {
		ra := abstract(dA[L])
		if ds := driftSections(ra, specState(sc.Post)); len(ds) > 0 {
			last := "init"
			if L > 0 {
				last = str(sc.H[L-1].C, "t")
			}
			col.add(&col.res.Drift, "drift", "drift:state:"+ds[0]+":after="+last, L, wit(L, J{"sections": ds, "real": ra[ds[0]], "spec": specState(sc.Post)[ds[0]]}))
		}
		if lastRestored != nil {
			want := sc.Post
			if len(sc.Restored) > 0 {
				want = sc.Restored[0]
			}
			rr := abstract(lastRestored)
			if ds := driftSections(rr, specState(want)); len(ds) > 0 {
				col.add(&col.res.Drift, "drift", "drift:restored:"+ds[0], L, wit(L, J{"sections": ds, "real": rr[ds[0]], "spec": specState(want)[ds[0]]}))
			}
		}
	}
	// accounting
	col.mu.Lock()
	r := col.res
	r.Scenarios++
	r.Applies += applies
	r.Dumps += dumps
	r.Restores += restoresN
	r.Cascades += cascades
	r.QuarRestore += quar
	r.Batches[0] += batches[0]
	r.Batches[1] += batches[1]
	for t, v := range per {
		o := r.PerCmd[t]
		o[0] += v[0]
		o[1] += v[1]
		r.PerCmd[t] = o
	}
	for k := 1; k <= L; k++ {
		h := sha1.Sum([]byte(js(dA[k-1]) + "|" + js(sc.H[k-1].C)))
		col.edges[h] = struct{}{}
	}
	if len(r.Samples) < 4 && L >= 3 && r.Scenarios%997 == 1 {
		r.Samples = append(r.Samples, J{"history": cmdsOf(sc, L), "results": resA[1:], "final_state": dA[L]})
	}
	col.mu.Unlock()
}

func main() {
	in := flag.String("scenarios", "", "ndjson file, one TLC-generated history per line")
	out := flag.String("out", "", "result json")
	workers := flag.Int("workers", 4, "parallel replays")
	flag.Parse()
	res := &Result{PerCmd: map[string][2]int{}}
	col := &collector{res: res, seen: map[string]map[string]int{}, edges: map[[20]byte]struct{}{}, maxDrift: 12}
	write := func() {
		res.Edges = len(col.edges)
		b, _ := json.MarshalIndent(res, "", " ")
		if err := os.WriteFile(*out, b, 0o644); err != nil {
			fmt.Fprintln(os.Stderr, err)
			os.Exit(2)
		}
	}
	f, err := os.Open(*in)
	if err != nil {
		res.Infra = err.Error()
		write()
		return
	}
	defer f.Close()
	ch := make(chan *Scenario, 256)
	var wg sync.WaitGroup
	var infraMu sync.Mutex
	for w := 0; w < *workers; w++ {
		wg.Add(1)
		go func() {
			defer wg.Done()
			for sc := range ch {
				func() {
					defer func() {
						if r := recover(); r != nil {
							infraMu.Lock()
							if res.Infra == "" {
								res.Infra = fmt.Sprintf("driver panic: %v (history %s)", r, js(cmdsOf(sc, len(sc.H))))
							}
							infraMu.Unlock()
						}
					}()
					replay(sc, col)
				}()
			}
		}()
	}
	rd := bufio.NewReaderSize(f, 1<<20)
	for {
		line, err := rd.ReadBytes('\n')
		if len(bytes.TrimSpace(line)) > 0 {
			sc := &Scenario{}
			if e := json.Unmarshal(line, sc); e != nil {
				res.Infra = "bad scenario line: " + e.Error()
				break
			}
			ch <- sc
		}
		if err != nil {
			break
		}
	}
	close(ch)
	wg.Wait()
	sort.Slice(res.C22, func(i, j int) bool { return res.C22[i].Signature < res.C22[j].Signature })
	sort.Slice(res.C23, func(i, j int) bool { return res.C23[i].Signature < res.C23[j].Signature })
	write()
}

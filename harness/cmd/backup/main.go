// Command backup is the C13 replay driver.  Every scenario enumerated by TLC from
// specs/backup/Backup.tla (a tree of files x one fault per file x a filler count) is replayed
// on the real backup.Manager: the tree is written into a LocalBackend, CreateBackup runs
// with fault-injecting proxies around the source and the backup destination, RestoreBackup
// runs into a fresh empty LocalBackend (again behind a proxy), and the real outcome (status,
// manifest, bytes in the restore target) is judged against the property statement.  The
// specification's prediction is a drift detector only.
package main

import (
	"bytes"
	"context"
	"crypto/sha256"
	"encoding/hex"
	"encoding/json"
	"errors"
	"flag"
	"fmt"
	"io"
	"math/rand"
	"os"
	"path/filepath"
	"sort"
	"strings"

	"github.com/basekick-labs/arc/internal/backup"
	"github.com/basekick-labs/arc/internal/storage"
	"github.com/rs/zerolog"
)

// ---- scenario / result --------------------------------------------------------------------

type prediction struct {
	BStatus  string   `json:"bstatus"`
	Skipped  int      `json:"skipped"`
	MSkipped int      `json:"mskipped"`
	Stored   []string `json:"stored"`
	RStatus  string   `json:"rstatus"`
	Restored []string `json:"restored"`
}

type scenario struct {
	Present []string              `json:"present"`
	Fault   map[string]string     `json:"fault"`
	Filler  int                   `json:"filler"`
	Pred    map[string]prediction `json:"pred"` // "current"
}

type observation struct {
	BackupErr    string   `json:"backup_err,omitempty"`
	BackupStatus string   `json:"backup_status"`
	ManifestRead bool     `json:"manifest_read"`
	MSkipped     int64    `json:"manifest_skipped"`
	MTotal       int64    `json:"manifest_total"`
	Stored       []string `json:"stored"`
	RestoreErr   string   `json:"restore_err,omitempty"`
	RestoreStat  string   `json:"restore_status"`
	Restored     []string `json:"restored"`       // byte-identical at the original path
	Damaged      []string `json:"damaged"`        // present at the original path with other bytes
	StoredBad    []string `json:"stored_damaged"` // held by the backup with bytes differing from the source
}

type witness struct {
	Present []string          `json:"present"`
	Fault   map[string]string `json:"fault"`
	Filler  int               `json:"filler"`
	Mode    string            `json:"fail_mode"`
	Paths   map[string]string `json:"paths"`
	Obs     observation       `json:"observed"`
	Note    string            `json:"note,omitempty"`
}

type finding struct {
	Signature string  `json:"signature"`
	Witness   witness `json:"witness"`
}

type result struct {
	Scenarios   int            `json:"scenarios"`
	Runs        int            `json:"runs"`
	Nontrivial  []string       `json:"nontrivial_keys"`
	PerClass    map[string]int `json:"per_class"`
	Violations  []finding      `json:"violations"`
	Drift       []finding      `json:"drift"`
	Samples     []witness      `json:"samples"`
	MatchCur    int            `json:"matched_model"`
	Infra       string         `json:"infra,omitempty"`
	FilesCopied int            `json:"files_copied"`
}

// ---- the tree -----------------------------------------------------------------------------

// model file id -> storage path.  Two databases, nested hour directories, an Iceberg table
// directory ({ns}_{db}.db/{measurement}/metadata/*) with the three kinds of metadata file
// the exporter writes.  Listing order (WalkDir, lexical) is p1 < p2 < p3 < i1 < i2 < i3,
// which is the order Backup.tla visits them in (parquet group, then Iceberg group).
var modelPath = map[string]string{
	"p1": "db1/cpu/2026/01/05/00/cpu_20260105_000000_1.parquet",
	"p2": "db1/cpu/2026/01/05/13/cpu_20260105_130000_7.parquet",
	"p3": "db2/mem/2026/02/11/23/mem_20260211_230000_3_daily.parquet",
	"i1": "wh_db1.db/cpu/metadata/00001-7c1d.metadata.json",
	"i2": "wh_db1.db/cpu/metadata/snap-884213-1-a9e1.avro",
	"i3": "wh_db1.db/cpu/metadata/version-hint.text",
}

// sizes: empty-ish, small, exactly one io.Copy buffer, several buffers
var modelSize = map[string]int{"p1": 70001, "p2": 1, "p3": 32768, "i1": 1337, "i2": 40000, "i3": 2}

func fillerPath(n int) string {
	return fmt.Sprintf("db2/mem/2026/03/%02d/%02d/mem_202603%02d_%02d0000_%d.parquet", 1+n/24, n%24, 1+n/24, n%24, n)
}

func content(seed int64, name string, size int) []byte {
	h := sha256.Sum256([]byte(fmt.Sprintf("%d/%s", seed, name)))
	r := rand.New(rand.NewSource(int64(h[0])<<24 | int64(h[1])<<16 | int64(h[2])<<8 | int64(h[3])))
	b := make([]byte, size)
	r.Read(b)
	return b
}

// ---- fault-injecting proxy ----------------------------------------------------------------

var errInjected = errors.New("verif: injected storage fault")

// faultBackend forwards everything to the real backend; ReadTo / WriteReader fail for the
// paths listed.  mode "early": fail before a byte moves; mode "mid": move half of the bytes
// through the real backend first, then fail (a torn read / a torn upload).
type faultBackend struct {
	storage.Backend
	readFail  map[string]bool
	writeFail map[string]bool
	// transient write faults: only the first WriteReader attempt for the path fails, after half of the
	// body has been consumed from the reader and handed to the real backend; later attempts go through
	writeOnce map[string]bool
	attempts  map[string]int
	mode      string
	strip     func(string) string // maps a backend path to the original storage path
	hits      map[string]int
}

type failingReader struct {
	r     io.Reader
	left  int64
	tripd bool
}

func (f *failingReader) Read(p []byte) (int, error) {
	if f.left <= 0 {
		f.tripd = true
		return 0, errInjected
	}
	if int64(len(p)) > f.left {
		p = p[:f.left]
	}
	n, err := f.r.Read(p)
	f.left -= int64(n)
	return n, err
}

func (b *faultBackend) key(p string) string {
	if b.strip != nil {
		return b.strip(p)
	}
	return p
}

func (b *faultBackend) ReadTo(ctx context.Context, path string, w io.Writer) error {
	if b.readFail[b.key(path)] {
		b.hits["read:"+b.key(path)]++
		if b.mode == "mid" {
			var buf bytes.Buffer
			if err := b.Backend.ReadTo(ctx, path, &buf); err != nil {
				return err
			}
			w.Write(buf.Bytes()[:buf.Len()/2])
		}
		return fmt.Errorf("read %s: %w", path, errInjected)
	}
	return b.Backend.ReadTo(ctx, path, w)
}

func (b *faultBackend) Read(ctx context.Context, path string) ([]byte, error) {
	if b.readFail[b.key(path)] {
		b.hits["read:"+b.key(path)]++
		return nil, fmt.Errorf("read %s: %w", path, errInjected)
	}
	return b.Backend.Read(ctx, path)
}

func (b *faultBackend) WriteReader(ctx context.Context, path string, r io.Reader, size int64) error {
	if b.writeOnce[b.key(path)] {
		if b.attempts == nil {
			b.attempts = map[string]int{}
		}
		b.attempts[b.key(path)]++
		if b.attempts[b.key(path)] == 1 {
			b.hits["write-once:"+b.key(path)]++
			fr := &failingReader{r: r, left: size / 2}
			if err := b.Backend.WriteReader(ctx, path, fr, size); err != nil {
				return err
			}
			return fmt.Errorf("write %s: %w", path, errInjected)
		}
		return b.Backend.WriteReader(ctx, path, r, size)
	}
	if b.writeFail[b.key(path)] {
		b.hits["write:"+b.key(path)]++
		if b.mode == "mid" {
			fr := &failingReader{r: r, left: size / 2}
			err := b.Backend.WriteReader(ctx, path, fr, size)
			if err == nil {
				return fmt.Errorf("write %s: %w", path, errInjected)
			}
			return err
		}
		return fmt.Errorf("write %s: %w", path, errInjected)
	}
	return b.Backend.WriteReader(ctx, path, r, size)
}

func (b *faultBackend) Write(ctx context.Context, path string, data []byte) error {
	if b.writeFail[b.key(path)] {
		b.hits["write:"+b.key(path)]++
		return fmt.Errorf("write %s: %w", path, errInjected)
	}
	return b.Backend.Write(ctx, path, data)
}

// optional interfaces the manager type-asserts for
func (b *faultBackend) ListObjects(ctx context.Context, prefix string) ([]storage.ObjectInfo, error) {
	ol, ok := b.Backend.(storage.ObjectLister)
	if !ok {
		return nil, errors.New("no ObjectLister")
	}
	return ol.ListObjects(ctx, prefix)
}

func (b *faultBackend) DeleteBatch(ctx context.Context, paths []string) error {
	bd, ok := b.Backend.(storage.BatchDeleter)
	if !ok {
		return errors.New("no BatchDeleter")
	}
	return bd.DeleteBatch(ctx, paths)
}

// ---- one run ------------------------------------------------------------------------------

var logger = zerolog.Nop()

func walk(root string) (map[string][]byte, error) {
	out := map[string][]byte{}
	err := filepath.Walk(root, func(p string, info os.FileInfo, err error) error {
		if err != nil {
			return err
		}
		if info.IsDir() {
			return nil
		}
		rel, _ := filepath.Rel(root, p)
		b, err := os.ReadFile(p)
		if err != nil {
			return err
		}
		out[filepath.ToSlash(rel)] = b
		return nil
	})
	if os.IsNotExist(err) {
		return out, nil
	}
	return out, err
}

func sorted(m map[string]bool) []string {
	out := []string{}
	for k := range m {
		out = append(out, k)
	}
	sort.Strings(out)
	return out
}

type runOut struct {
	obs    observation
	src    map[string][]byte // original path -> bytes
	id2p   map[string]string
	copied int
}

func runScenario(base string, sc scenario, mode string, seed int64) (*runOut, error) {
	ctx := context.Background()
	srcDir, bakDir, dstDir := filepath.Join(base, "src"), filepath.Join(base, "bak"), filepath.Join(base, "dst")
	for _, d := range []string{srcDir, bakDir, dstDir} {
		os.RemoveAll(d)
		if err := os.MkdirAll(d, 0o755); err != nil {
			return nil, err
		}
	}
	srcReal, err := storage.NewLocalBackend(srcDir, logger)
	if err != nil {
		return nil, err
	}
	bakReal, err := storage.NewLocalBackend(bakDir, logger)
	if err != nil {
		return nil, err
	}
	dstReal, err := storage.NewLocalBackend(dstDir, logger)
	if err != nil {
		return nil, err
	}
	out := &runOut{src: map[string][]byte{}, id2p: map[string]string{}}
	p2id := map[string]string{}
	for _, id := range sc.Present {
		p, ok := modelPath[id]
		if !ok {
			return nil, fmt.Errorf("unknown model file %q", id)
		}
		out.id2p[id] = p
		p2id[p] = id
		out.src[p] = content(seed, id, modelSize[id])
	}
	for n := 0; n < sc.Filler; n++ {
		out.src[fillerPath(n)] = content(seed, fmt.Sprintf("filler%d", n), 64+n)
	}
	for p, b := range out.src {
		if err := srcReal.Write(ctx, p, b); err != nil {
			return nil, fmt.Errorf("set-up write %s: %w", p, err)
		}
	}

	fset := func(kind string) map[string]bool {
		m := map[string]bool{}
		for id, f := range sc.Fault {
			if f == kind {
				m[modelPath[id]] = true
			}
		}
		return m
	}
	// backup-store paths are <backupID>/data/<original path>
	stripBak := func(p string) string {
		p = filepath.ToSlash(p)
		if i := strings.Index(p, "/data/"); i >= 0 && strings.HasPrefix(p, "backup-") {
			return strings.TrimSuffix(p[i+len("/data/"):], ".part")
		}
		return p
	}
	hits := map[string]int{}
	srcProxy := &faultBackend{Backend: srcReal, readFail: fset("rb"), mode: mode, hits: hits}
	bakProxy := &faultBackend{Backend: bakReal, writeFail: fset("wb"), writeOnce: fset("wbt"), readFail: fset("rr"), mode: mode, strip: stripBak, hits: hits}
	dstProxy := &faultBackend{Backend: dstReal, writeFail: fset("wr"), writeOnce: fset("wrt"), mode: mode, hits: hits}

	// ---- backup
	bm := backup.VerifNewManager(srcProxy, bakProxy, logger)
	res, berr := bm.CreateBackup(ctx, backup.BackupOptions{})
	obs := &out.obs
	if berr != nil {
		obs.BackupErr = berr.Error()
	}
	if p := bm.GetProgress(); p != nil {
		obs.BackupStatus = p.Status
	}
	backupID := ""
	if res != nil && res.Manifest != nil {
		backupID = res.Manifest.BackupID
	} else if p := bm.GetProgress(); p != nil {
		backupID = p.BackupID
	}
	bakTree, err := walk(bakDir)
	if err != nil {
		return nil, err
	}
	stored := map[string]bool{}
	storedBad := map[string]bool{}
	for p, b := range bakTree {
		pre := backupID + "/data/"
		if backupID != "" && strings.HasPrefix(p, pre) && !strings.HasSuffix(p, ".part") {
			orig := strings.TrimPrefix(p, pre)
			if id, ok := p2id[orig]; ok {
				stored[id] = true
				if !bytes.Equal(b, out.src[orig]) {
					storedBad[id] = true
				}
			} else if want, ok := out.src[orig]; ok && !bytes.Equal(b, want) {
				storedBad[orig] = true
			}
			out.copied++
		}
	}
	obs.Stored, obs.StoredBad = sorted(stored), sorted(storedBad)
	if backupID != "" {
		if raw, ok := bakTree[backupID+"/manifest.json"]; ok {
			if m, err := backup.UnmarshalManifest(raw); err == nil {
				obs.ManifestRead, obs.MSkipped, obs.MTotal = true, m.SkippedFiles, m.TotalFiles
			}
		}
	}

	// ---- restore into empty storage, by a manager that only shares the backup store
	rm := backup.VerifNewManager(dstProxy, bakProxy, logger)
	_, rerr := rm.RestoreBackup(ctx, backup.RestoreOptions{BackupID: backupID, RestoreData: true})
	if rerr != nil {
		obs.RestoreErr = rerr.Error()
	}
	if p := rm.GetProgress(); p != nil {
		obs.RestoreStat = p.Status
	}
	dstTree, err := walk(dstDir)
	if err != nil {
		return nil, err
	}
	restored, damaged := map[string]bool{}, map[string]bool{}
	for id, p := range out.id2p {
		if b, ok := dstTree[p]; ok {
			if bytes.Equal(b, out.src[p]) {
				restored[id] = true
			} else {
				damaged[id] = true
			}
		}
	}
	// fillers: all-or-nothing bookkeeping under pseudo ids
	for n := 0; n < sc.Filler; n++ {
		p := fillerPath(n)
		if b, ok := dstTree[p]; ok && !bytes.Equal(b, out.src[p]) {
			damaged[p] = true
		}
	}
	obs.Restored, obs.Damaged = sorted(restored), sorted(damaged)
	// bookkeeping: were the fillers stored / restored?  (used by the judge below)
	for n := 0; n < sc.Filler; n++ {
		p := fillerPath(n)
		_, inBak := bakTree[backupID+"/data/"+p]
		b, inDst := dstTree[p]
		if inBak {
			stored["~"+p] = true
			if inDst && bytes.Equal(b, out.src[p]) {
				restored["~"+p] = true
			}
		}
	}
	out.obs.Stored = sorted(stored)
	out.obs.Restored = sorted(restored)
	return out, nil
}

func eqSet(a, b []string) bool {
	x := map[string]bool{}
	for _, s := range a {
		if !strings.HasPrefix(s, "~") {
			x[s] = true
		}
	}
	n := 0
	for _, s := range b {
		if strings.HasPrefix(s, "~") {
			continue
		}
		if !x[s] {
			return false
		}
		n++
	}
	return n == len(x)
}

func matches(o observation, p prediction) bool {
	bOK := (o.BackupStatus == "completed" && o.BackupErr == "") == (p.BStatus == "completed")
	rOK := (o.RestoreStat == "completed" && o.RestoreErr == "") == (p.RStatus == "completed")
	if !bOK || !rOK {
		return false
	}
	if p.BStatus == "completed" {
		if !eqSet(o.Stored, p.Stored) || int(o.MSkipped) != p.MSkipped {
			return false
		}
		if !eqSet(o.Restored, p.Restored) {
			return false
		}
	}
	return true
}

func main() {
	scenPath := flag.String("scenarios", "", "scenarios.json")
	outPath := flag.String("out", "", "result.json")
	scratch := flag.String("scratch", "", "scratch dir (default: /dev/shm)")
	seed := flag.Int64("seed", 1, "seed")
	modes := flag.String("modes", "both", "early|mid|both|alternate")
	flag.Parse()
	res := &result{PerClass: map[string]int{}}
	fail := func(msg string) {
		res.Infra = msg
		b, _ := json.Marshal(res)
		os.WriteFile(*outPath, b, 0o644)
		os.Exit(0)
	}
	raw, err := os.ReadFile(*scenPath)
	if err != nil {
		fmt.Fprintln(os.Stderr, err)
		os.Exit(2)
	}
	var scs []scenario
	if err := json.Unmarshal(raw, &scs); err != nil {
		fail("bad scenarios: " + err.Error())
	}
	root := *scratch
	if root == "" {
		root = "/dev/shm"
	}
	base, err := os.MkdirTemp(root, "verif-c13-")
	if err != nil {
		fail(err.Error())
	}
	defer os.RemoveAll(base)
	os.Setenv("TMPDIR", base) // streamBackupFile/streamRestoreFile temp files
	nontrivial := map[string]bool{}
	seenSig := map[string]int{}
	for idx, sc := range scs {
		res.Scenarios++
		var ms []string
		switch *modes {
		case "both":
			ms = []string{"early", "mid"}
		case "alternate":
			ms = []string{[]string{"early", "mid"}[(idx+int(*seed))%2]}
		default:
			ms = []string{*modes}
		}
		anyFault := false
		for _, f := range sc.Fault {
			if f != "none" {
				anyFault = true
			}
		}
		if !anyFault {
			ms = ms[:1]
		}
		for _, mode := range ms {
			ro, err := runScenario(base, sc, mode, *seed)
			if err != nil {
				fail(fmt.Sprintf("scenario %d: %v", idx, err))
			}
			res.Runs++
			res.FilesCopied += ro.copied
			o := ro.obs
			w := witness{Present: sc.Present, Fault: sc.Fault, Filler: sc.Filler, Mode: mode, Paths: ro.id2p, Obs: o}
			backupOK := o.BackupStatus == "completed" && o.BackupErr == ""
			restoreOK := o.RestoreStat == "completed" && o.RestoreErr == ""
			storedSet, restoredSet := map[string]bool{}, map[string]bool{}
			for _, s := range o.Stored {
				storedSet[s] = true
			}
			for _, s := range o.Restored {
				restoredSet[s] = true
			}
			add := func(sig string, note string) {
				w2 := w
				w2.Note = note
				seenSig[sig]++
				if seenSig[sig] <= 3 {
					res.Violations = append(res.Violations, finding{Signature: sig, Witness: w2})
				}
			}
			faultOf := func(id string) string {
				if strings.HasPrefix(id, "~") {
					return "none"
				}
				return sc.Fault[id]
			}
			// (1) restore reports success => every backed-up file is at its original path, byte for byte
			if restoreOK {
				damagedSet := map[string]bool{}
				for _, d := range o.Damaged {
					damagedSet[d] = true
				}
				missBy := map[string][]string{}
				for id := range storedSet {
					if !restoredSet[id] {
						k := faultOf(id)
						if damagedSet[id] || damagedSet[strings.TrimPrefix(id, "~")] {
							k = "altered:" + k
						}
						missBy[k] = append(missBy[k], id)
					}
				}
				for k, ids := range missBy {
					sort.Strings(ids)
					note := "not byte-identical at the original path: " + strings.Join(ids, ",")
					switch {
					case k == "rr":
						add("restore-completed-despite-failed-file:read-from-backup-failed", note)
					case k == "wr":
						add("restore-completed-despite-failed-file:write-to-target-failed", note)
					case k == "wrt":
						add("restore-completed-despite-failed-file:transient-write-to-target-failed", note)
					case strings.HasPrefix(k, "altered:"):
						add("restore-completed-with-altered-file:fault="+strings.TrimPrefix(k, "altered:"), note)
					default:
						add("restore-completed-but-backed-up-file-missing:fault="+k, note)
					}
				}
			}
			// (2) the stored copies themselves are faithful
			if backupOK && len(o.StoredBad) > 0 {
				add("backup-completed-with-altered-file", strings.Join(o.StoredBad, ","))
			}
			// (3) a completed backup that does not hold every file of the tree says so
			if backupOK {
				var unreadable, dropped []string
				for _, id := range sc.Present {
					if !storedSet[id] {
						if sc.Fault[id] == "rb" {
							unreadable = append(unreadable, id)
						} else {
							dropped = append(dropped, id)
						}
					}
				}
				for n := 0; n < sc.Filler; n++ {
					if !storedSet["~"+fillerPath(n)] {
						dropped = append(dropped, fillerPath(n))
					}
				}
				if len(unreadable) > 0 && (!o.ManifestRead || o.MSkipped <= 0) {
					add("backup-completed-with-skipped-files-not-recorded", "skipped: "+strings.Join(unreadable, ","))
				}
				if len(dropped) > 0 && (!o.ManifestRead || o.MSkipped <= 0) {
					kind := "parquet"
					if strings.HasPrefix(dropped[0], "i") {
						kind = "iceberg-metadata"
					}
					add("backup-completed-silently-omits-readable-file:"+kind, "omitted: "+strings.Join(dropped, ","))
				}
			}
			// drift: the outcome is the one Backup.tla (the code as it is now) predicts
			if matches(o, sc.Pred["current"]) {
				res.MatchCur++
			} else if len(res.Drift) < 5 {
				res.Drift = append(res.Drift, finding{Signature: "outcome-differs-from-Backup.tla", Witness: w})
			}
			// accounting
			cls := map[string]bool{}
			for _, f := range sc.Fault {
				cls[f] = true
			}
			for c := range cls {
				res.PerClass[c+"/"+mode]++
			}
			if anyFault {
				fk, _ := json.Marshal(sc.Fault)
				h := sha256.Sum256(append(fk, []byte(fmt.Sprintf("%v|%d|%s", sc.Present, sc.Filler, mode))...))
				nontrivial[hex.EncodeToString(h[:6])] = true
			}
			if len(res.Samples) < 4 && anyFault && (idx%97 == 3 || len(scs) < 50) {
				res.Samples = append(res.Samples, w)
			}
		}
	}
	for k := range nontrivial {
		res.Nontrivial = append(res.Nontrivial, k)
	}
	sort.Strings(res.Nontrivial)
	for sig, n := range seenSig {
		res.PerClass["violations:"+sig] = n
	}
	b, _ := json.Marshal(res)
	if err := os.WriteFile(*outPath, b, 0o644); err != nil {
		fmt.Fprintln(os.Stderr, err)
		os.Exit(2)
	}
}

// Command rowdelete is the C10 replay driver. For every (predicate, layout) case enumerated by
// TLC (specs/rowdelete/RowDelete.tla) it materialises the dataset as real Parquet files under a
// fresh measurement served by arc's real LocalBackend + sandboxed DuckDB, calls the REAL delete
// handler (internal/api/delete.go through fiber's app.Test) first with dry_run=true and then with
// confirm=true, reads the remaining rows back and judges them against the property: exactly the
// rows where the predicate is TRUE (Kleene evaluation done by TLC) disappear, the reported count
// equals the number of rows that disappeared, the dry run changes nothing and reports the same
// count. DuckDB's own evaluation of the rendered predicate on the original rows is compared with
// the specification's truth vector first (second opinion: a disagreement means the oracle or the
// SQL rendering is wrong and no verdict is given for that case).
package main

import (
	"bytes"
	"encoding/json"
	"flag"
	"fmt"
	"io"
	"net/http/httptest"
	"os"
	"path/filepath"
	"sort"
	"strings"
	"sync"
	"time"

	"github.com/basekick-labs/arc/internal/api"
	"github.com/basekick-labs/arc/internal/config"
	kit "github.com/basekick-labs/arc/verifharness/internal/rowdeletekit"
	"github.com/gofiber/fiber/v2"
	"github.com/rs/zerolog"
)

type row struct {
	V int `json:"v"`
	S int `json:"s"`
	F int `json:"f"`
	T int `json:"t"`
}

type dataset struct {
	Rows     []row            `json:"rows"`
	Layouts  map[string][]int `json:"layouts"`
	Times    map[string][]int `json:"times"`     // layout -> seconds after the base timestamp, per row
	PartDirs []string         `json:"part_dirs"` // partition directory of file 1..3
	FileName string           `json:"file_name"` // the one base name every file carries
	JunkDir  string           `json:"junk_dir"`  // partition of the unreadable file
	JunkLays []string         `json:"junk_layouts"`
}

type pcase struct {
	P             json.RawMessage `json:"p"`
	Lay           string          `json:"lay"`
	TV            []string        `json:"tv"`
	Expected      [][]int         `json:"expected"`
	Impl          [][]int         `json:"impl"`
	ImplDeleted   int64           `json:"impl_deleted"`
	ImplDry       int64           `json:"impl_dry"`
	ExpectedCount int64           `json:"expected_count"`
	Reqs          []reqStep       `json:"reqs"`
	FullTable     bool            `json:"full_table"`
	HasConst      bool            `json:"has_const"`
}

// reqStep is one request of the flag space {dry_run, confirm}^2 that precedes the confirmed delete,
// with the outcome the specification predicts ("rejected" | "dry") and the count a dry run reports.
type reqStep struct {
	Dry     bool   `json:"dry"`
	Confirm bool   `json:"confirm"`
	Out     string `json:"out"`
	Count   int64  `json:"count"`
}

type input struct {
	Dataset  dataset `json:"dataset"`
	Cases    []pcase `json:"cases"`
	Overlaps []ocase `json:"overlaps"`
}

// ocase is one behaviour of specs/rowdelete/Overlap.tla of the family A.scan ; B completely ; A.rewrite*
type ocase struct {
	PA    json.RawMessage `json:"pa"`
	PB    json.RawMessage `json:"pb"`
	Lay   string          `json:"lay"`
	TVA   []string        `json:"tva"`
	TVB   []string        `json:"tvb"`
	Final [][]int         `json:"final"`
	DelA  int64           `json:"del_a"`
	DelB  int64           `json:"del_b"`
	FailA bool            `json:"fail_a"`
	FailB bool            `json:"fail_b"`
}

// gate holds request A between its scan and its rewrites: the handler logs "Rewriting files to remove rows"
// (Info) exactly there, synchronously on the request's goroutine; the log sink blocks on that line when armed.
// No timing is involved. If the line is never written (message renamed) the gate is simply not reached.
type gate struct {
	mu      sync.Mutex
	armed   bool
	reached chan struct{}
	release chan struct{}
}

func (g *gate) arm() {
	g.mu.Lock()
	g.armed = true
	g.reached = make(chan struct{})
	g.release = make(chan struct{})
	g.mu.Unlock()
}

func (g *gate) Write(p []byte) (int, error) {
	if bytes.Contains(p, []byte("Rewriting files to remove rows")) {
		g.mu.Lock()
		a := g.armed
		g.armed = false
		reached, release := g.reached, g.release
		g.mu.Unlock()
		if a {
			close(reached)
			<-release
		}
	}
	return len(p), nil
}

type pred struct {
	K    string `json:"k"`
	C    string `json:"c"`
	Op   string `json:"op"`
	Lit  int    `json:"lit"`
	Lits []int  `json:"lits"`
	Neg  bool   `json:"neg"`
	Val  string `json:"val"`
	Form string `json:"form"`
	A    *pred  `json:"a"`
	B    *pred  `json:"b"`
}

type witness struct {
	Where        string              `json:"where"`
	Layout       string              `json:"layout"`
	Before       map[string][]string `json:"before"`
	TruthByRow   map[string]string   `json:"truth_by_row"`
	After        map[string][]string `json:"after"`
	ExpectedKeep map[string][]string `json:"expected_after"`
	Missing      []string            `json:"rows_wrongly_removed,omitempty"`
	Surviving    []string            `json:"rows_wrongly_kept,omitempty"`
	DryCount     int64               `json:"dry_run_count"`
	Deleted      int64               `json:"confirmed_count"`
	Disappeared  int                 `json:"rows_disappeared"`
	TrueRows     int64               `json:"rows_where_predicate_true"`
	Note         string              `json:"note,omitempty"`
}

type finding struct {
	Signature string  `json:"signature"`
	Cases     int     `json:"cases"`
	Witness   witness `json:"witness"`
}

type result struct {
	Cases          int                 `json:"cases"`
	Requests       int                 `json:"requests"`
	ReqKinds       map[string]int      `json:"requests_by_flags_and_outcome"`
	FullTableCases int                 `json:"full_table_predicate_cases"`
	ConstCases     int                 `json:"constant_predicate_cases"`
	JunkCases      int                 `json:"junk_cases"`
	Overlaps       int                 `json:"overlap_behaviours"`
	OverlapGated   int                 `json:"overlap_gate_reached"`
	OverlapMissed  int                 `json:"overlap_gate_missed"`
	OverlapFailed  int                 `json:"overlap_requests_reporting_failed_files"`
	Evaluations    int                 `json:"evaluations"`
	SecondOpinion  int                 `json:"duckdb_second_opinion_rows"`
	Disagreements  []string            `json:"oracle_disagreements"`
	Errors         []string            `json:"errors"`
	FileClasses    map[string]int      `json:"file_classes"`
	RemovedFiles   int                 `json:"whole_file_removals"`
	Rewrites       int                 `json:"file_rewrites"`
	Violations     []*finding          `json:"violations"`
	Drift          []*finding          `json:"drift"`
	Samples        []witness           `json:"samples"`
	NontrivialKeys []string            `json:"nontrivial_keys"`
	Infra          string              `json:"infra,omitempty"`
	viol           map[string]*finding `json:"-"`
	drift          map[string]*finding `json:"-"`
}

func lit(c string, code int) string {
	if code == 0 {
		return "NULL"
	}
	switch c {
	case "v":
		return fmt.Sprint(code)
	case "s":
		return "'" + []string{"", "a", "ab", "b"}[code] + "'"
	case "f":
		return []string{"", "0.5", "1.5"}[code]
	case "t":
		return "'" + time.Unix(1704067200+int64(code), 0).UTC().Format("2006-01-02 15:04:05") + "'"
	}
	panic("column " + c)
}

func render(p *pred, top bool) string {
	wrap := func(q *pred) string {
		s := render(q, false)
		if q.K == "and" || q.K == "or" || q.K == "not" {
			return "(" + s + ")"
		}
		return s
	}
	switch p.K {
	case "const":
		return p.Form
	case "cmp":
		col := p.C
		if col == "t" {
			col = "time"
		}
		return fmt.Sprintf("%s %s %s", col, p.Op, lit(p.C, p.Lit))
	case "null":
		if p.Neg {
			return p.C + " IS NOT NULL"
		}
		return p.C + " IS NULL"
	case "in":
		var ls []string
		for _, l := range p.Lits {
			ls = append(ls, lit(p.C, l))
		}
		n := ""
		if p.Neg {
			n = "NOT "
		}
		return fmt.Sprintf("%s %sIN (%s)", p.C, n, strings.Join(ls, ", "))
	case "likeu":
		n := ""
		if p.Neg {
			n = "NOT "
		}
		return fmt.Sprintf("%s %sLIKE 'a_'", p.C, n)
	case "like":
		n := ""
		if p.Neg {
			n = "NOT "
		}
		return fmt.Sprintf("%s %sLIKE '%s%%'", p.C, n, strings.Trim(lit(p.C, p.Lit), "'"))
	case "not":
		return "NOT (" + render(p.A, false) + ")"
	case "and":
		return wrap(p.A) + " AND " + wrap(p.B)
	case "or":
		return wrap(p.A) + " OR " + wrap(p.B)
	}
	panic("pred kind " + p.K)
}

const baseTS = "TIMESTAMP '2024-01-01 00:00:00'"
const selectList = "epoch_us(time)::VARCHAR, v::VARCHAR, s, f::VARCHAR, typeof(time) || ',' || typeof(v) || ',' || typeof(s) || ',' || typeof(f)"
const types = "TIMESTAMP,BIGINT,VARCHAR,DOUBLE"

// tuple is the read-back form of a row (what selectList returns)
func tuple(r row, secs int) string {
	us := int64(1704067200)*1000000 + int64(secs)*1000000
	s := func(c string, code int) string {
		if code == 0 {
			return "~"
		}
		return strings.Trim(lit(c, code), "'")
	}
	return strings.Join([]string{fmt.Sprint(us), s("v", r.V), s("s", r.S), s("f", r.F), types}, "|")
}

func values(r row, secs int) string {
	return fmt.Sprintf("(%d, %s, %s, %s)", secs, lit("v", r.V), lit("s", r.S), lit("f", r.F))
}

type handlerEnv struct {
	env *kit.Env
	app *fiber.App
}

type delResp struct {
	Success        bool     `json:"success"`
	DeletedCount   int64    `json:"deleted_count"`
	AffectedFiles  int      `json:"affected_files"`
	RewrittenFiles int      `json:"rewritten_files"`
	DryRun         bool     `json:"dry_run"`
	FailedFiles    []string `json:"failed_files"`
	Error          string   `json:"error"`
}

func (h *handlerEnv) post(db, meas, where string, dry, confirm bool) (int, *delResp, error) {
	body, _ := json.Marshal(map[string]any{"database": db, "measurement": meas, "where": where, "dry_run": dry, "confirm": confirm})
	req := httptest.NewRequest("POST", "/api/v1/delete/", bytes.NewReader(body))
	req.Header.Set("Content-Type", "application/json")
	resp, err := h.app.Test(req, -1)
	if err != nil {
		return 0, nil, err
	}
	defer resp.Body.Close()
	b, _ := io.ReadAll(resp.Body)
	var dr delResp
	if err := json.Unmarshal(b, &dr); err != nil {
		return resp.StatusCode, nil, fmt.Errorf("bad response body %q", string(b))
	}
	return resp.StatusCode, &dr, nil
}

// junkRel is the storage-relative path of the current case's unreadable file ("" = none); it is never read back.
var junkRel string
var junkBytes = []byte("PAR1 this is a truncated parquet file: no footer, no trailing magic")

// readMeasurement reads every parquet file under rel with one query; extra (optional) is an
// additional select expression whose value is returned per row in the second map.
func readMeasurement(env *kit.Env, rel, extra string) (map[string][]string, map[string]string, error) {
	files, err := env.ListParquet(rel)
	if err != nil {
		return nil, nil, err
	}
	out := map[string][]string{}
	ext := map[string]string{}
	if len(files) == 0 {
		return out, ext, nil
	}
	var list []string
	for _, f := range files {
		if f == junkRel {
			continue
		}
		list = append(list, "'"+kit.Esc(filepath.Join(env.Root, f))+"'")
		name, _ := filepath.Rel(rel, f)
		out[name] = []string{}
	}
	if len(list) == 0 {
		return out, ext, nil
	}
	sel := selectList
	if extra != "" {
		sel += ", " + extra
	}
	rs, err := env.QueryStrings(fmt.Sprintf("SELECT filename, %s FROM read_parquet([%s], filename=true, union_by_name=true)", sel, strings.Join(list, ", ")))
	if err != nil {
		return nil, nil, err
	}
	for _, r := range rs {
		name, _ := filepath.Rel(filepath.Join(env.Root, rel), r[0])
		n := len(r)
		if extra != "" {
			n--
		}
		t := strings.Join(r[1:n], "|")
		out[name] = append(out[name], t)
		if extra != "" {
			if old, ok := ext[t]; ok && old != r[n] {
				ext[t] = "conflict"
			} else {
				ext[t] = r[n]
			}
		}
	}
	for k := range out {
		sort.Strings(out[k])
	}
	return out, ext, nil
}

func sameState(a, b map[string][]string) bool {
	if len(a) != len(b) {
		return false
	}
	for k, va := range a {
		vb, ok := b[k]
		if !ok || strings.Join(va, "\n") != strings.Join(vb, "\n") {
			return false
		}
	}
	return true
}

func (r *result) add(m *map[string]*finding, sig string, w witness) {
	if *m == nil {
		*m = map[string]*finding{}
	}
	if f, ok := (*m)[sig]; ok {
		f.Cases++
		// keep the smallest witness (fewest original rows in the offending files, shortest predicate)
		if len(w.Where) < len(f.Witness.Where) {
			f.Witness = w
		}
		return
	}
	(*m)[sig] = &finding{Signature: sig, Cases: 1, Witness: w}
}

func main() {
	in := flag.String("scenarios", "", "")
	out := flag.String("out", "", "")
	work := flag.String("work", "", "scratch directory")
	flag.Parse()
	res := &result{FileClasses: map[string]int{}, ReqKinds: map[string]int{}}
	fail := func(msg string) {
		res.Infra = msg
		b, _ := json.Marshal(res)
		os.WriteFile(*out, b, 0o644)
		os.Exit(0)
	}
	raw, err := os.ReadFile(*in)
	if err != nil {
		fmt.Fprintln(os.Stderr, err)
		os.Exit(2)
	}
	var inp input
	if err := json.Unmarshal(raw, &inp); err != nil {
		fail("scenarios: " + err.Error())
	}
	env, err := kit.NewEnv(*work)
	if err != nil {
		fail("env: " + err.Error())
	}
	defer env.Close()
	dh := api.NewDeleteHandler(env.Duck, env.Backend, &config.DeleteConfig{Enabled: true, ConfirmationThreshold: 1 << 30, MaxRowsPerDelete: 1 << 30},
		nil, filepath.Join(env.Root, "_upload"), env.Logger)
	app := fiber.New(fiber.Config{DisableStartupMessage: true})
	dh.RegisterRoutes(app)
	h := &handlerEnv{env: env, app: app}

	rows := inp.Dataset.Rows
	if len(inp.Dataset.PartDirs) != 3 || inp.Dataset.FileName == "" {
		fail("dataset without partition directories / file name")
	}
	tuplesOf := map[string][]string{}
	for lay, ts := range inp.Dataset.Times {
		if len(ts) != len(rows) {
			fail("times of layout " + lay + " have the wrong length")
		}
		tu := make([]string, len(rows))
		for i, r := range rows {
			tu[i] = tuple(r, ts[i])
		}
		tuplesOf[lay] = tu
	}
	// templates: one directory per layout with f1..f3.parquet
	tplFiles := map[string]map[int][]int{} // layout -> file -> row indexes (0-based)
	for lay, assign := range inp.Dataset.Layouts {
		if len(assign) != len(rows) {
			fail("layout " + lay + " has the wrong length")
		}
		byFile := map[int][]int{}
		for i, f := range assign {
			byFile[f] = append(byFile[f], i)
		}
		tplFiles[lay] = byFile
		for f, idx := range byFile {
			var vals []string
			for _, i := range idx {
				vals = append(vals, values(rows[i], inp.Dataset.Times[lay][i]))
			}
			abs := filepath.Join(env.Root, "_tpl", lay, fmt.Sprintf("f%d.parquet", f))
			sel := baseTS + " + to_seconds(t) AS time, CAST(v AS BIGINT) AS v, CAST(s AS VARCHAR) AS s, CAST(f AS DOUBLE) AS f"
			if err := env.WriteParquet(abs, sel, "t, v, s, f", vals); err != nil {
				fail("write template: " + err.Error())
			}
		}
	}

	const db = "vdb"
	for ci, c := range inp.Cases {
		var p pred
		if err := json.Unmarshal(c.P, &p); err != nil {
			fail("predicate: " + err.Error())
		}
		meas := fmt.Sprintf("m%d", ci)
		rel := filepath.Join(db, meas)
		tuples := tuplesOf[c.Lay]
		if tuples == nil {
			fail("no times for layout " + c.Lay)
		}
		byFile := tplFiles[c.Lay]
		if byFile == nil {
			fail("unknown layout " + c.Lay)
		}
		if len(c.TV) != len(rows) || len(c.Expected) != 3 || len(c.Impl) != 3 {
			fail("case does not fit the dataset's row universe")
		}
		// every file carries the same base name, in its own partition directory
		fname := func(f int) string { return filepath.Join(inp.Dataset.PartDirs[f-1], inp.Dataset.FileName) }
		for f := range byFile {
			if err := kit.CopyFile(filepath.Join(env.Root, "_tpl", c.Lay, fmt.Sprintf("f%d.parquet", f)), filepath.Join(env.Root, rel, fname(f))); err != nil {
				fail("copy: " + err.Error())
			}
		}
		where := render(&p, true)
		junkRel = ""
		for _, jl := range inp.Dataset.JunkLays {
			if jl == c.Lay {
				junkRel = filepath.Join(rel, inp.Dataset.JunkDir, inp.Dataset.FileName)
				if err := os.MkdirAll(filepath.Dir(filepath.Join(env.Root, junkRel)), 0o755); err != nil {
					fail(err.Error())
				}
				if err := os.WriteFile(filepath.Join(env.Root, junkRel), junkBytes, 0o644); err != nil {
					fail(err.Error())
				}
				res.JunkCases++
			}
		}
		before, duck, err := readMeasurement(env, rel, fmt.Sprintf("CASE WHEN (%s) THEN 'T' WHEN NOT (%s) THEN 'F' ELSE 'N' END", where, where))
		if err != nil {
			fail("read before / second opinion for " + where + ": " + err.Error())
		}
		// the fixture must be what the specification says it is
		tvOf := map[string]string{}
		expAfter := map[string][]string{}
		implAfter := map[string][]string{}
		for f, idx := range byFile {
			var want []string
			cls := map[string]bool{}
			for _, i := range idx {
				want = append(want, tuples[i])
				if old, ok := tvOf[tuples[i]]; ok && old != c.TV[i] {
					fail("identical rows with different truth values")
				}
				tvOf[tuples[i]] = c.TV[i]
				cls[c.TV[i]] = true
			}
			sort.Strings(want)
			if strings.Join(before[fname(f)], "\n") != strings.Join(want, "\n") {
				fail(fmt.Sprintf("fixture %s/%s differs from the specification's dataset: %v vs %v", c.Lay, fname(f), before[fname(f)], want))
			}
			k := ""
			for _, x := range []string{"T", "F", "N"} {
				if cls[x] {
					k += x
				}
			}
			res.FileClasses[k]++
			conv := func(ids []int) []string {
				var o []string
				for _, id := range ids {
					o = append(o, tuples[id-1])
				}
				sort.Strings(o)
				return o
			}
			if e := conv(c.Expected[f-1]); len(e) > 0 {
				expAfter[fname(f)] = e
			}
			if e := conv(c.Impl[f-1]); len(e) > 0 {
				implAfter[fname(f)] = e
			}
		}
		// second opinion: DuckDB's evaluation of the rendered predicate on the original rows
		disagree := false
		for t, d := range duck {
			res.SecondOpinion++
			if tvOf[t] != d {
				disagree = true
				if len(res.Disagreements) < 10 {
					res.Disagreements = append(res.Disagreements, fmt.Sprintf("%s on %s: spec=%s duckdb=%s", where, t, tvOf[t], d))
				}
			}
		}
		if disagree {
			os.RemoveAll(filepath.Join(env.Root, rel))
			continue
		}
		res.Cases++
		res.Evaluations += len(rows)

		if c.FullTable {
			res.FullTableCases++
		}
		if c.HasConst {
			res.ConstCases++
		}
		if len(c.Reqs) == 0 || !c.Reqs[len(c.Reqs)-1].Dry {
			fail("case without a dry-run request")
		}
		// the requests that precede the confirmed delete: every flag combination, in the specification's order
		var dry *delResp
		var afterDry map[string][]string
		abort := false
		for _, rq := range c.Reqs {
			st, dr, err := h.post(db, meas, where, rq.Dry, rq.Confirm)
			res.Requests++
			res.ReqKinds[fmt.Sprintf("dry_run=%v,confirm=%v:%s", rq.Dry, rq.Confirm, rq.Out)]++
			if err != nil {
				fail("request: " + err.Error())
			}
			wq := witness{Where: where, Layout: c.Lay, Before: before, TruthByRow: tvOf, ExpectedKeep: before, TrueRows: c.ExpectedCount,
				Note: fmt.Sprintf("request dry_run=%v confirm=%v answered status %d %+v", rq.Dry, rq.Confirm, st, dr)}
			if rq.Out == "rejected" {
				if st >= 400 && st < 500 {
					continue // refused: nothing ran
				}
				res.add(&res.drift, fmt.Sprintf("request-dry_run=%v-confirm=%v-not-refused", rq.Dry, rq.Confirm), wq)
			} else if st != 200 || dr == nil || !dr.Success {
				if len(res.Errors) < 10 {
					res.Errors = append(res.Errors, fmt.Sprintf("dry run %q (confirm=%v): status %d resp %+v", where, rq.Confirm, st, dr))
				}
				abort = true
				break
			}
			state, _, err := readMeasurement(env, rel, "")
			if err != nil {
				fail("read after request: " + err.Error())
			}
			if !sameState(before, state) {
				wq.After = state
				if rq.Dry {
					sig := "dry-run-modified-data"
					if rq.Confirm {
						sig = "dry-run-with-confirm-modified-data"
					}
					if c.FullTable {
						sig += ":full-table-predicate"
					}
					res.add(&res.viol, sig, wq)
				} else {
					// an unconfirmed, non-dry request that changes data is outside the property statement: reported as drift
					res.add(&res.drift, "unconfirmed-request-modified-data", wq)
				}
				abort = true
				break
			}
			if rq.Out == "dry" && st == 200 {
				if !dr.DryRun {
					res.add(&res.drift, "dry-run-answered-with-dry_run=false", wq)
				}
				if dr.DeletedCount != rq.Count {
					res.add(&res.drift, "dry-run-report-differs-from-RowDelete.tla", wq)
				}
				if dry != nil && dry.DeletedCount != dr.DeletedCount {
					wq.DryCount = dry.DeletedCount
					wq.Deleted = dr.DeletedCount
					res.add(&res.viol, "dry-run-count-depends-on-confirm-flag", wq)
				}
				dry, afterDry = dr, state
			}
		}
		if abort || dry == nil {
			os.RemoveAll(filepath.Join(env.Root, rel))
			continue
		}
		st2, conf, err := h.post(db, meas, where, false, true)
		res.Requests++
		if err != nil || conf == nil {
			fail(fmt.Sprintf("confirmed delete %q: status %d err %v", where, st2, err))
		}
		failed := st2 != 200 || !conf.Success
		if failed && len(res.Errors) < 10 {
			res.Errors = append(res.Errors, fmt.Sprintf("confirmed delete %q: status %d resp %+v", where, st2, conf))
		}
		after, _, err := readMeasurement(env, rel, "")
		if junkRel != "" {
			if b, e := os.ReadFile(filepath.Join(env.Root, junkRel)); e != nil || string(b) != string(junkBytes) {
				res.add(&res.drift, "unreadable-file-removed-or-rewritten", witness{Where: where, Layout: c.Lay, Before: before, TrueRows: c.ExpectedCount})
			}
		}
		if err != nil {
			fail("read after delete: " + err.Error())
		}
		nBefore, nAfter := 0, 0
		for _, v := range before {
			nBefore += len(v)
		}
		for _, v := range after {
			nAfter += len(v)
		}
		w := witness{Where: where, Layout: c.Lay, Before: before, TruthByRow: tvOf, After: after, ExpectedKeep: expAfter,
			DryCount: dry.DeletedCount, Deleted: conf.DeletedCount, Disappeared: nBefore - nAfter, TrueRows: c.ExpectedCount}
		res.Rewrites += conf.RewrittenFiles
		for f := range before {
			if _, ok := after[f]; !ok {
				res.RemovedFiles++
			}
		}
		if c.ExpectedCount > 0 {
			res.NontrivialKeys = append(res.NontrivialKeys, c.Lay+":"+strings.Join(c.TV, ""))
		}

		// ---- judgement against the property
		if !sameState(before, afterDry) {
			w2 := w
			w2.After = afterDry
			w2.Note = "state after the dry run differs from the state before it"
			res.add(&res.viol, "dry-run-modified-data", w2)
		}
		sigs := map[string]bool{}
		var missingAll, extraAll []string
		files := map[string]bool{}
		for f := range before {
			files[f] = true
		}
		for f := range after {
			files[f] = true
		}
		onlyNullInAffected := true
		for f := range files {
			missing, extra := kit.MultisetDiff(expAfter[f], after[f])
			affected := false
			for _, t := range before[f] {
				if tvOf[t] == "T" {
					affected = true
				}
			}
			for _, t := range missing {
				missingAll = append(missingAll, f+": "+t)
				stillThere := false
				for _, u := range after[f] {
					if u == t {
						stillThere = true
					}
				}
				switch {
				case stillThere:
					sigs["duplicate-rows-collapsed-by-rewrite"] = true
					onlyNullInAffected = false
				case tvOf[t] == "N" && affected:
					sigs["null-predicate-rows-deleted-from-affected-file"] = true
				case tvOf[t] == "N":
					sigs["null-predicate-rows-deleted-from-unaffected-file"] = true
					onlyNullInAffected = false
				default:
					sigs["false-predicate-rows-deleted"] = true
					onlyNullInAffected = false
				}
			}
			if failed {
				extra = nil // a delete that reported failure may leave selected rows behind; rows that had to stay are still judged
			}
			for _, t := range extra {
				extraAll = append(extraAll, f+": "+t)
				onlyNullInAffected = false
				if _, known := tvOf[t]; known && before[f] != nil {
					sigs["true-predicate-rows-survive"] = true
				} else {
					sigs["rows-altered-or-invented-by-rewrite"] = true
				}
			}
		}
		sort.Strings(missingAll)
		sort.Strings(extraAll)
		w.Missing, w.Surviving = missingAll, extraAll
		if failed {
			w.Note = fmt.Sprintf("the confirmed delete answered status %d success=%v (%s): only rows that had to stay are judged", st2, conf.Success, conf.Error)
			for s := range sigs {
				res.add(&res.viol, s, w)
			}
			os.RemoveAll(filepath.Join(env.Root, rel))
			continue
		}
		if conf.DeletedCount != int64(nBefore-nAfter) {
			sigs["deleted-count-differs-from-rows-disappeared"] = true
		}
		if dry.DeletedCount != conf.DeletedCount {
			// the dry run counts TRUE rows; when the confirmed run removed exactly the TRUE rows plus the NULL rows of
			// affected files, the count difference is the same mechanism and is reported with it
			if !(sigs["null-predicate-rows-deleted-from-affected-file"] && onlyNullInAffected && dry.DeletedCount == c.ExpectedCount) {
				sigs["dry-run-count-differs-from-confirmed-count"] = true
			}
		} else if dry.DeletedCount != c.ExpectedCount && len(sigs) == 0 {
			sigs["reported-count-differs-from-selected-rows"] = true
		}
		for s := range sigs {
			res.add(&res.viol, s, w)
		}
		// drift: the implementation-shaped model's prediction (RowDelete.tla with Keep = "is_not_true", the code as it is now)
		if !sameState(after, implAfter) || conf.DeletedCount != c.ImplDeleted || dry.DeletedCount != c.ImplDry {
			res.add(&res.drift, "real-outcome-differs-from-RowDelete(Keep=is_not_true)", w)
		}
		if len(res.Samples) < 4 && c.ExpectedCount > 0 && ci%7 == 0 {
			res.Samples = append(res.Samples, w)
		}
		os.RemoveAll(filepath.Join(env.Root, rel))
	}
	// ---- overlapping confirmed deletes (Overlap.tla): A is held between scan and rewrite while B runs completely
	if len(inp.Overlaps) > 0 {
		gw := &gate{}
		dhA := api.NewDeleteHandler(env.Duck, env.Backend, &config.DeleteConfig{Enabled: true, ConfirmationThreshold: 1 << 30, MaxRowsPerDelete: 1 << 30},
			nil, filepath.Join(env.Root, "_upload"), zerolog.New(gw).Level(zerolog.InfoLevel))
		appA := fiber.New(fiber.Config{DisableStartupMessage: true})
		dhA.RegisterRoutes(appA)
		hA := &handlerEnv{env: env, app: appA}
		junkRel = ""
		for oi, c := range inp.Overlaps {
			var pa, pb pred
			if json.Unmarshal(c.PA, &pa) != nil || json.Unmarshal(c.PB, &pb) != nil {
				fail("overlap predicates")
			}
			whereA, whereB := render(&pa, true), render(&pb, true)
			meas := fmt.Sprintf("o%d", oi)
			rel := filepath.Join(db, meas)
			byFile := tplFiles[c.Lay]
			tuples := tuplesOf[c.Lay]
			if byFile == nil || tuples == nil {
				fail("overlap: unknown layout " + c.Lay)
			}
			fname := func(f int) string { return filepath.Join(inp.Dataset.PartDirs[f-1], inp.Dataset.FileName) }
			for f := range byFile {
				if err := kit.CopyFile(filepath.Join(env.Root, "_tpl", c.Lay, fmt.Sprintf("f%d.parquet", f)), filepath.Join(env.Root, rel, fname(f))); err != nil {
					fail("copy: " + err.Error())
				}
			}
			before, _, err := readMeasurement(env, rel, "")
			if err != nil {
				fail("overlap read before: " + err.Error())
			}
			if len(c.TVA) != len(rows) || len(c.TVB) != len(rows) || len(c.Final) != 3 {
				fail("overlap behaviour does not fit the dataset's row universe")
			}
			selected := map[string]bool{} // tuple selected by A or B
			expFinal := map[string][]string{}
			for f, idx := range byFile {
				for _, i := range idx {
					if c.TVA[i] == "T" || c.TVB[i] == "T" {
						selected[tuples[i]] = true
					}
				}
				var o []string
				for _, id := range c.Final[f-1] {
					o = append(o, tuples[id-1])
				}
				sort.Strings(o)
				if len(o) > 0 {
					expFinal[fname(f)] = o
				}
			}
			gw.arm()
			var stA int
			var respA *delResp
			var errA error
			doneA := make(chan struct{})
			go func() {
				stA, respA, errA = hA.post(db, meas, whereA, false, true)
				close(doneA)
			}()
			gated := false
			select {
			case <-gw.reached:
				gated = true
			case <-doneA:
			}
			stB, respB, errB := h.post(db, meas, whereB, false, true)
			if gated {
				close(gw.release)
				<-doneA
			}
			res.Requests += 2
			res.Overlaps++
			if gated {
				res.OverlapGated++
			} else {
				res.OverlapMissed++
			}
			if errA != nil || errB != nil || respA == nil || respB == nil {
				fail(fmt.Sprintf("overlap requests: %v %v", errA, errB))
			}
			after, _, err := readMeasurement(env, rel, "")
			if err != nil {
				fail("overlap read after: " + err.Error())
			}
			okA, okB := stA == 200 && respA.Success, stB == 200 && respB.Success
			if !okA || !okB {
				res.OverlapFailed++
			}
			nBefore, nAfter := 0, 0
			for _, v := range before {
				nBefore += len(v)
			}
			for _, v := range after {
				nAfter += len(v)
			}
			w := witness{Where: whereA + "   ||   " + whereB, Layout: c.Lay, Before: before, After: after, ExpectedKeep: expFinal,
				Deleted: respA.DeletedCount + respB.DeletedCount, Disappeared: nBefore - nAfter,
				Note: fmt.Sprintf("request A (%q) held between scan and rewrite=%v while request B (%q) ran; A answered %d %+v ; B answered %d %+v", whereA, gated, whereB, stA, *respA, stB, *respB)}
			files := map[string]bool{}
			for f := range before {
				files[f] = true
			}
			for f := range after {
				files[f] = true
			}
			sigs := map[string]bool{}
			for f := range files {
				missing, extra := kit.MultisetDiff(expFinal[f], after[f])
				for _, t := range missing {
					w.Missing = append(w.Missing, f+": "+t)
					sigs["overlapping-deletes:unselected-rows-deleted"] = true
				}
				for _, t := range extra {
					w.Surviving = append(w.Surviving, f+": "+t)
					if !selected[t] {
						sigs["overlapping-deletes:rows-altered-or-invented"] = true
					} else if okA && okB {
						sigs["overlapping-deletes:selected-rows-survive"] = true
					}
				}
			}
			if okA && okB && respA.DeletedCount+respB.DeletedCount != int64(nBefore-nAfter) {
				sigs["overlapping-deletes:reported-counts-differ-from-rows-disappeared"] = true
			}
			for s := range sigs {
				res.add(&res.viol, s, w)
			}
			if gated && (respA.DeletedCount != c.DelA || respB.DeletedCount != c.DelB || okA == c.FailA || okB == c.FailB) {
				res.add(&res.drift, "overlap-outcome-differs-from-Overlap.tla", w)
			}
			os.RemoveAll(filepath.Join(env.Root, rel))
		}
	}
	for _, m := range []struct {
		src map[string]*finding
		dst *[]*finding
	}{{res.viol, &res.Violations}, {res.drift, &res.Drift}} {
		var keys []string
		for k := range m.src {
			keys = append(keys, k)
		}
		sort.Strings(keys)
		for _, k := range keys {
			*m.dst = append(*m.dst, m.src[k])
		}
	}
	b, _ := json.Marshal(res)
	if err := os.WriteFile(*out, b, 0o644); err != nil {
		fmt.Fprintln(os.Stderr, err)
		os.Exit(2)
	}
}

// Command edgesync is the C27 driver. Every fault schedule produced by TLC from
// specs/edgesync/EdgeSync.tla (passes, per-call transport faults, one spoke crash, environment
// actions) is executed against the REAL edgesync.Agent + Ledger (SQLite file) and the REAL hub
// Receiver + Reconciler + HubIndex over two LocalBackends, joined by an in-process transport that
// injects the scheduled faults. Observations:
//   - ledger transitions: rows of a side table filled by SQLite triggers on sync_ledger (the
//     database, not the code under test, writes the log);
//   - hub exposure: after every mutating call on the hub's storage backend the hub directory is
//     walked and every object outside the staging area is hashed and classified against the
//     spoke's bytes (own / foreign / bad);
//   - environment actions performed by the driver itself.
//
// The merged event sequence of every scenario is written as one ndjson trace (scenarios
// separated by "end") which the check validates with TLC against EdgeSyncProp. The end state
// is also checked directly, and compared with TLC's prediction (drift detector only).
package main

import (
	"bytes"
	"context"
	"crypto/sha256"
	"database/sql"
	"database/sql/driver"
	"encoding/hex"
	"encoding/json"
	"errors"
	"flag"
	"fmt"
	"io"
	"io/fs"
	"os"
	"path/filepath"
	"sort"
	"strings"
	"sync"
	"time"

	"github.com/basekick-labs/arc/internal/edgesync"
	"github.com/basekick-labs/arc/internal/storage"
	sqlite3 "github.com/mattn/go-sqlite3"
	"github.com/rs/zerolog"
)

const (
	spokeID     = "spoke-a"
	chunk       = 24 // a file is three chunks (two truncation points)
	chunks      = 3
	maxAttempts = 3
)

// ---------------------------------------------------------------- schedule (TLC hist)

type histEv struct {
	A     string `json:"a"`
	Kind  string `json:"kind,omitempty"`
	F     int    `json:"f,omitempty"`
	Fault string `json:"fault,omitempty"`
	W     int    `json:"w,omitempty"`
	C     int    `json:"c,omitempty"`
}

type scenario struct {
	ID   int      `json:"id"`
	Hist []histEv `json:"hist"`
	Led  []string `json:"led"`
	Hub  []string `json:"hub"`
	Idx  []string `json:"idx"`
}

type envAct struct {
	Kind string
	F    int
}

type callPlan struct {
	Kind  string
	F     int
	Fault string
	Envs  []envAct
}

type passPlan struct {
	Clean    bool
	Restart  bool // new Agent instance + reopened ledger before this pass
	Calls    []callPlan
	CrashW   int
	CrashC   int
	HasCrash bool
	PostEnvs []envAct
}

// plan turns TLC's flat history into idle environment actions + passes.
func plan(h []histEv) (pre [][]envAct, passes []passPlan) {
	// pre[i] = environment actions applied before pass i (len = len(passes)+1; the last one is after the final pass)
	var idle []envAct
	var cur *passPlan
	var pend []envAct
	crashed := false
	settled := false
	restart := false
	closePass := func() {
		if cur != nil {
			cur.PostEnvs = append(cur.PostEnvs, pend...)
			pend = nil
			passes = append(passes, *cur)
			cur = nil
		}
	}
	for _, e := range h {
		switch e.A {
		case "pass":
			closePass()
			pre = append(pre, idle)
			idle = nil
			cur = &passPlan{Clean: settled, Restart: restart}
			crashed, restart = false, false
		case "restart":
			closePass()
			restart = true
		case "settle":
			closePass()
			settled = true
		case "env":
			if cur == nil {
				idle = append(idle, envAct{e.Kind, e.F})
			} else if crashed {
				cur.PostEnvs = append(cur.PostEnvs, envAct{e.Kind, e.F})
			} else {
				pend = append(pend, envAct{e.Kind, e.F})
			}
		case "call":
			if cur != nil {
				cur.Calls = append(cur.Calls, callPlan{Kind: e.Kind, F: e.F, Fault: e.Fault, Envs: pend})
				pend = nil
			}
		case "crash":
			if cur != nil {
				cur.HasCrash, cur.CrashW, cur.CrashC = true, e.W, e.C
				crashed = true
				cur.PostEnvs = append(cur.PostEnvs, pend...)
				pend = nil
			}
		}
	}
	closePass()
	pre = append(pre, idle)
	return pre, passes
}

// ---------------------------------------------------------------- events / results

type event map[string]any

type scenResult struct {
	ID        int      `json:"id"`
	FirstLine int      `json:"first_line"` // 1-based line of the first event in trace.ndjson
	Events    []event  `json:"events"`
	FinalLed  []string `json:"final_led"`
	FinalHub  []string `json:"final_hub"`
	Direct    []event  `json:"direct,omitempty"` // end-state / structural violations seen directly
	Drift     []string `json:"drift,omitempty"`
	Applied   []string `json:"applied"` // fault / env / crash kinds that actually took effect
	Passes    int      `json:"passes"`
}

// ---------------------------------------------------------------- harness state for one scenario

type harness struct {
	mu      sync.Mutex
	nfiles  int
	dir     string
	spokeFS string
	hubFS   string
	paths   []string // index f-1
	own     [][]byte
	foreign [][]byte
	ownSha  []string
	forSha  []string

	mon     *sql.DB // monitoring connection to the spoke ledger database
	lastLog int64

	hubBackend *obsBackend
	hubDB      *sql.DB
	index      *edgesync.HubIndex
	recv       *edgesync.Receiver
	rec        *edgesync.Reconciler

	// pass state
	inPass      bool
	plan        *passPlan
	w, c        int
	crashed     bool
	callNo      int
	idxFail     bool
	envMode     bool
	hubState    map[int]string // last observed class per file
	hubVanished map[int]bool

	cancelPass context.CancelFunc // ends the running pass's context (scheduled "cancel" faults only)

	res *scenResult
}

func (h *harness) emit(e event) {
	h.res.Events = append(h.res.Events, e)
}

func (h *harness) drift(f string, a ...any) {
	h.res.Drift = append(h.res.Drift, fmt.Sprintf(f, a...))
}

func (h *harness) applied(k string) { h.res.Applied = append(h.res.Applied, k) }

func (h *harness) fileOf(p string) int {
	for i, q := range h.paths {
		if q == p {
			return i + 1
		}
	}
	return 0
}

// drainLog moves new trigger rows into the event sequence. Caller holds mu.
func (h *harness) drainLog() error {
	rows, err := h.mon.Query(`SELECT id, path, old, new FROM verif_translog WHERE id > ? ORDER BY id`, h.lastLog)
	if err != nil {
		return err
	}
	defer rows.Close()
	for rows.Next() {
		var id int64
		var p, o, n string
		if err := rows.Scan(&id, &p, &o, &n); err != nil {
			return err
		}
		h.lastLog = id
		f := h.fileOf(p)
		if f == 0 {
			h.res.Direct = append(h.res.Direct, event{"sig": "ledger-row-for-unknown-path", "path": p})
			continue
		}
		h.emit(event{"ev": "tr", "f": f, "old": o, "new": n})
	}
	return rows.Err()
}

// stepCheck is called (mu held) after a counted step; returns true when the crash point is reached.
func (h *harness) stepCheck() bool {
	if h.plan != nil && h.plan.HasCrash && !h.crashed && h.w == h.plan.CrashW && h.c == h.plan.CrashC {
		h.crashed = true
		h.applied("crash")
		return true
	}
	return false
}

// onLedgerWrite is called by the SQL wrapper after a ledger write statement / transaction committed.
func (h *harness) onLedgerWrite() {
	h.mu.Lock()
	defer h.mu.Unlock()
	if err := h.drainLog(); err != nil {
		panic("drain translog: " + err.Error())
	}
	if h.inPass && !h.crashed {
		h.w++
		h.stepCheck()
	}
}

func (h *harness) dead() bool {
	h.mu.Lock()
	defer h.mu.Unlock()
	return h.crashed
}

// snapshotHub walks the hub directory and emits exposure changes. Caller holds mu.
func (h *harness) snapshotHub() {
	now, lens := map[int]string{}, map[int]int{}
	root := h.hubFS
	_ = filepath.WalkDir(root, func(p string, d fs.DirEntry, err error) error {
		if err != nil {
			return nil
		}
		rel, _ := filepath.Rel(root, p)
		if d.IsDir() {
			if rel == edgesync.StagingPrefix {
				return filepath.SkipDir
			}
			return nil
		}
		if !strings.HasSuffix(rel, ".parquet") {
			return nil // backend-internal ".part" files are not objects a reader would open
		}
		rel = filepath.ToSlash(rel)
		f := 0
		for i, q := range h.paths {
			if edgesync.NamespacedPath(spokeID, q) == rel {
				f = i + 1
			}
		}
		if f == 0 {
			h.res.Direct = append(h.res.Direct, event{"sig": "hub-exposed-unknown-path", "path": rel})
			return nil
		}
		b, err := os.ReadFile(p)
		if err != nil {
			return nil
		}
		// judged on the bytes themselves: same length AND same content as what the driver wrote on the spoke
		switch {
		case len(b) == len(h.own[f-1]) && bytes.Equal(b, h.own[f-1]):
			now[f] = "own"
		case len(b) == len(h.foreign[f-1]) && bytes.Equal(b, h.foreign[f-1]):
			now[f] = "foreign"
		default:
			now[f] = "bad"
		}
		lens[f] = len(b)
		return nil
	})
	for f := 1; f <= h.nfiles; f++ {
		prev, cur := h.hubState[f], now[f]
		if prev == "" {
			prev = "none"
		}
		if cur == "" {
			cur = "none"
		}
		if prev == cur {
			continue
		}
		h.hubState[f] = cur
		if h.envMode {
			continue
		}
		if cur == "none" {
			h.emit(event{"ev": "unexpose", "f": f})
		} else {
			h.emit(event{"ev": "commit", "f": f, "cls": cur, "len": lens[f], "spoke_len": len(h.own[f-1])})
		}
	}
}

func (h *harness) hubMutated() {
	h.mu.Lock()
	defer h.mu.Unlock()
	h.snapshotHub()
}

// applyEnv performs one environment action (mu NOT held).
func (h *harness) applyEnv(a envAct) {
	ctx := context.Background()
	f := a.F
	p := h.paths[f-1]
	hubAbs := filepath.Join(h.hubFS, filepath.FromSlash(edgesync.NamespacedPath(spokeID, p)))
	h.mu.Lock()
	state := h.hubState[f]
	if state == "" {
		state = "none"
	}
	h.envMode = true
	h.mu.Unlock()
	ok := false
	switch a.Kind {
	case "spokevanish":
		if err := os.Remove(filepath.Join(h.spokeFS, filepath.FromSlash(p))); err == nil {
			ok = true
		}
	case "hubvanish":
		if state == "own" {
			ok = os.Remove(hubAbs) == nil
		}
	case "hubcompact":
		if state == "own" {
			held, err := h.index.Lookup(ctx, spokeID, []string{p})
			if hf, has := held[p]; err == nil && has && hf.SHA256 == h.ownSha[f-1] {
				if err := h.index.MarkCompacted(ctx, spokeID, []string{p}); err == nil {
					ok = os.Remove(hubAbs) == nil
				}
			}
		}
	case "foreign":
		if state == "none" {
			r, err := h.recv.Receive(ctx, spokeID, p, h.forSha[f-1], int64(len(h.foreign[f-1])), 0, bytes.NewReader(h.foreign[f-1]))
			ok = err == nil && r != nil && r.Outcome == edgesync.OutcomeCommitted
		}
	case "foreignraw":
		if state == "none" {
			if err := os.MkdirAll(filepath.Dir(hubAbs), 0o700); err == nil {
				ok = os.WriteFile(hubAbs, h.foreign[f-1], 0o600) == nil
			}
		}
	}
	h.mu.Lock()
	h.snapshotHub()
	h.envMode = false
	if ok {
		h.emit(event{"ev": "env", "kind": a.Kind, "f": f})
		h.applied("env:" + a.Kind)
		if a.Kind == "hubvanish" {
			h.hubVanished[f] = true
		}
	} else {
		h.drift("environment action %s(f%d) not applicable: hub holds %q", a.Kind, f, state)
	}
	h.mu.Unlock()
}

// callEntry is invoked by the transport at the start of a hub call; returns the scheduled fault.
func (h *harness) callEntry(kind string, path string) (fault string, alive bool) {
	h.mu.Lock()
	if h.crashed {
		h.mu.Unlock()
		return "", false
	}
	h.callNo++
	var cp *callPlan
	if h.plan != nil && h.callNo <= len(h.plan.Calls) {
		cp = &h.plan.Calls[h.callNo-1]
	}
	h.mu.Unlock()
	if cp == nil {
		if h.plan != nil && !h.plan.Clean {
			h.mu.Lock()
			h.drift("unscheduled %s call #%d (%s)", kind, h.callNo, path)
			h.mu.Unlock()
		}
		return "none", true
	}
	if cp.Kind != kind || (kind == "put" && h.fileOf(path) != cp.F) {
		h.mu.Lock()
		h.drift("call #%d is %s(%s) but the model expected %s(f%d)", h.callNo, kind, path, cp.Kind, cp.F)
		h.mu.Unlock()
		return "none", true
	}
	for _, a := range cp.Envs {
		h.applyEnv(a)
	}
	return cp.Fault, true
}

// callExit counts the call; returns true when the process "dies" right after it.
func (h *harness) callExit() bool {
	h.mu.Lock()
	defer h.mu.Unlock()
	if h.crashed {
		return true
	}
	h.c++
	return h.stepCheck()
}

// ---------------------------------------------------------------- fault-injecting in-process transport

type loopTransport struct{ h *harness }

var errDropped = errors.New("verif: request dropped by the link")
var errLostAck = errors.New("verif: reply lost by the link")
var errDead = errors.New("verif: spoke process is gone")

func (t *loopTransport) Reconcile(ctx context.Context, hubID string, pending []*edgesync.LedgerEntry) (*edgesync.ReconcileResult, error) {
	h := t.h
	fault, alive := h.callEntry("reconcile", "")
	if !alive {
		return nil, errDead
	}
	if fault == "drop" {
		h.mu.Lock()
		h.applied("reconcile:drop")
		h.mu.Unlock()
		if h.callExit() {
			return nil, errDead
		}
		return nil, errDropped
	}
	entries := make([]edgesync.ReconcileEntry, 0, len(pending))
	for _, e := range pending {
		entries = append(entries, edgesync.ReconcileEntry{Path: e.Path, SHA256: e.SHA256, SizeBytes: e.SizeBytes})
	}
	res, err := h.rec.Reconcile(ctx, spokeID, entries)
	if h.callExit() {
		return nil, errDead
	}
	if fault == "dropAfter" {
		h.mu.Lock()
		h.applied("reconcile:dropAfter")
		h.mu.Unlock()
		return nil, errLostAck
	}
	if err != nil {
		if errors.Is(err, edgesync.ErrReconcileTooLarge) {
			return nil, &edgesync.ReconcileTooLargeError{MaxEntries: h.rec.MaxEntries()}
		}
		return nil, fmt.Errorf("verif: hub answered reconcile with an error: %w", err)
	}
	return res, nil
}

func (t *loopTransport) PutFile(ctx context.Context, hubID string, entry *edgesync.LedgerEntry, body io.Reader, offset int64) (*edgesync.PutResult, error) {
	h := t.h
	data, rerr := io.ReadAll(body) // like the HTTP path: the request body is complete before the hub handler runs
	fault, alive := h.callEntry("put", entry.Path)
	if !alive {
		return nil, errDead
	}
	note := func(k string) {
		h.mu.Lock()
		h.applied("put:" + k)
		h.mu.Unlock()
	}
	if rerr != nil {
		if h.callExit() {
			return nil, errDead
		}
		return nil, fmt.Errorf("verif: file request: %w", rerr)
	}
	switch fault {
	case "cancel":
		// the pass context ends while the request is on the wire; it never reaches the hub
		note(fault)
		h.cancelPass()
		h.callExit()
		return nil, context.Canceled
	case "dropBefore":
		note(fault)
		if h.callExit() {
			return nil, errDead
		}
		return nil, errDropped
	case "backpressure":
		note(fault)
		if h.callExit() {
			return nil, errDead
		}
		return edgesync.BackpressureResult(time.Second), nil
	case "short", "shortDrop":
		// one more chunk reaches the hub, or nothing when a single chunk was left
		keep := 0
		if len(data) > chunk {
			keep = chunk
		}
		data = data[:keep]
		note(fault)
	case "corrupt":
		if len(data) > 0 {
			data = append([]byte(nil), data...)
			data[len(data)-1] ^= 0x40
			note(fault)
		}
	case "idxfail":
		h.mu.Lock()
		h.idxFail = true
		h.mu.Unlock()
	}
	res, err := h.recv.Receive(ctx, spokeID, entry.Path, entry.SHA256, entry.SizeBytes, offset, bytes.NewReader(data))
	h.mu.Lock()
	if fault == "idxfail" && !h.idxFail {
		h.applied("put:idxfail")
	}
	h.idxFail = false
	h.mu.Unlock()
	if h.callExit() {
		return nil, errDead
	}
	if fault == "cancelAfter" {
		note(fault)
		h.cancelPass()
		return nil, context.Canceled
	}
	if fault == "dropAfter" || fault == "shortDrop" {
		if fault == "dropAfter" {
			note(fault)
		}
		return nil, errLostAck
	}
	if err != nil {
		return nil, fmt.Errorf("verif: hub answered with an error: %w", err)
	}
	return res, nil
}

// ---------------------------------------------------------------- observing hub backend

type obsBackend struct {
	*storage.LocalBackend
	h *harness
}

func (b *obsBackend) Write(ctx context.Context, p string, d []byte) error {
	err := b.LocalBackend.Write(ctx, p, d)
	b.h.hubMutated()
	return err
}
func (b *obsBackend) WriteReader(ctx context.Context, p string, r io.Reader, n int64) error {
	err := b.LocalBackend.WriteReader(ctx, p, r, n)
	b.h.hubMutated()
	return err
}
func (b *obsBackend) AppendReader(ctx context.Context, p string, r io.Reader, n int64) error {
	err := b.LocalBackend.AppendReader(ctx, p, r, n)
	b.h.hubMutated()
	return err
}
func (b *obsBackend) Delete(ctx context.Context, p string) error {
	err := b.LocalBackend.Delete(ctx, p)
	b.h.hubMutated()
	return err
}
func (b *obsBackend) DeleteBatch(ctx context.Context, ps []string) error {
	err := b.LocalBackend.DeleteBatch(ctx, ps)
	b.h.hubMutated()
	return err
}

var _ storage.AppendingBackend = (*obsBackend)(nil)
var _ storage.ObjectLister = (*obsBackend)(nil)

// ---------------------------------------------------------------- SQL wrapper (crash + write hook)

type sqlCtl struct {
	onWrite func()              // after a committed ledger write
	dead    func() bool         // every operation fails once true
	failSQL func(q string) bool // statement-level failure injection
	isWrite func(q string) bool
}

type wConnector struct {
	dsn string
	ctl *sqlCtl
}

func (c *wConnector) Connect(context.Context) (driver.Conn, error) {
	cn, err := (&sqlite3.SQLiteDriver{}).Open(c.dsn)
	if err != nil {
		return nil, err
	}
	return &wConn{Conn: cn, ctl: c.ctl}, nil
}
func (c *wConnector) Driver() driver.Driver { return &sqlite3.SQLiteDriver{} }

var errSQLDead = errors.New("verif: database handle belongs to a dead process")
var errSQLInjected = errors.New("verif: injected statement failure")

type wConn struct {
	driver.Conn
	ctl     *sqlCtl
	inTx    bool
	txDirty bool
}

func (c *wConn) pre(q string) error {
	if c.ctl.dead != nil && c.ctl.dead() {
		return errSQLDead
	}
	if c.ctl.failSQL != nil && c.ctl.failSQL(q) {
		return errSQLInjected
	}
	return nil
}

func (c *wConn) wrote(q string) {
	if c.ctl.isWrite == nil || !c.ctl.isWrite(q) {
		return
	}
	if c.inTx {
		c.txDirty = true
		return
	}
	if c.ctl.onWrite != nil {
		c.ctl.onWrite()
	}
}

func (c *wConn) ExecContext(ctx context.Context, q string, args []driver.NamedValue) (driver.Result, error) {
	if err := c.pre(q); err != nil {
		return nil, err
	}
	r, err := c.Conn.(driver.ExecerContext).ExecContext(ctx, q, args)
	if err == nil {
		c.wrote(q)
	}
	return r, err
}

func (c *wConn) QueryContext(ctx context.Context, q string, args []driver.NamedValue) (driver.Rows, error) {
	if err := c.pre(q); err != nil {
		return nil, err
	}
	return c.Conn.(driver.QueryerContext).QueryContext(ctx, q, args)
}

func (c *wConn) PrepareContext(ctx context.Context, q string) (driver.Stmt, error) {
	if err := c.pre(q); err != nil {
		return nil, err
	}
	st, err := c.Conn.(driver.ConnPrepareContext).PrepareContext(ctx, q)
	if err != nil {
		return nil, err
	}
	return &wStmt{Stmt: st, c: c, q: q}, nil
}

func (c *wConn) Prepare(q string) (driver.Stmt, error) {
	return c.PrepareContext(context.Background(), q)
}

func (c *wConn) BeginTx(ctx context.Context, opts driver.TxOptions) (driver.Tx, error) {
	if err := c.pre(""); err != nil {
		return nil, err
	}
	tx, err := c.Conn.(driver.ConnBeginTx).BeginTx(ctx, opts)
	if err != nil {
		return nil, err
	}
	c.inTx, c.txDirty = true, false
	return &wTx{Tx: tx, c: c}, nil
}

func (c *wConn) Begin() (driver.Tx, error) {
	return c.BeginTx(context.Background(), driver.TxOptions{})
}

func (c *wConn) ResetSession(ctx context.Context) error {
	if r, ok := c.Conn.(driver.SessionResetter); ok {
		return r.ResetSession(ctx)
	}
	return nil
}

type wTx struct {
	driver.Tx
	c *wConn
}

func (t *wTx) Commit() error {
	c := t.c
	c.inTx = false
	if c.ctl.dead != nil && c.ctl.dead() {
		_ = t.Tx.Rollback()
		return errSQLDead
	}
	err := t.Tx.Commit()
	if err == nil && c.txDirty && c.ctl.onWrite != nil {
		c.ctl.onWrite()
	}
	c.txDirty = false
	return err
}

func (t *wTx) Rollback() error {
	t.c.inTx, t.c.txDirty = false, false
	return t.Tx.Rollback()
}

type wStmt struct {
	driver.Stmt
	c *wConn
	q string
}

func (s *wStmt) ExecContext(ctx context.Context, args []driver.NamedValue) (driver.Result, error) {
	if err := s.c.pre(s.q); err != nil {
		return nil, err
	}
	r, err := s.Stmt.(driver.StmtExecContext).ExecContext(ctx, args)
	if err == nil {
		s.c.wrote(s.q)
	}
	return r, err
}

func (s *wStmt) QueryContext(ctx context.Context, args []driver.NamedValue) (driver.Rows, error) {
	if err := s.c.pre(s.q); err != nil {
		return nil, err
	}
	return s.Stmt.(driver.StmtQueryContext).QueryContext(ctx, args)
}

func isLedgerWrite(q string) bool {
	t := strings.ToUpper(strings.TrimSpace(q))
	if !(strings.HasPrefix(t, "UPDATE") || strings.HasPrefix(t, "INSERT") || strings.HasPrefix(t, "DELETE")) {
		return false
	}
	return strings.Contains(t, "SYNC_LEDGER")
}

// ---------------------------------------------------------------- scenario execution

func content(seed, f int, foreign bool) []byte {
	b := make([]byte, chunks*chunk)
	x := uint32(seed*7919 + f*104729 + 17)
	if foreign {
		x ^= 0x5bd1e995
	}
	for i := range b {
		x = x*1664525 + 1013904223
		b[i] = byte(x >> 24)
	}
	return b
}

func shaHex(b []byte) string { s := sha256.Sum256(b); return hex.EncodeToString(s[:]) }

const triggerSQL = `
CREATE TABLE IF NOT EXISTS verif_translog(id INTEGER PRIMARY KEY AUTOINCREMENT, path TEXT, old TEXT, new TEXT);
CREATE TRIGGER IF NOT EXISTS verif_tr_upd AFTER UPDATE OF state ON sync_ledger
BEGIN INSERT INTO verif_translog(path, old, new) VALUES (new.path, old.state, new.state); END;
CREATE TRIGGER IF NOT EXISTS verif_tr_ins AFTER INSERT ON sync_ledger
BEGIN INSERT INTO verif_translog(path, old, new) VALUES (new.path, 'none', new.state); END;
CREATE TRIGGER IF NOT EXISTS verif_tr_del AFTER DELETE ON sync_ledger
BEGIN INSERT INTO verif_translog(path, old, new) VALUES (old.path, old.state, 'none'); END;
`

var padTo = 2

func runScenario(base string, sc scenario, nfiles int, seed int) (res *scenResult, infra error) {
	if len(sc.Led) > 0 {
		nfiles = len(sc.Led)
	}
	defer func() {
		if r := recover(); r != nil {
			infra = fmt.Errorf("scenario %d: panic: %v", sc.ID, r)
		}
	}()
	dir := filepath.Join(base, fmt.Sprintf("s%d", sc.ID))
	if err := os.MkdirAll(dir, 0o700); err != nil {
		return nil, err
	}
	defer os.RemoveAll(dir)
	logger := zerolog.Nop()
	h := &harness{nfiles: nfiles, dir: dir, spokeFS: filepath.Join(dir, "spoke"), hubFS: filepath.Join(dir, "hub"),
		hubState: map[int]string{}, hubVanished: map[int]bool{}, res: &scenResult{ID: sc.ID, Applied: []string{}}}
	ctx := context.Background()

	spokeBackend, err := storage.NewLocalBackend(h.spokeFS, logger)
	if err != nil {
		return nil, err
	}
	for f := 1; f <= nfiles; f++ {
		p := fmt.Sprintf("tele/cpu/2026/03/01/%02d/f%d.parquet", f, f) // the higher file number is the newer hour
		h.paths = append(h.paths, p)
		o, fo := content(seed, f, false), content(seed, f, true)
		h.own, h.foreign = append(h.own, o), append(h.foreign, fo)
		h.ownSha, h.forSha = append(h.ownSha, shaHex(o)), append(h.forSha, shaHex(fo))
		if err := spokeBackend.Write(ctx, p, o); err != nil {
			return nil, err
		}
	}

	// hub
	hubLocal, err := storage.NewLocalBackend(h.hubFS, logger)
	if err != nil {
		return nil, err
	}
	h.hubBackend = &obsBackend{LocalBackend: hubLocal, h: h}
	hubCtl := &sqlCtl{failSQL: func(q string) bool {
		h.mu.Lock()
		defer h.mu.Unlock()
		if h.idxFail && strings.Contains(q, "INSERT INTO sync_received") {
			h.idxFail = false
			return true
		}
		return false
	}}
	h.hubDB = sql.OpenDB(&wConnector{dsn: filepath.Join(dir, "hub.db") + "?_journal_mode=WAL&_busy_timeout=5000&_synchronous=OFF", ctl: hubCtl})
	h.hubDB.SetMaxOpenConns(1)
	defer h.hubDB.Close()
	if h.index, err = edgesync.NewHubIndex(h.hubDB, logger); err != nil {
		return nil, err
	}
	if h.recv, err = edgesync.NewReceiver(edgesync.ReceiverConfig{Backend: h.hubBackend, Logger: logger, Index: h.index}); err != nil {
		return nil, err
	}
	if h.rec, err = edgesync.NewReconciler(edgesync.ReconcilerConfig{Index: h.index, Backend: h.hubBackend}); err != nil {
		return nil, err
	}

	// spoke ledger database: schema by the real Ledger, triggers by the harness
	dsn := filepath.Join(dir, "spoke.db") + "?_journal_mode=WAL&_busy_timeout=5000&_synchronous=OFF"
	h.mon, err = sql.Open("sqlite3", dsn)
	if err != nil {
		return nil, err
	}
	defer h.mon.Close()

	openLedger := func() (*sql.DB, *edgesync.Ledger, error) {
		ctl := &sqlCtl{onWrite: h.onLedgerWrite, dead: h.dead, isWrite: isLedgerWrite}
		db := sql.OpenDB(&wConnector{dsn: dsn, ctl: ctl})
		db.SetMaxOpenConns(1)
		l, err := edgesync.NewLedger(db, logger)
		if err != nil {
			db.Close()
			return nil, nil, err
		}
		return db, l, nil
	}
	db, ledger, err := openLedger()
	if err != nil {
		return nil, err
	}
	defer func() { db.Close() }()
	if _, err := h.mon.Exec(triggerSQL); err != nil {
		return nil, fmt.Errorf("install triggers: %w", err)
	}

	tr := &loopTransport{h: h}
	var agent *edgesync.Agent
	runPass := func(pp *passPlan) (int, error) {
		if pp.Restart && agent != nil {
			// graceful restart: the old process is gone, a new one opens the same SQLite file
			db.Close()
			var err error
			if db, ledger, err = openLedger(); err != nil {
				return 0, fmt.Errorf("reopen ledger at restart: %w", err)
			}
			agent = nil
			h.applied("restart")
		}
		if agent == nil {
			// ONE Agent instance per process lifetime: passes on the same instance until a crash / restart
			var err error
			agent, err = edgesync.NewAgent(edgesync.AgentConfig{Ledger: ledger, Transport: tr, Backend: spokeBackend,
				SpokeID: spokeID, MaxAttempts: maxAttempts, MaxConcurrent: 1, Logger: logger})
			if err != nil {
				return 0, err
			}
		}
		h.mu.Lock()
		h.inPass, h.plan, h.w, h.c, h.callNo, h.crashed = true, pp, 0, 0, 0, false
		before := len(h.res.Events)
		h.mu.Unlock()
		// no deadline on the pass context: the only cancellation is the scheduled "cancel" fault; a hung pass is
		// caught by the watchdog below and is an infrastructure failure, never a verdict
		pctx, cancel := context.WithCancel(ctx)
		h.mu.Lock()
		h.cancelPass = cancel
		h.mu.Unlock()
		done := make(chan struct{})
		go func() { _, _ = agent.Run(pctx); close(done) }() // an error return is a legitimate outcome (dropped reconcile, dead process)
		timedOut := false
		select {
		case <-done:
		case <-time.After(10 * time.Minute):
			timedOut = true
		}
		cancel()
		h.mu.Lock()
		h.inPass = false
		wasCrashed := h.crashed
		if pp.HasCrash && !wasCrashed {
			h.drift("crash point (w=%d,c=%d) was not reached: the pass ended at (w=%d,c=%d)", pp.CrashW, pp.CrashC, h.w, h.c)
		}
		if h.callNo < len(pp.Calls) && !wasCrashed {
			h.drift("the pass made %d hub calls, the model expected %d", h.callNo, len(pp.Calls))
		}
		h.crashed = false
		if err := h.drainLog(); err != nil {
			h.mu.Unlock()
			return 0, err
		}
		n := len(h.res.Events) - before
		h.mu.Unlock()
		if timedOut {
			return 0, fmt.Errorf("scenario %d: agent pass did not finish in 10 min", sc.ID)
		}
		if wasCrashed {
			// the process is gone: nothing of it survives but the SQLite file
			db.Close()
			var err error
			if db, ledger, err = openLedger(); err != nil {
				return 0, fmt.Errorf("reopen ledger after crash: %w", err)
			}
			agent = nil
		}
		for _, a := range pp.PostEnvs {
			h.applyEnv(a)
		}
		h.res.Passes++
		return n, nil
	}

	pre, passes := plan(sc.Hist)
	for i := range passes {
		for _, a := range pre[i] {
			h.applyEnv(a)
		}
		if _, err := runPass(&passes[i]); err != nil {
			return nil, err
		}
	}
	for _, a := range pre[len(passes)] {
		h.applyEnv(a)
	}
	// faults have stopped: clean passes until a pass changes nothing
	quiet := false
	for i := 0; i < 8; i++ {
		n, err := runPass(&passPlan{Clean: true})
		if err != nil {
			return nil, err
		}
		if n == 0 {
			quiet = true
			break
		}
	}
	if !quiet {
		h.res.Direct = append(h.res.Direct, event{"sig": "no-quiescence:clean-passes-keep-changing-state"})
	}

	// end state, read from the real ledger file and the real hub storage
	h.mu.Lock()
	h.snapshotHub()
	h.mu.Unlock()
	final := make([]string, nfiles)
	for f := 1; f <= nfiles; f++ {
		var st string
		err := h.mon.QueryRow(`SELECT state FROM sync_ledger WHERE hub_id = ? AND path = ?`, edgesync.DefaultHubID, h.paths[f-1]).Scan(&st)
		if errors.Is(err, sql.ErrNoRows) {
			st = "none"
		} else if err != nil {
			return nil, err
		}
		final[f-1] = st
	}
	hubv := make([]string, nfiles)
	for f := 1; f <= nfiles; f++ {
		s := h.hubState[f]
		if s == "" {
			s = "none"
		}
		hubv[f-1] = s
	}
	h.res.FinalLed, h.res.FinalHub = final, hubv
	pl, ph := append([]string(nil), final...), append([]string(nil), hubv...)
	for len(pl) < padTo { // scenarios with fewer files share one trace (and one TLC constant) with the larger ones
		pl, ph = append(pl, "none"), append(ph, "none")
	}
	h.emit(event{"ev": "quiesced", "led": pl, "hub": ph})

	seeded := map[int]bool{}
	for _, e := range h.res.Events {
		if e["ev"] == "env" && (e["kind"] == "foreign" || e["kind"] == "foreignraw") {
			seeded[e["f"].(int)] = true
		}
	}
	held, err := h.index.Lookup(ctx, spokeID, h.paths)
	if err != nil {
		return nil, err
	}
	for f := 1; f <= nfiles; f++ {
		st, hb := final[f-1], hubv[f-1]
		if st != "none" && st != "synced" && st != "skipped" && st != "failed" {
			h.res.Direct = append(h.res.Direct, event{"sig": "not-quiescent:row-left-" + st, "f": f})
		}
		if hb == "bad" || (hb == "foreign" && !seeded[f]) {
			h.res.Direct = append(h.res.Direct, event{"sig": "hub-exposes-bytes-that-differ-from-the-spokes", "f": f, "class": hb})
		}
		if st == "synced" && hb != "own" && !h.hubVanished[f] {
			hf, ok := held[h.paths[f-1]]
			if !(ok && hf.Compacted && hf.SHA256 == h.ownSha[f-1]) {
				h.res.Direct = append(h.res.Direct, event{"sig": "synced-but-hub-does-not-hold-the-content", "f": f, "hub": hb})
			}
		}
	}

	// drift detector: TLC's predicted end state
	if len(sc.Led) == nfiles && len(h.res.Drift) == 0 {
		for f := 1; f <= nfiles; f++ {
			if sc.Led[f-1] != final[f-1] || sc.Hub[f-1] != hubv[f-1] {
				h.drift("end state of f%d is ledger=%s hub=%s, EdgeSync.tla predicted ledger=%s hub=%s", f, final[f-1], hubv[f-1], sc.Led[f-1], sc.Hub[f-1])
			}
		}
	}
	sort.Strings(h.res.Applied)
	return h.res, nil
}

func main() {
	in := flag.String("scenarios", "", "json file: list of scenarios")
	out := flag.String("out", "", "result json")
	trace := flag.String("trace", "", "ndjson trace output")
	nfiles := flag.Int("nfiles", 2, "files per scenario")
	seed := flag.Int("seed", 1, "content seed")
	scratch := flag.String("scratch", "", "scratch directory")
	flag.IntVar(&padTo, "pad", 2, "length of the led/hub arrays in quiesced events")
	workers := flag.Int("workers", 4, "scenarios executed in parallel (each has its own directories and databases)")
	flag.Parse()
	raw, err := os.ReadFile(*in)
	if err != nil {
		fatal(*out, err)
	}
	var scs []scenario
	if err := json.Unmarshal(raw, &scs); err != nil {
		fatal(*out, err)
	}
	base := *scratch
	if base == "" {
		base, err = os.MkdirTemp("/dev/shm", "verif-edgesync-")
		if err != nil {
			base, err = os.MkdirTemp("", "verif-edgesync-")
			if err != nil {
				fatal(*out, err)
			}
		}
		defer os.RemoveAll(base)
	}
	tf, err := os.Create(*trace)
	if err != nil {
		fatal(*out, err)
	}
	defer tf.Close()
	enc := json.NewEncoder(tf)
	line := 1
	results := make([]*scenResult, len(scs))
	errs := make([]error, len(scs))
	var wg sync.WaitGroup
	jobs := make(chan int)
	for k := 0; k < *workers; k++ {
		wg.Add(1)
		go func() {
			defer wg.Done()
			for i := range jobs {
				results[i], errs[i] = runScenario(base, scs[i], *nfiles, *seed)
			}
		}()
	}
	for i := range scs {
		jobs <- i
	}
	close(jobs)
	wg.Wait()
	for i := range scs {
		if errs[i] != nil {
			os.RemoveAll(base)
			fatal(*out, errs[i])
		}
	}
	for _, r := range results {
		r.FirstLine = line
		for _, e := range r.Events {
			_ = enc.Encode(e)
			line++
		}
		_ = enc.Encode(event{"ev": "end"})
		line++
	}
	b, _ := json.Marshal(map[string]any{"results": results, "lines": line - 1})
	if err := os.WriteFile(*out, b, 0o644); err != nil {
		fmt.Fprintln(os.Stderr, err)
		os.Exit(2)
	}
}

func fatal(out string, err error) {
	b, _ := json.Marshal(map[string]any{"infra": err.Error()})
	if out != "" {
		_ = os.WriteFile(out, b, 0o644)
	}
	fmt.Fprintln(os.Stderr, "edgesync driver:", err)
	os.Exit(2)
}

//go:build verif_sched

package main

import (
	"github.com/basekick-labs/arc/internal/api"
	"github.com/basekick-labs/arc/internal/scheduler"
	"github.com/rs/zerolog"
)

const tickVia = "scheduler.CQScheduler.executeJob"

// schedTick runs the scheduler's tick body (cq_scheduler.go:executeJob -> ExecuteCQ).
func schedTick(h *api.ContinuousQueryHandler, id int64, name string) error {
	s, err := scheduler.NewCQScheduler(&scheduler.CQSchedulerConfig{CQHandler: h, Logger: zerolog.Nop()})
	if err != nil {
		return err
	}
	s.VerifTick(id, name)
	return nil
}

//go:build !verif_sched

package main

import (
	"context"
	"time"

	"github.com/basekick-labs/arc/internal/api"
)

const tickVia = "ContinuousQueryHandler.ExecuteCQ"

// fallback when the scheduler shim no longer compiles: call what executeJob calls.
func schedTick(h *api.ContinuousQueryHandler, id int64, name string) error {
	ctx, cancel := context.WithTimeout(context.Background(), 10*time.Minute)
	defer cancel()
	_, _ = h.ExecuteCQ(ctx, id)
	return nil
}

// Command authrbac is the C20 replay driver. Every history enumerated by TLC from
// specs/auth/Auth.tla (an initial RBAC configuration + a sequence of RBAC/token mutators) is
// replayed on a real AuthManager + RBACManager over a temp SQLite file, in direct mode and in
// cluster-apply mode (loop-back proposer -> real ClusterFSM -> real Apply*). After the set-up
// and after every mutator the whole request matrix is asked through the caches
// (VerifyToken -> CheckPermission twice, CheckPermissionsBatch) and compared with a cache-free
// evaluation on the same database (GetTokenByID + a second RBACManager whose caches are
// flushed first): real-vs-real is the verdict, TLC's Policy prediction is the drift detector.
package main

import (
	"bufio"
	"bytes"
	"context"
	"encoding/json"
	"flag"
	"fmt"
	"os"
	"path/filepath"
	"runtime"
	"sort"
	"strconv"
	"strings"
	"sync"
	"time"

	"github.com/basekick-labs/arc/internal/auth"
	"github.com/basekick-labs/arc/verifharness/internal/authkit"
)

type op struct {
	K string `json:"k"`
	A string `json:"a"`
	B string `json:"b"`
	C string `json:"c"`
	D string `json:"d"`
	X string `json:"x"` // token whose token-data entry expires and is swept right before this mutator
}

type truth struct {
	Authn  bool   `json:"authn"`
	Stored bool   `json:"stored"` // revoked token: asked with its stored TokenInfo (enabled = false)
	D      []bool `json:"d"`
}

type initState struct {
	Org  map[string]string `json:"org"`
	Team map[string]struct {
		St  string `json:"st"`
		Org string `json:"org"`
	} `json:"team"`
	Role map[string]struct {
		Team  string `json:"team"`
		Pat   string `json:"pat"`
		Perms string `json:"perms"`
	} `json:"role"`
	MP map[string]struct {
		Role  string `json:"role"`
		Pat   string `json:"pat"`
		Perms string `json:"perms"`
	} `json:"mp"`
	Mem [][]string `json:"mem"`
	Tok map[string]struct {
		St    string `json:"st"`
		Perms string `json:"perms"`
	} `json:"tok"`
}

type history struct {
	Seed   string             `json:"seed"`
	Init   initState          `json:"init"`
	Ops    []op               `json:"ops"`
	Expect []map[string]truth `json:"expect"`
}

type witness struct {
	Mode    string `json:"mode"`
	Seed    string `json:"seed"`
	Ops     []op   `json:"ops"` // prefix up to and including the culprit
	Step    int    `json:"step"`
	Token   string `json:"token"`
	Request string `json:"request"`
	Via     string `json:"via"`
	Cached  string `json:"answer_through_caches"`
	Fresh   string `json:"answer_cache_free"`
	Model   string `json:"model_policy,omitempty"`
	Note    string `json:"note,omitempty"`
}

type finding struct {
	Signature string  `json:"signature"`
	Witness   witness `json:"witness"`
	Count     int     `json:"count"`
}

type result struct {
	Histories   int            `json:"histories"`
	Replays     int            `json:"replays"`
	Comparisons int            `json:"comparisons"`
	Rounds      int            `json:"rounds"`
	OpKinds     map[string]int `json:"op_kinds"`
	Changing    int            `json:"decision_changing_replays"`
	ChangeKeys  []string       `json:"decision_changing_keys"`
	Violations  []finding      `json:"violations"`
	Drift       []finding      `json:"drift"`
	Samples     []interface{}  `json:"samples"`
	Infra       string         `json:"infra,omitempty"`
}

var dbSeq = []string{"db1", "prod_eu", "other"}
var measSeq = []string{"", "cpu", "mem"}
var permSeq = []string{"read", "write"}

const nReq = 18

func reqOf(i int) (db, meas, perm string) { // i = 0..17, same order as ReqOf in Auth.tla
	return dbSeq[i/6], measSeq[(i/2)%3], permSeq[i%2]
}

func reqString(i int) string {
	db, meas, perm := reqOf(i)
	return fmt.Sprintf("%s on %s/%q", perm, db, meas)
}

type collector struct {
	mu  sync.Mutex
	res result
	vio map[string]*finding
	dr  map[string]*finding
}

func (c *collector) add(m map[string]*finding, sig string, w witness) {
	c.mu.Lock()
	defer c.mu.Unlock()
	if f, ok := m[sig]; ok {
		f.Count++
		if len(w.Ops) < len(f.Witness.Ops) { // keep the shortest witness
			f.Witness = w
		}
		return
	}
	m[sig] = &finding{Signature: sig, Witness: w, Count: 1}
}

type replay struct {
	env    *authkit.Env
	mode   string
	h      *history
	orgID  map[string]int64
	teamID map[string]int64
	roleID map[string]int64
	mpID   map[string]int64
	tokID  map[string]int64
	tokVal map[string]string
}

var bg = context.Background()

// per-worker controlled clock for rbac_manager.go (auth.VerifNow, substituted by source overlay):
// every replay goroutine has its own offset, so ageing one history does not age the others.
var (
	offMu   sync.RWMutex
	offsets = map[uint64]*time.Duration{}
)

func goid() uint64 {
	var buf [64]byte
	n := runtime.Stack(buf[:], false)
	f := bytes.Fields(buf[:n])
	id, _ := strconv.ParseUint(string(f[1]), 10, 64)
	return id
}

func workerNow() time.Time {
	offMu.RLock()
	o := offsets[goid()]
	offMu.RUnlock()
	if o == nil {
		return time.Now()
	}
	return time.Now().Add(*o)
}

func advance(d time.Duration) {
	offMu.RLock()
	o := offsets[goid()]
	offMu.RUnlock()
	if o != nil {
		*o += d
	}
}

// expireTokenData realises Auth.tla's ExpireTokenData(t) on the real caches (TTL 30 s): everything
// expires, t's token data is loaded early (probe request outside the matrix), its matrix decisions
// are cached 20 s later from that data, and 15 s after that the real janitor sweeps: the token
// data (35 s old) goes, the decisions (15 s old) stay.
func (r *replay) expireTokenData(t string) {
	ti := r.env.AM.VerifyToken(r.tokVal[t])
	if ti == nil {
		return
	}
	advance(31 * time.Second)
	r.env.RM.CheckPermission(&auth.PermissionCheckRequest{TokenInfo: ti, Database: "verif_probe", Measurement: "", Permission: "read"})
	advance(20 * time.Second)
	for i := 0; i < nReq; i++ {
		db, meas, perm := reqOf(i)
		r.env.RM.CheckPermission(&auth.PermissionCheckRequest{TokenInfo: ti, Database: db, Measurement: meas, Permission: perm})
	}
	advance(15 * time.Second)
	r.env.RM.VerifSweep()
}

func splitPerms(s string) []string { return strings.Split(s, ",") }

func (r *replay) setup() error {
	in := r.h.Init
	for _, t := range []string{"t1", "t2"} {
		r.tokVal[t] = "verif-c20-token-value-0123456789abcdef-" + t
		id, err := r.env.CreateToken(t, r.tokVal[t], in.Tok[t].Perms, int64(len(r.tokID)+1), nil)
		if err != nil {
			return fmt.Errorf("create token %s: %w", t, err)
		}
		r.tokID[t] = id
	}
	for _, o := range sortedKeys(in.Org) {
		if in.Org[o] == "absent" {
			continue
		}
		if err := r.exec(op{K: "CreateOrg", A: o}); err != nil {
			return err
		}
	}
	for _, g := range []string{"g1", "g2"} {
		if in.Team[g].St != "absent" {
			if err := r.exec(op{K: "CreateTeam", A: g, B: in.Team[g].Org}); err != nil {
				return err
			}
		}
	}
	for _, x := range []string{"r1", "r2"} {
		if in.Role[x].Team != "" {
			if err := r.exec(op{K: "CreateRole", A: x, B: in.Role[x].Team, C: in.Role[x].Pat, D: in.Role[x].Perms}); err != nil {
				return err
			}
		}
	}
	for _, m := range []string{"m1"} {
		if in.MP[m].Role != "" {
			if err := r.exec(op{K: "CreateMP", A: m, B: in.MP[m].Role, C: in.MP[m].Pat, D: in.MP[m].Perms}); err != nil {
				return err
			}
		}
	}
	for _, e := range in.Mem {
		if err := r.exec(op{K: "AddMember", A: e[0], B: e[1]}); err != nil {
			return err
		}
	}
	for _, o := range sortedKeys(in.Org) {
		if in.Org[o] == "off" {
			if err := r.exec(op{K: "UpdateOrg", A: o, B: "off"}); err != nil {
				return err
			}
		}
	}
	for _, g := range []string{"g1", "g2"} {
		if in.Team[g].St == "off" {
			if err := r.exec(op{K: "UpdateTeam", A: g, B: "off"}); err != nil {
				return err
			}
		}
	}
	return nil
}

func sortedKeys(m map[string]string) []string {
	var ks []string
	for k := range m {
		ks = append(ks, k)
	}
	sort.Strings(ks)
	return ks
}

// exec runs one mutator through the public API of the managers (the mode decides whether it
// writes SQLite directly or proposes through the loop-back FSM).
func (r *replay) exec(o op) error {
	rm, am := r.env.RM, r.env.AM
	var err error
	switch o.K {
	case "CreateOrg":
		var x *auth.Organization
		if x, err = rm.CreateOrganization(bg, &auth.CreateOrganizationRequest{Name: o.A, Description: "verif"}); err == nil {
			r.orgID[o.A] = x.ID
		}
	case "UpdateOrg":
		en := o.B == "on"
		err = rm.UpdateOrganization(bg, r.orgID[o.A], &auth.UpdateOrganizationRequest{Enabled: &en})
	case "DeleteOrg":
		err = rm.DeleteOrganization(bg, r.orgID[o.A])
	case "ReseedOrg":
		// upgrade seed: the cluster applies CreateOrganization for the NAME of a locally created
		// organization under a different (FSM-stamped) id; called as the FSM callback calls it
		if r.mode != "mixed" {
			return fmt.Errorf("ReseedOrg outside mixed mode")
		}
		now := time.Now().UnixNano()
		newID := r.orgID[o.A] + 1000
		err = rm.ApplyCreateOrganization(auth.ClusterOrganizationEntry{ID: newID, Name: o.A, Description: "verif",
			CreatedAtUnixNano: now, UpdatedAtUnixNano: now, Enabled: true})
		r.orgID[o.A] = newID
	case "CreateTeam":
		var x *auth.Team
		if x, err = rm.CreateTeam(bg, r.orgID[o.B], &auth.CreateTeamRequest{Name: o.A}); err == nil {
			r.teamID[o.A] = x.ID
		}
	case "UpdateTeam":
		en := o.B == "on"
		err = rm.UpdateTeam(bg, r.teamID[o.A], &auth.UpdateTeamRequest{Enabled: &en})
	case "DeleteTeam":
		err = rm.DeleteTeam(bg, r.teamID[o.A])
	case "CreateRole":
		var x *auth.Role
		if x, err = rm.CreateRole(bg, r.teamID[o.B], &auth.CreateRoleRequest{DatabasePattern: o.C, Permissions: splitPerms(o.D)}); err == nil {
			r.roleID[o.A] = x.ID
		}
	case "UpdateRole":
		if o.B == "pat" {
			p := o.C
			err = rm.UpdateRole(bg, r.roleID[o.A], &auth.UpdateRoleRequest{DatabasePattern: &p})
		} else {
			err = rm.UpdateRole(bg, r.roleID[o.A], &auth.UpdateRoleRequest{Permissions: splitPerms(o.C)})
		}
	case "DeleteRole":
		err = rm.DeleteRole(bg, r.roleID[o.A])
	case "CreateMP":
		var x *auth.MeasurementPermission
		if x, err = rm.CreateMeasurementPermission(bg, r.roleID[o.B], &auth.CreateMeasurementPermissionRequest{MeasurementPattern: o.C, Permissions: splitPerms(o.D)}); err == nil {
			r.mpID[o.A] = x.ID
		}
	case "DeleteMP":
		err = rm.DeleteMeasurementPermission(bg, r.mpID[o.A])
	case "AddMember":
		_, err = rm.AddTokenToTeam(bg, r.tokID[o.A], r.teamID[o.B])
	case "RemoveMember":
		err = rm.RemoveTokenFromTeam(bg, r.tokID[o.A], r.teamID[o.B])
	case "SetTokenPerms":
		p := o.B
		err = am.UpdateToken(bg, r.tokID[o.A], nil, nil, &p, nil)
	case "RevokeToken":
		err = am.RevokeToken(bg, r.tokID[o.A])
	case "DeleteToken":
		err = am.DeleteToken(bg, r.tokID[o.A])
	default:
		err = fmt.Errorf("unknown op kind %q", o.K)
	}
	if err != nil {
		return fmt.Errorf("%s(%s,%s,%s,%s): %w", o.K, o.A, o.B, o.C, o.D, err)
	}
	if errs := r.env.TakeApplyErrs(); len(errs) > 0 {
		return fmt.Errorf("%s(%s,%s,%s,%s): apply callback: %v", o.K, o.A, o.B, o.C, o.D, errs)
	}
	return nil
}

type answers struct {
	authn  bool
	stored bool
	d      [3][nReq]bool // first single call, repeated single call, batch
}

func boolStr(b bool) string {
	if b {
		return "allow"
	}
	return "deny"
}

// round issues the whole request matrix through the caches and cache-free. batchFirst makes
// the batch call the one that meets the cold caches.
func (r *replay) round(batchFirst bool) (cached map[string]*answers, fresh map[string]*truth) {
	cached = map[string]*answers{}
	fresh = map[string]*truth{}
	rm, am := r.env.RM, r.env.AM
	infos := map[string]*auth.TokenInfo{}
	for _, t := range []string{"t1", "t2"} {
		ti := am.VerifyToken(r.tokVal[t])
		cached[t] = &answers{authn: ti != nil}
		if ti == nil {
			// a revoked token no longer authenticates, but its stored TokenInfo (enabled = false) can
			// still reach CheckPermission (token administration paths read it with GetTokenByID)
			if si, err := am.GetTokenByID(r.tokID[t]); err == nil && si != nil && !si.Enabled {
				ti = si
				cached[t].stored = true
			}
		}
		infos[t] = ti
	}
	single := func(pass int) {
		for _, t := range []string{"t1", "t2"} {
			if infos[t] == nil {
				continue
			}
			for i := 0; i < nReq; i++ {
				db, meas, perm := reqOf(i)
				res := rm.CheckPermission(&auth.PermissionCheckRequest{TokenInfo: infos[t], Database: db, Measurement: meas, Permission: perm})
				cached[t].d[pass][i] = res != nil && res.Allowed
			}
		}
	}
	batch := func() {
		var reqs []*auth.PermissionCheckRequest
		var idx []struct {
			t string
			i int
		}
		for i := 0; i < nReq; i++ { // interleave the two tokens in one call
			for _, t := range []string{"t1", "t2"} {
				if infos[t] == nil {
					continue
				}
				db, meas, perm := reqOf(i)
				reqs = append(reqs, &auth.PermissionCheckRequest{TokenInfo: infos[t], Database: db, Measurement: meas, Permission: perm})
				idx = append(idx, struct {
					t string
					i int
				}{t, i})
			}
		}
		out := rm.CheckPermissionsBatch(reqs)
		for k, res := range out {
			cached[idx[k].t].d[2][idx[k].i] = res != nil && res.Allowed
		}
	}
	if batchFirst {
		batch()
		single(0)
		single(1)
	} else {
		single(0)
		single(1)
		batch()
	}
	// cache-free evaluation on the same database state
	for _, t := range []string{"t1", "t2"} {
		fi, err := am.GetTokenByID(r.tokID[t])
		tr := &truth{D: make([]bool, nReq)}
		fresh[t] = tr
		if err != nil || fi == nil || (fi.ExpiresAt != nil && time.Now().After(*fi.ExpiresAt)) {
			continue
		}
		if fi.Enabled {
			tr.Authn = true
		} else {
			tr.Stored = true
		}
		r.env.Fresh.InvalidateAllCache()
		for i := 0; i < nReq; i++ {
			db, meas, perm := reqOf(i)
			res := r.env.Fresh.CheckPermission(&auth.PermissionCheckRequest{TokenInfo: fi, Database: db, Measurement: meas, Permission: perm})
			tr.D[i] = res != nil && res.Allowed
		}
	}
	return
}

var viaNames = [3]string{"CheckPermission(first call)", "CheckPermission(repeated call)", "CheckPermissionsBatch"}

func runHistory(c *collector, tmp string, n int, mode string, h *history) {
	dir := filepath.Join(tmp, fmt.Sprintf("h%d-%s", n, mode))
	if err := os.MkdirAll(dir, 0o700); err != nil {
		c.infra(err.Error())
		return
	}
	defer os.RemoveAll(dir)
	envMode := mode
	if mode == "mixed" { // set-up and earlier mutators in direct mode, then a cluster apply on top
		envMode = "direct"
	}
	env, err := authkit.NewEnv(dir, envMode, 5*time.Minute)
	if err != nil {
		c.infra("new env: " + err.Error())
		return
	}
	defer env.Close()
	r := &replay{env: env, mode: mode, h: h, orgID: map[string]int64{}, teamID: map[string]int64{}, roleID: map[string]int64{},
		mpID: map[string]int64{}, tokID: map[string]int64{}, tokVal: map[string]string{}}
	if err := r.setup(); err != nil {
		c.infra(fmt.Sprintf("set-up of seed %s in %s mode: %v", h.Seed, mode, err))
		return
	}
	bad := map[string]bool{} // token|req|via currently disagreeing
	// a token that already disagrees keeps its first culprit: later mutators only re-expose the
	// same stale cache content under other keys
	rootCulprit := map[string]string{}
	comparisons, rounds := 0, 0
	changed := false
	for step := 0; step <= len(h.Ops); step++ {
		culprit := "setup"
		if step > 0 {
			o := h.Ops[step-1]
			culprit = o.K
			if o.X != "" {
				r.expireTokenData(o.X)
			}
			if err := r.exec(o); err != nil {
				// the model says the operation is enabled, the code refused it: not a verdict
				c.add(c.dr, "operation-refused:"+o.K+":"+mode, witness{Mode: mode, Seed: h.Seed, Ops: h.Ops[:step], Step: step, Note: err.Error()})
				break
			}
		}
		cached, fresh := r.round((n+step)%2 == 1)
		rounds++
		nowBad := map[string]bool{}
		for _, t := range []string{"t1", "t2"} {
			culprit := culprit
			if c0, ok := rootCulprit[t]; ok {
				culprit = c0
			}
			exp := h.Expect[step][t]
			if step > 0 && (exp.Authn != h.Expect[step-1][t].Authn || fmt.Sprint(exp.D) != fmt.Sprint(h.Expect[step-1][t].D)) {
				changed = true
			}
			ca, fr := cached[t], fresh[t]
			comparisons++
			if ca.authn != fr.Authn {
				key := t + "|authn"
				nowBad[key] = true
				if !bad[key] {
					c.add(c.vio, "stale-authentication-after:"+culprit+":"+mode, witness{Mode: mode, Seed: h.Seed, Ops: h.Ops[:step], Step: step, Token: t,
						Request: "VerifyToken", Via: "VerifyToken", Cached: fmt.Sprint(ca.authn), Fresh: fmt.Sprint(fr.Authn), Model: fmt.Sprint(exp.Authn)})
				}
			}
			if fr.Authn != exp.Authn {
				c.add(c.dr, "authentication-differs-from-Auth.tla:"+culprit+":"+mode, witness{Mode: mode, Seed: h.Seed, Ops: h.Ops[:step], Step: step, Token: t,
					Fresh: fmt.Sprint(fr.Authn), Model: fmt.Sprint(exp.Authn)})
			}
			if fr.Stored != exp.Stored {
				c.add(c.dr, "stored-state-differs-from-Auth.tla:"+culprit+":"+mode, witness{Mode: mode, Seed: h.Seed, Ops: h.Ops[:step], Step: step, Token: t,
					Fresh: fmt.Sprint(fr.Stored), Model: fmt.Sprint(exp.Stored)})
			}
			if !(ca.authn && fr.Authn) && !(ca.stored && fr.Stored) {
				continue
			}
			for i := 0; i < nReq; i++ {
				if fr.D[i] != exp.D[i] {
					c.add(c.dr, "policy-differs-from-Auth.tla:"+mode, witness{Mode: mode, Seed: h.Seed, Ops: h.Ops[:step], Step: step, Token: t,
						Request: reqString(i), Fresh: boolStr(fr.D[i]), Model: boolStr(exp.D[i])})
				}
				for v := 0; v < 3; v++ {
					comparisons++
					if ca.d[v][i] != fr.D[i] {
						key := fmt.Sprintf("%s|%d|%d", t, i, v)
						nowBad[key] = true
						if !bad[key] {
							c.add(c.vio, "stale-decision-after:"+culprit+":"+mode, witness{Mode: mode, Seed: h.Seed, Ops: h.Ops[:step], Step: step, Token: t,
								Request: reqString(i), Via: viaNames[v], Cached: boolStr(ca.d[v][i]), Fresh: boolStr(fr.D[i]), Model: boolStr(exp.D[i])})
						}
					}
				}
			}
		}
		for _, t := range []string{"t1", "t2"} {
			still := false
			for k := range nowBad {
				if strings.HasPrefix(k, t+"|") {
					still = true
				}
			}
			if !still {
				delete(rootCulprit, t)
			} else if _, ok := rootCulprit[t]; !ok {
				rootCulprit[t] = culprit
			}
		}
		bad = nowBad
	}
	c.mu.Lock()
	c.res.Replays++
	c.res.Comparisons += comparisons
	c.res.Rounds += rounds
	if changed {
		c.res.Changing++
		b, _ := json.Marshal(h.Ops)
		c.res.ChangeKeys = append(c.res.ChangeKeys, mode+"|"+h.Seed+"|"+string(b))
	}
	if len(c.res.Samples) < 4 && n%401 == 7 {
		c.res.Samples = append(c.res.Samples, map[string]interface{}{"mode": mode, "seed": h.Seed, "ops": h.Ops, "rounds": rounds, "comparisons": comparisons})
	}
	c.mu.Unlock()
}

func (c *collector) infra(s string) {
	c.mu.Lock()
	if c.res.Infra == "" {
		c.res.Infra = s
	}
	c.mu.Unlock()
}

func main() {
	in := flag.String("histories", "", "ndjson: one history per line (seed, init, ops, expect)")
	outp := flag.String("out", "", "result json")
	modes := flag.String("modes", "direct,apply,mixed", "mixed = direct-mode history ending in a cluster apply (ReseedOrg)")
	workers := flag.Int("workers", 4, "")
	flag.Parse()
	f, err := os.Open(*in)
	if err != nil {
		fatal(err)
	}
	var hs []*history
	sc := bufio.NewScanner(f)
	sc.Buffer(make([]byte, 1<<20), 1<<26)
	for sc.Scan() {
		if len(strings.TrimSpace(sc.Text())) == 0 {
			continue
		}
		h := &history{}
		if err := json.Unmarshal(sc.Bytes(), h); err != nil {
			fatal(err)
		}
		if len(h.Expect) != len(h.Ops)+1 {
			fatal(fmt.Errorf("history with %d ops has %d expectations", len(h.Ops), len(h.Expect)))
		}
		hs = append(hs, h)
	}
	f.Close()
	base := ""
	if st, err := os.Stat("/dev/shm"); err == nil && st.IsDir() {
		base = "/dev/shm"
	}
	tmp, err := os.MkdirTemp(base, "authrbac-")
	if err != nil {
		fatal(err)
	}
	defer os.RemoveAll(tmp)
	auth.VerifNow = workerNow
	c := &collector{vio: map[string]*finding{}, dr: map[string]*finding{}}
	c.res.OpKinds = map[string]int{}
	for _, h := range hs {
		for _, o := range h.Ops {
			c.res.OpKinds[o.K]++
			if o.X != "" {
				c.res.OpKinds["ExpireTokenData"]++
			}
		}
	}
	c.res.Histories = len(hs)
	type job struct {
		n    int
		mode string
		h    *history
	}
	jobs := make(chan job)
	var wg sync.WaitGroup
	for w := 0; w < *workers; w++ {
		wg.Add(1)
		go func() {
			defer wg.Done()
			var off time.Duration
			id := goid()
			offMu.Lock()
			offsets[id] = &off
			offMu.Unlock()
			for j := range jobs {
				runHistory(c, tmp, j.n, j.mode, j.h)
			}
		}()
	}
	for n, h := range hs {
		reseed := false
		for _, o := range h.Ops {
			reseed = reseed || o.K == "ReseedOrg"
		}
		for _, m := range strings.Split(*modes, ",") {
			if reseed != (m == "mixed") {
				continue
			}
			c.mu.Lock()
			stop := c.res.Infra != ""
			c.mu.Unlock()
			if stop {
				break
			}
			jobs <- job{n, m, h}
		}
	}
	close(jobs)
	wg.Wait()
	flat := func(m map[string]*finding) []finding {
		var ks []string
		for k := range m {
			ks = append(ks, k)
		}
		sort.Strings(ks)
		var out []finding
		for _, k := range ks {
			out = append(out, *m[k])
		}
		return out
	}
	c.res.Violations = flat(c.vio)
	c.res.Drift = flat(c.dr)
	b, _ := json.MarshalIndent(c.res, "", " ")
	if err := os.WriteFile(*outp, b, 0o644); err != nil {
		fatal(err)
	}
}

func fatal(err error) {
	fmt.Fprintln(os.Stderr, "authrbac:", err)
	os.Exit(2)
}

"""C21 -- revoked, deleted or rotated token values stop authenticating immediately (DESIGN section 5, C21).

(M) TLC exhausts specs/auth/AuthVerify.tla (VerifyToken = lookup / query-holding-the-connection /
    insert / return, mutator = exec / flush+return, a FIFO pool with one connection, and the
    driver's kick scheduler) with 1 and 2 concurrent verifiers: no verification started after
    the mutator returned succeeds, the final verification is rejected, nobody starves; the same holds when
    no mutator runs but expires_at passes (entries never outlive expires_at, fix b7d5157).  Four
    negative controls (two pooled connections, rows closed before the insert, flush before the
    exec, entries outliving expires_at) must fail: they document what carries the property and are the mutations the binding must
    catch.
(G) every complete schedule of the 1-verifier model (and a seeded sample of the 2-verifier
    model; thorough: many more) is realised by harness/cmd/authverify on the real AuthManager
    through the gates inserted by tools/overlaygen, for revoke / delete / rotate / expire, in
    direct and cluster-apply mode.  Verdict: the old value authenticates after the mutator
    returned.  Predicted thread positions (including "queued for the connection") are the
    drift detector.
(M+G, expiry) specs/auth/AuthExpiry.tla: one token with an expires_at, an integer clock and up to 3
    VerifyToken calls at every clock position (first/second half of the cache TTL, after
    expires_at, after the TTL); NeverAcceptedExpired must hold, the controls "no cap" (pre-b7d5157)
    and "sliding deadline on hit" must fail.  Every generated history is replayed on the real
    AuthManager with the overlay-substituted clock (auth.VerifNow); verdict: a verification after
    expires_at succeeds.
"""
import json
import random

from vlib import InfraError
from c20 import par

LEVEL = "model_checking"

MUTATORS = [("internal/auth/auth.go", f) for f in ("RevokeToken", "DeleteToken", "RotateToken", "UpdateToken")] + \
           [("internal/auth/cluster_apply.go", f) for f in ("ApplyRevokeToken", "ApplyDeleteToken", "ApplyRotateToken", "ApplyUpdateToken")]


def gate_args():
    a = []
    for anchor, name in (("before-call:am.db.Query", "verify.beforeQuery"), ("after-call:am.db.Query", "verify.afterQuery"),
                         ("before-call:am.cacheMu.Lock", "verify.beforeInsert")):
        a += ["-gate", "internal/auth/auth.go|VerifyToken|%s|%s" % (anchor, name)]
    for f, fn in MUTATORS:
        a += ["-gate", "%s|%s|before-call:am.db.Exec|mut.beforeExec" % (f, fn)]
        a += ["-gate", "%s|%s|after-call:am.db.Exec|mut.afterExec" % (f, fn)]
    return a + ["-clock", "internal/auth/auth.go"]


def run(ctx):
    quick = ctx.quick()
    variants = ["conns2", "earlyclose", "flushfirst", "lapse"]
    built = {}

    def build():
        extra = ctx.overlaygen(gate_args())
        built["missing"] = list(ctx.missing_gates)
        ov = ctx.make_overlay(["auth"], extra=extra)
        built["bin"] = ctx.go_build("authverify", overlay=ov)
    jobs = [lambda: ctx.tlc("auth", "AuthVerify", "Verify_MC_small.cfg", coverage=True, workers=2, heap="1g", timeout=1800),
            lambda: ctx.tlc("auth", "AuthVerify", "Verify_MC_large.cfg", coverage=True, workers=2, heap="1g", timeout=1800),
            lambda: ctx.tlc("auth", "AuthVerify", "Verify_Gen_small.cfg", workers=2, heap="1g", timeout=1800),
            lambda: ctx.tlc("auth", "AuthVerify", "Verify_Gen_large.cfg", workers=2, heap="2g", timeout=1800),
            lambda: ctx.tlc("auth", "AuthVerify", "Verify_MC_lapse.cfg", workers=1, heap="1g", timeout=1800),
            lambda: ctx.tlc("auth", "AuthExpiry", "Expiry_MC.cfg", coverage=True, workers=1, heap="1g", timeout=1800),
            lambda: ctx.tlc("auth", "AuthExpiry", "Expiry_Gen.cfg", workers=2, heap="1g", timeout=1800)]
    evariants = ["nocap", "slide"]
    for v in evariants:
        jobs.append(lambda v=v: ctx.tlc("auth", "AuthExpiry", "Expiry_Var_%s.cfg" % v, workers=1, heap="1g", timeout=1800, allow_violation=True))
    for v in variants:
        jobs.append(lambda v=v: ctx.tlc("auth", "AuthVerify", "Verify_Var_%s.cfg" % v, workers=1, heap="1g", timeout=1800, allow_violation=True))
    jobs.append(build)
    res = par(jobs)
    mc1, mc2, g1, g2, mcl, emc, egen = res[:7]
    eres = res[7:7 + len(evariants)]
    acts = ("VLookup", "VQuery", "VScan", "VInsert", "MStart", "MExec", "MFlush")
    for name, mc in (("Verify_MC_small.cfg", mc1), ("Verify_MC_large.cfg", mc2)):
        for a in acts:
            if mc.coverage.get(a, (0, 0))[0] == 0:
                raise InfraError("vacuous model %s: action %s never fired" % (name, a))
    ctx.note("tlc_model_check", {"one_verifier": {"distinct": mc1.distinct, "generated": mc1.generated, "depth": mc1.depth},
                                 "two_verifiers": {"distinct": mc2.distinct, "generated": mc2.generated, "depth": mc2.depth},
                                 "expiry_lapse_one_verifier": {"distinct": mcl.distinct, "generated": mcl.generated, "depth": mcl.depth},
                                 "invariants": ["NoLateSuccess", "FinalRejected", "NoStalePending", "NoStarvation"],
                                 "actions_fired": {a: mc2.coverage[a][0] for a in acts}})
    vnote = {}
    for v, r in zip(variants, res[7 + len(evariants):7 + len(evariants) + len(variants)]):
        if r.violated != "Safety":
            raise InfraError("variant %s no longer violates Safety: the model lost its discriminating power" % v)
        vnote[v] = {"violated": r.violated, "distinct_when_found": r.distinct}
    for v, r in zip(evariants, eres):
        if r.violated != "NeverAcceptedExpired":
            raise InfraError("expiry variant %s no longer violates NeverAcceptedExpired" % v)
        vnote["expiry_" + v] = {"violated": r.violated, "distinct_when_found": r.distinct}
    ctx.note("tlc_variants_expected_to_fail", vnote)
    for a in ("Tick", "Verify"):
        if emc.coverage.get(a, (0, 0))[0] == 0:
            raise InfraError("vacuous model AuthExpiry: action %s never fired" % a)
    ctx.note("tlc_expiry_fragment", {"distinct": emc.distinct, "generated": emc.generated, "depth": emc.depth,
                                     "invariants": ["NeverAcceptedExpired"], "histories_generated": len(egen.traces)})
    if not egen.traces:
        raise InfraError("AuthExpiry generator emitted nothing")
    if not any(st["hit"] and i + 1 < len(t["steps"]) for t in egen.traces if t["exp"] > 0 for i, st in enumerate(t["steps"])):
        raise InfraError("no generated expiry history hits the cache before a later verification")
    if not g1.traces or not g2.traces:
        raise InfraError("generator emitted nothing")
    if not any(k["to"] == "wait" for t in g1.traces for k in t["sched"]):
        raise InfraError("no generated schedule contains a kick that queues for the connection")
    def dedupe(traces):
        seen, out = set(), []
        for t in traces:       # the same kicks are emitted once per pool order (lifo): keep one
            k = json.dumps(t["sched"], sort_keys=True)
            if k not in seen:
                seen.add(k)
                out.append(t)
        return out
    one, two_all = dedupe(g1.traces), dedupe(g2.traces)
    scs = []
    for t in one:
        t["all_kinds"] = True
        scs.append(t)
    rnd = random.Random(ctx.seed)
    two = sorted(two_all, key=lambda t: json.dumps(t["sched"]))
    # prefer schedules in which somebody queues for the connection: they are the discriminating ones
    waiting = [t for t in two if any(k["to"] == "wait" for k in t["sched"])]
    others = [t for t in two if not any(k["to"] == "wait" for k in t["sched"])]
    n2 = 24 if quick else 200
    pick = rnd.sample(waiting, min(len(waiting), (n2 * 3) // 4)) + rnd.sample(others, min(len(others), n2 // 4))
    for t in pick:
        t["all_kinds"] = False
        scs.append(t)
    ctx.note("schedules_generated", {"one_verifier": len(one), "two_verifiers": len(two_all), "two_verifier_sample": len(pick)})
    if built["missing"]:
        ctx.spec_drift("gate anchors no longer found in the source (schedules degrade to coarser interleavings): %s" % ", ".join(built["missing"]))
    sp = ctx.path("schedules.json")
    json.dump(scs, open(sp, "w"))
    rp = ctx.path("result.json")
    ep = ctx.path("expiry.json")
    json.dump(egen.traces, open(ep, "w"))
    ctx.run([built["bin"], "-schedules", sp, "-expiry", ep, "-out", rp, "-grace", "300ms"], timeout=3000)
    r = json.load(open(rp))
    if r.get("infra"):
        raise InfraError("authverify driver: " + r["infra"])
    if not built["missing"]:
        for g in ("verify.beforeQuery", "verify.afterQuery", "verify.beforeInsert", "mut.beforeExec", "mut.afterExec"):
            if r["gates_hit"].get(g, 0) == 0:
                raise InfraError("gate %s was never reached by a scheduled thread" % g)
        if r["kicks_observed_blocked"] == 0:
            ctx.spec_drift("no kick was ever observed queued for the connection (model predicted %d)" % r["kicks_predicted_blocked"])
    if r["runs_per_mutator"].get("expiry:direct", 0) != len(egen.traces) or r["runs_per_mutator"].get("expiry:apply", 0) != len(egen.traces):
        raise InfraError("expiry histories replayed: %s of %d" % (r["runs_per_mutator"], len(egen.traces)))
    ctx.traces_validated(len(scs) + len(egen.traces))
    ctx.count(evaluations=r["runs"], nontrivial_keys=r.get("run_keys") or [])
    ctx.note("runs", r["runs"])
    ctx.note("runs_per_mutator_and_mode", r["runs_per_mutator"])
    ctx.note("kicks", {"total": r["kicks"], "predicted_queued": r["kicks_predicted_blocked"], "observed_queued": r["kicks_observed_blocked"]})
    ctx.note("gates_hit", r["gates_hit"])
    ctx.note("missing_gates", built["missing"])
    ctx.note("exhaustive", True)
    ctx.note("rule", "every complete schedule of 1 mutator + 1 verifier (cache cold or warm) x {revoke, delete, rotate, expire} x "
             "{direct, cluster-apply}; a seeded sample of the 2-verifier schedules (one mutator kind per mode, rotating); "
             "distinct_nontrivial = distinct (mutator, mode, schedule) runs")
    for s in (r.get("samples") or []):
        ctx.sample(s)
    ctx.assume("the loop-back proposer stands for a single-node Raft: the FSM apply and its callback run before Propose returns")
    ctx.assume("a kick predicted to queue for the connection is given 300 ms to arrive; the verdict (final VerifyToken of the old value after everything returned) does not depend on it")
    ctx.assume("tokens are stored with a 1-iteration PBKDF2 hash (same verification path, cheaper misses)")
    for d in (r.get("drift") or []):
        ctx.spec_drift("%s (x%d) witness=%s" % (d["signature"], d["count"], json.dumps(d["witness"])[:600]))
    for v in (r.get("violations") or []):
        w = dict(v["witness"])
        w["occurrences"] = v["count"]
        ctx.violation(v["signature"], w)

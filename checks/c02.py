"""C02 -- typed MessagePack decoding is indistinguishable from generic decoding (DESIGN section 5, C02).

(M) TLC exhausts specs/msgpacktable/MsgPackTable.tla: decision tables of the generic path
    (Unmarshal -> decodeColumnar -> normalizeTimestampColumns -> convertColumnsToTyped) and of the
    typed fast path as written (hit or fall back), one payload shape per initial state, actions
    TryTyped / TypedHit / RunGeneric mirroring Decode(); invariant Equivalent (a typed hit equals
    the generic outcome) outside the class KnownDivergent, whose shape is pinned by DivergenceShape.
(G) the same run emits every shape; the Go driver encodes each to real MessagePack bytes with a
    hand-rolled encoder that rotates through every width, and compares the REAL decoder with the
    typed path on and off -- on the payload, on every truncation and on byte flips of it --
    through Decode (+ the typing chokepoint) and through ArrowBuffer.Write + FlushAll -> Parquet.
    The verdict is that real-vs-real comparison; the spec's predicted generic outcome and
    hit/fallback prediction are drift detectors only.
"""
import json

from vlib import InfraError

LEVEL = "model_checking"


def run(ctx):
    size = "small" if ctx.quick() else "large"
    gen = ctx.tlc("msgpacktable", "MsgPackTable", "Gen_%s.cfg" % size, timeout=3000, workers=8)
    if not gen.traces:
        raise InfraError("generator emitted nothing")
    # negative control: the typed path as first written (Decoder.Skip on ignored values, before arc
    # commit 237ecc3) must be rejected by TLC -- shows that the invariant can fail
    neg = ctx.tlc("msgpacktable", "MsgPackTable", "MC_aswritten.cfg", timeout=1200, workers=4, allow_violation=True)
    if neg.violated != "EquivalentStrict":
        raise InfraError("negative control MC_aswritten.cfg was not rejected by TLC (violated=%s)" % neg.violated)
    ctx.note("negative_control", {"cfg": "MC_aswritten.cfg", "violated": neg.violated})
    hits = sum(1 for t in gen.traces if t["typed"] == "hit")
    div = sum(1 for t in gen.traces if t["divergent"])
    if hits == 0 or hits == len(gen.traces):
        raise InfraError("vacuous enumeration: %d typed hits of %d shapes" % (hits, len(gen.traces)))
    ctx.note("tlc_model_check", {"cfg": "Gen_%s.cfg" % size, "distinct": gen.distinct, "generated": gen.generated, "depth": gen.depth,
                                 "invariants": ["Equivalent", "DivergenceShape"],
                                 "actions_fired": {"TryTyped": len(gen.traces), "TypedHit": hits, "RunGeneric": len(gen.traces) - hits},
                                 "shapes": len(gen.traces), "typed_hits_predicted": hits, "known_divergent_shapes": div})
    ctx.log("TLC generated %d payload shapes (%d typed hits, %d in the known-divergent class)" % (len(gen.traces), hits, div))
    sp = ctx.path("scenarios.json")
    json.dump(gen.traces, open(sp, "w"))
    ov = ctx.make_overlay(["msgpacktable"])
    binp = ctx.go_build("msgpacktable", overlay=ov)
    rp = ctx.path("result.json")
    args = [binp, "-scenarios", sp, "-out", rp, "-seed", str(ctx.seed)]
    if ctx.quick():
        args += ["-mutate-every", "6", "-flip-values", "3", "-store-every", "60"]
    else:
        args += ["-mutate-every", "16", "-flip-values", "5", "-store-every", "40"]
    ctx.run(args, timeout=6000)
    r = json.load(open(rp))
    if r.get("infra"):
        raise InfraError("msgpacktable driver: " + r["infra"])
    if r["shapes"] != len(gen.traces):
        raise InfraError("driver replayed %d of %d shapes" % (r["shapes"], len(gen.traces)))
    if r["typed_hits"] == 0 or r["both_accept"] == 0 or r["both_reject"] == 0 or r["parquet_comparisons"] == 0:
        raise InfraError("degenerate run: %s" % {k: r[k] for k in ("typed_hits", "both_accept", "both_reject", "parquet_comparisons")})
    ctx.count(evaluations=r["comparisons"] + r["parquet_comparisons"])
    ctx._nontrivial = set(range(r["payloads"] + r["mutants"]))
    ctx.traces_validated(len(gen.traces))
    for k in ("shapes", "payloads", "payloads_mutated", "mutants", "comparisons", "parquet_comparisons", "both_accept", "both_reject",
              "typed_hits", "typed_misses", "per_family", "distinct_generic_outcomes", "distinct_byte_values_in_payloads",
              "mutants_skipped_large_prealloc", "decode_panics_recovered", "write_flush_panics_recovered"):
        ctx.note(k, r.get(k))
    if r.get("decode_panic_sample"):
        ctx.note("decode_panic_sample", r["decode_panic_sample"])
    if r.get("write_flush_panic_sample"):
        ctx.note("write_flush_panic_sample", r["write_flush_panic_sample"])
    ctx.note("exhaustive", True)
    ctx.note("rule", "every value column of <=%s cells over 14 element classes (x time present/absent), every time column of <=%s "
             "cells over 21 classes, every pair of 2-cell columns over 7 classes, the product of measurement kind x key order x "
             "duplicate/batch keys x extra keys x columns kind x trailing bytes, column-shape and top-level variants; widths "
             "rotate over all msgpack encodings; every n-th payload additionally truncated at every offset and byte-flipped"
             % (("3", "2") if ctx.quick() else ("4", "3")))
    for s in (r.get("samples") or []):
        ctx.sample(s)
    ctx.assume("a timestamp within a few seconds of the run's wall clock on both sides is a generated one (the property lets those differ)")
    ctx.assume("a panic inside Decode counts as a rejected request (recover middleware); both configurations must then agree")
    ctx.assume("mutants that announce more than 2^18 elements/bytes in a length header are skipped (the msgpack library "
               "pre-allocates by the announced length; they are slow, and both paths take the generic decoder for them)")
    for d in (r.get("drift") or []):
        ctx.spec_drift(d[:600])
    for v in (r.get("violations") or []):
        w = v["witness"]
        w["occurrences"] = v["count"]
        ctx.violation(v["signature"], w)

"""C08 -- storage keys stay inside the root and files appear atomically (DESIGN section 5, C08).

(a) confinement.  TLC exhausts specs/localfs/LocalFSKeys.tla (sanitizePath / validatePath as written,
    character level, plus the manifest / edge-sync validators) over every key of <= MaxLen characters
    of {"/", ".", NUL, "\\", other}; ResolvedInside, StagingInside, ManifestStagingInside must hold (the model of the
    backend as written before /repo 814856a is kept as a negative control that TLC must reject).  (G) every enumerated key (two concrete spellings each), and hand-made +
    seeded random byte strings, go through the real LocalBackend operations and the real validators;
    the oracle is the real file system (a scratch grandparent/parent/root tree is re-listed after
    every operation) and the absolute paths the backend returns.
(b) atomicity.  TLC exhausts specs/localfs/LocalFS.tla (Write / WriteReader / AppendReader as syscall
    sequences, Crash between any two calls) and checks Atomic.  (T) every scenario is run for real
    under strace; the syscall log is validated by TLC against LocalFSTrace.tla (POSIX name/inode
    semantics + the atomicity invariant after every call), and the run is repeated once per crash
    point with strace's SIGKILL injection, the real directory being inspected after each kill.
"""
import json
import re

from vlib import InfraError

LEVEL = "model_checking"


def run(ctx):
    size = "small" if ctx.quick() else "large"
    # ------------------------------------------------------------------ (a) model + generation in one run
    kg = ctx.tlc("localfs", "LocalFSKeys", "Keys_Gen_%s.cfg" % size, timeout=1800, workers=6)
    if not kg.traces:
        raise InfraError("key generator emitted nothing")
    keys = kg.traces
    n_acc = sum(1 for k in keys if k["acc"])
    n_alias = sum(1 for k in keys if k["alias"])
    # the key space must contain the NUL-split ".." aimed at a sibling whose name starts with the root's name, and the
    # same ".." aimed at the root's own name (which legitimately stays inside)
    sib = [k for k in keys if k["key"][:5] == [".", "0", ".", "/", "r"] and len(k["key"]) == 6 and k["key"][5] in ("a", "b")]
    back = [k for k in keys if k["key"][:6] == [".", "0", ".", "/", "r", "/"] or k["key"] == [".", "0", ".", "/", "r"]]
    if not sib or any(k["acc"] for k in sib) or not back or not all(k["acc"] for k in back):
        raise InfraError("key model lost the rootname-prefixed sibling class: %d sibling keys, %d back-into-root keys" % (len(sib), len(back)))
    if not n_acc or n_acc == len(keys) or not n_alias:
        raise InfraError("vacuous key model: accepted=%d of %d, aliases=%d" % (n_acc, len(keys), n_alias))
    # negative controls: the model of LocalBackend as first written (root-alias keys accepted by the object operations)
    # must be rejected by TLC
    ncs = {}
    for cfg, inv in (("Keys_NC_staging.cfg", "StagingInside"), ("Keys_NC_manifest.cfg", "ManifestStagingInside")):
        r = ctx.tlc("localfs", "LocalFSKeys", cfg, timeout=600, workers=4, allow_violation=True)
        if r.violated != inv:
            raise InfraError("negative control %s was not rejected by TLC (violated=%s)" % (cfg, r.violated))
        ncs[cfg] = "rejected: " + inv
    n_obj = sum(1 for k in keys if k["obj"])
    ctx.note("tlc_keys", {"cfg": "Keys_Gen_%s.cfg" % size, "distinct": kg.distinct, "generated": kg.generated, "depth": kg.depth,
                          "keys": len(keys), "accepted_by_validatePath": n_acc, "root_alias": n_alias, "accepted_by_object_operations": n_obj,
                          "keys_with_root_name_token": sum(1 for k in keys if "r" in k["key"]), "nul_split_sibling_keys": len(sib),
                          "invariants_holding": ["ResolvedInside", "SiblingRejected", "StagingInside", "ManifestStagingInside", "SyncNeverAlias"],
                          "negative_controls": ncs})
    # ------------------------------------------------------------------ (b) model
    mc = ctx.tlc("localfs", "LocalFS", "MC_%s.cfg" % size, coverage=True, timeout=900, workers=4)
    for a in ("Open", "WriteChunk", "Close", "Rename", "Crash"):
        if mc.coverage.get(a, (0, 0))[0] == 0:
            raise InfraError("vacuous model: action %s never fired" % a)
    scen = mc.traces
    if not scen:
        raise InfraError("LocalFS.tla emitted no scenario")
    ctx.note("tlc_atomicity", {"cfg": "MC_%s.cfg" % size, "distinct": mc.distinct, "generated": mc.generated, "depth": mc.depth,
                               "scenarios": len(scen), "invariants": ["Atomic", "Publishes", "FailureKeepsPrior", "CannotStageKeepsPrior"],
                               "actions_fired": {k: v[0] for k, v in mc.coverage.items() if k in ("Open", "WriteChunk", "Close", "Rename", "Crash")}})
    # ------------------------------------------------------------------ build
    ov = ctx.make_overlay(["localfs"])
    binp = ctx.go_build("localfs", overlay=ov)
    # ------------------------------------------------------------------ (a) replay
    kp, kr = ctx.path("keys.json"), ctx.path("keys_result.json")
    json.dump(keys, open(kp, "w"))
    ctx.run([binp, "-mode", "keys", "-in", kp, "-out", kr, "-seed", str(ctx.seed), "-exotic", "1500" if ctx.quick() else "20000"], timeout=2400)
    r = json.load(open(kr))
    if r.get("infra"):
        raise InfraError("localfs keys driver: " + r["infra"])
    if r["keys"] != len(keys):
        raise InfraError("driver replayed %d of %d keys" % (r["keys"], len(keys)))
    if not r["manifest_accepted"] or not r["sync_accepted"] or not r["spoke_accepted"] or not r["root_alias_keys"]:
        raise InfraError("replay never reached a validator-accepted / alias key: %s" % {k: r[k] for k in ("manifest_accepted", "sync_accepted", "spoke_accepted", "root_alias_keys")})
    ctx.count(evaluations=r["operations"], nontrivial_keys=r["nontrivial_keys"])
    ctx.note("keys_replay", {k: r[k] for k in ("keys", "concrete_keys", "operations", "accepted", "rejected", "root_alias_keys", "manifest_accepted",
                                               "sync_accepted", "spoke_accepted", "exotic_keys", "per_variant", "root_directory_removed_by_alias_key")})
    for s in (r.get("samples") or [])[:2]:
        ctx.sample(s)
    viol = list(r.get("violations") or [])
    drift = list(r.get("drift") or [])
    # ------------------------------------------------------------------ (b) strace + kills
    sp, cr, tp = ctx.path("scenarios.json"), ctx.path("crash_result.json"), ctx.path("trace.ndjson")
    json.dump(scen, open(sp, "w"))
    ctx.run([binp, "-mode", "crash", "-in", sp, "-out", cr, "-trace", tp, "-chunks", "3" if ctx.quick() else "3,40000",
             "-kill-every", "4" if ctx.quick() else "1", "-seed", str(ctx.seed)], timeout=6000)
    c = json.load(open(cr))
    if c.get("infra"):
        raise InfraError("localfs crash driver: " + c["infra"])
    if c["scenarios"] != len(scen) or not c["crash_points_inspected"]:
        raise InfraError("crash driver ran %d of %d scenarios, %d crash points" % (c["scenarios"], len(scen), c["crash_points_inspected"]))
    for op in ("Write", "WriteReader", "AppendReader"):
        if not c["per_op_crash_points"].get(op):
            raise InfraError("no crash point exercised for %s" % op)
    # labels are "#<scenario index> ... name=long chunk=<bytes>": a scenario may run with several chunk sizes (thorough),
    # so count distinct scenarios, and compare with what the model generated for THIS tier
    n_long = len({k.split(" ")[0] for k in c["nontrivial_keys"] if "name=long" in k})
    if not n_long or n_long != sum(1 for x in scen if x["sc"]["nm"] == "long"):
        raise InfraError("the long-name class (staging name exceeds NAME_MAX) was not run completely: %d scenarios" % n_long)
    ctx.note("long_name_scenarios", n_long)
    ctx.count(evaluations=c["crash_points_inspected"] + c["strace_runs"], nontrivial_keys=c["nontrivial_keys"])
    ctx.note("crash_replay", {k: c[k] for k in ("scenarios", "strace_runs", "kill_runs", "crash_points_inspected", "calls_on_tracked_names", "per_op_crash_points", "trace_lines")})
    for s in (c.get("samples") or [])[:1]:
        ctx.sample(s)
    viol += list(c.get("violations") or [])
    drift += list(c.get("drift") or [])
    # ------------------------------------------------------------------ (T) TLC validates the real syscall traces
    accepted, tv = ctx.tlc_validate("localfs", "LocalFSTrace", "Trace.cfg", tp, timeout=900)
    ctx.traces_validated(len([1 for l in open(tp) if '"ev":"begin"' in l]))
    ctx.note("tlc_trace_validation", {"module": "LocalFSTrace", "trace_lines": c["trace_lines"], "accepted": bool(accepted),
                                      "distinct": tv.distinct, "violated": tv.violated})
    if not accepted:
        torn = [p for p in tv.prints if "TORN_AT" in p]
        rej = [p for p in tv.prints if "REJECTED_AT" in p]
        if tv.violated and torn:
            # TLC sees a torn final name after some call of a real trace: run the complete kill matrix of that scenario
            n = int(re.search(r"(\d+)", torn[0].split(",")[1]).group(1))
            label = c["trace_line_scenario"][n - 1] if 0 < n <= len(c["trace_line_scenario"]) else "?"
            m = re.match(r"#(\d+) (\w+)", label)
            if not m:
                raise InfraError("cannot map trace line %d to a scenario" % n)
            cr2 = ctx.path("crash_result_targeted.json")
            ctx.run([binp, "-mode", "crash", "-in", sp, "-out", cr2, "-trace", ctx.path("trace2.ndjson"), "-chunks", "3",
                     "-only", m.group(1)], timeout=1800)
            c2 = json.load(open(cr2))
            if c2.get("infra"):
                raise InfraError("localfs crash driver (targeted): " + c2["infra"])
            got = list(c2.get("violations") or [])
            viol += got
            if not got and not any(v["signature"].startswith("torn-final") or v["signature"].startswith("bad-final") for v in viol):
                drift.append({"signature": "trace-torn-but-no-kill-reproduced:%s" % m.group(2), "witness": {"difference": "trace line %d (%s)" % (n, label)}})
        elif rej:
            raise InfraError("LocalFSTrace could not replay the syscall trace: %s" % rej[0])
        else:
            raise InfraError("trace validation failed without a diagnosis: %s" % (tv.error,))
    ctx.note("exhaustive", True)
    ctx.note("rule", "(a) every key of <=%d tokens over {/ . NUL \\\\ other} (+ the root directory's own name once, at the start of a segment) x 2 spellings x 15 backend operations, + validator-derived edge-sync paths, "
                     "+ %s hand-made/random byte strings; (b) every scenario of LocalFS.tla (<=%d chunks, short names and names whose staging name exceeds NAME_MAX) x every syscall boundary as a real SIGKILL point"
             % (6 if ctx.quick() else 7, "1.5k" if ctx.quick() else "20k", 2 if ctx.quick() else 3))
    ctx.assume("crash = process death (SIGKILL); power loss / missing fsync is out of scope")
    ctx.assume("no symbolic links inside the storage root; path semantics are lexical")
    ctx.assume("intended content of WriteReader = what the reader yields up to a clean EOF (the size argument is unused by LocalBackend)")
    ctx.assume("a key that resolves to the root directory itself is 'inside'; files it makes the backend create beside or above the root are not")
    for d in drift:
        w = d["witness"]
        ctx.spec_drift("%s witness=%s" % (d["signature"], json.dumps({k: w[k] for k in w if k in ("key_quoted", "predicted_full_path", "real_full_path", "predicted", "observed", "difference",
                                                                                           "predicted_manifest_sync_spoke", "real_manifest_sync_spoke", "occurrences")})[:400]))
    for v in viol:
        ctx.violation(v["signature"], v["witness"])

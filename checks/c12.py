"""C12 -- tier migration never makes data unreadable or visible twice (DESIGN section 5, C12).

(M) TLC exhausts specs/tiering/Tiering.tla (RunMigrationCycle as written: scan/upsert ->
    per-file copy(.part, rename) -> UpdateTier -> source delete -> orphan reconciliation; a
    crash between any two steps, a failure of any step, concurrent files, re-runs) and checks
    Readable at every state and ExactlyOnce after every cycle that finished without error, for
    the four query universes (measurement with/without a file that stays hot / is already cold).
(G) the sequential instance of the same module emits every behaviour with <= 1 (quick: plus a
    seeded sample of the <= 2) fault placements as a list of cycles with the model's snapshot
    after each; the Go driver realises each cycle in a child process running the real
    tiering.Manager over two LocalBackends + real SQLite metadata, crashing (SIGKILL) or
    failing exactly at the storage operation the model names.
(T) after every child the parent records the bytes found per tier, tier_files, and what DuckDB
    returns through the FROM clause built by the real multi-tier path builder; the child records
    every storage mutation with the file's state afterwards.  TLC validates the concatenated
    trace against the property-level module TieringProp.  A run is a violation when the
    driver's own judgement of the observations or TLC's replay says the property is broken.
"""
import concurrent.futures
import json
import os
import random

from vlib import InfraError

LEVEL = "model_checking"


def run(ctx):
    # ---- both binaries are built in the background while TLC runs
    ov = ctx.make_overlay(["tiering"])
    ctx.harness_dir()
    pool = concurrent.futures.ThreadPoolExecutor(max_workers=1)
    builds = pool.submit(lambda: (ctx.go_build("tiering", overlay=ov, timeout=2400),
                                  ctx.go_build("tiering_child", overlay=ov, timeout=2400, pkg="./cmd/tiering/child")))
    # ---- (M)
    cfg = "MC_small.cfg" if ctx.quick() else "MC_large.cfg"
    mc = ctx.tlc("tiering", "Tiering", cfg, coverage=True, timeout=1500, workers=4)
    need = ("StartCycle", "ScanFile", "ScanEnd", "CopyBegin", "CopyEnd", "CopyFail", "MetaUpdate", "MetaFail",
            "SrcDelete", "SrcDeleteFail", "MigrateEnd", "Reconcile", "ReconcileFail", "EndCycle", "Crash")
    for a in need:
        if mc.coverage.get(a, (0, 0))[0] == 0:
            raise InfraError("vacuous model: action %s never fired" % a)
    # overlapping cycles / a retry with a stale candidate list: the list is worked through twice before reconciliation
    mco = ctx.tlc("tiering", "Tiering", "MC_overlap.cfg", coverage=True, timeout=900, workers=4)
    for a in ("SecondPass", "CopyNoSource"):
        if mco.coverage.get(a, (0, 0))[0] == 0:
            raise InfraError("vacuous model: action %s never fired" % a)
    mco2 = ctx.tlc("tiering", "Tiering", "MC_overlap2.cfg", timeout=900, workers=4, allow_violation=True)
    ctx.note("tlc_model_check_overlap", {
        "cfg": "MC_overlap.cfg", "distinct": mco.distinct, "generated": mco.generated, "depth": mco.depth,
        "two_faults": {"cfg": "MC_overlap2.cfg", "violated": mco2.violated,
                       "note": "candidate only (source-delete failure, then UpdateTier failure in the second pass: the rollback "
                               "deletes the cold copy the row points to); not replayed, see docs/asbuilt/C12.md"}})
    ctx.note("tlc_model_check", {"cfg": cfg, "distinct": mc.distinct, "generated": mc.generated, "depth": mc.depth,
                                 "invariants": ["Readable", "ExactlyOnce", "NeverInvisible", "SourceKeptUntilMetaCold", "MetaColdImpliesColdCopy", "Settles"],
                                 "actions_fired": {k: v[0] for k, v in mc.coverage.items()}})
    # ---- (G)
    g2 = ctx.tlc("tiering", "Tiering", "Gen_large.cfg", timeout=1500, workers=2)
    if not g2.traces:
        raise InfraError("generator emitted nothing")
    key = lambda t: json.dumps(t, sort_keys=True)
    nfaults = lambda t: sum(len(c["faults"]) for c in t["cycles"])
    singles = sorted((t for t in g2.traces if nfaults(t) <= 1), key=key)      # = the behaviours of Gen_small.cfg
    doubles = sorted((t for t in g2.traces if nfaults(t) > 1), key=key)
    ctx.note("tlc_generation", {"cfg": "Gen_large.cfg", "distinct": g2.distinct, "generated": g2.generated, "behaviours": len(g2.traces)})
    # every 2-fault placement is model-checked; the replay takes a seeded sample of them (a child process,
    # a byte comparison and a DuckDB query per cycle): 12 in quick, 350 in thorough (VERIF_C12_DOUBLES=all for all)
    want = os.environ.get("VERIF_C12_DOUBLES", "12" if ctx.quick() else "350")
    rnd = random.Random(ctx.seed)
    pick = doubles if want == "all" else rnd.sample(doubles, min(int(want), len(doubles)))
    g3 = ctx.tlc("tiering", "Tiering", "Gen_overlap.cfg", timeout=900, workers=2)
    if not g3.traces:
        raise InfraError("overlap generator emitted nothing")
    overlap = sorted(g3.traces, key=key)
    g4 = ctx.tlc("tiering", "Tiering", "Gen_aging.cfg", timeout=900, workers=2)
    aging = sorted((t for t in g4.traces if any(c["ended"] == "aged" for c in t["cycles"])), key=key)
    if not aging:
        raise InfraError("aging generator emitted nothing")
    scs = singles + overlap + aging + pick
    ctx.note("behaviours", {"<=1 fault": len(singles), "<=1 fault, candidate list worked twice": len(overlap),
                              "<=1 fault, then the 48 h reconciliation window elapses": len(aging), "2 faults": len(doubles), "2 faults replayed": len(pick)})
    ctx.log("replaying %d behaviours (%d with <=1 fault, %d with <=1 fault and a second pass, %d with the window elapsed, %d of %d with 2 faults)"
            % (len(scs), len(singles), len(overlap), len(aging), len(pick), len(doubles)))
    sp = ctx.path("scenarios.json")
    json.dump(scs, open(sp, "w"))
    binp, childp = builds.result()
    pool.shutdown()
    rp, tp = ctx.path("result.json"), ctx.path("trace.ndjson")
    ctx.run([binp, "-child", childp, "-scenarios", sp, "-out", rp, "-trace-out", tp, "-seed", str(ctx.seed)], timeout=3 * 3600)
    r = json.load(open(rp))
    if r.get("infra"):
        raise InfraError("tiering driver: " + r["infra"])
    if r["scenarios"] != len(scs):
        raise InfraError("driver replayed %d of %d behaviours" % (r["scenarios"], len(scs)))
    if r["faults_unrealised"] * 2 > len(scs):
        raise InfraError("more than half of the fault placements could not be realised (%d of %d)" % (r["faults_unrealised"], len(scs)))
    if r["queries_judged"] == 0 or r["crashes"] == 0:
        raise InfraError("vacuous replay: judged=%d crashes=%d" % (r["queries_judged"], r["crashes"]))
    ctx.count(evaluations=r["children"], nontrivial_keys=r.get("nontrivial_keys") or [])
    ctx.note("child_processes", r["children"])
    ctx.note("child_processes_killed_at_a_gate", r["crashes"])
    ctx.note("queries", r["queries"])
    ctx.note("queries_judged_after_finished_cycle", r["queries_judged"])
    ctx.note("fault_placements_not_realised", r["faults_unrealised"])
    ctx.note("per_fault_point", r["per_fault_point"])
    ctx.note("child_wall_s", round(r["child_wall_ms"] / 1000.0, 1))
    ctx.note("exhaustive", want == "all")
    ctx.note("exhaustive_parts", {"<=1 fault placements": True, "2 fault placements": want == "all"})
    ctx.note("rule", "2 migrating files of 3 size classes (5 / 20 000 / 120 000 rows: one or many copy buffers) x 4 query universes x "
             "every placement of <=1 fault (crash before/inside/after the copy, before/after the source delete, before the "
             "scan, in reconciliation; failure of read, write, UpdateTier(+rollback), source delete, Exists) and %s placements "
             "of 2 faults, each followed by re-runs until a cycle reports no error; distinct_nontrivial counts (universe, size "
             "variant, fault path)" % ("all" if want == "all" else "a seeded sample of %s of the %d" % (want, len(doubles))))
    for s in (r.get("samples") or []):
        ctx.sample(s)
    # ---- (T)
    accepted, tv = ctx.tlc_validate("tiering", "TieringTrace", "Trace.cfg", tp, timeout=1800)
    ctx.traces_validated(len(scs))
    ctx.note("trace_validation", {"lines": r["trace_lines"], "runs": len(scs), "accepted": accepted,
                                  "distinct": tv.distinct, "module": "TieringProp via TieringTrace"})
    flagged = set(v["witness"]["run"] for v in (r.get("violations") or []))
    if not accepted:
        rej = None
        for ln in tv.prints:
            if "REJECTED_AT" in ln:
                rej = int(ln.replace(">>", "").split(",")[1])
        if rej is None:
            raise InfraError("trace validation failed without REJECTED_AT: %s" % (tv.error,))
        run_id, ev = None, None
        for s in r["spans"]:
            if s["first"] <= rej <= s["last"]:
                run_id = s["run"]
        lines = open(tp).read().splitlines()
        ev = json.loads(lines[rej - 1]) if rej - 1 < len(lines) else {}
        if run_id is None:
            raise InfraError("REJECTED_AT %d is outside every run" % rej)
        if run_id not in flagged:
            ctx.violation("trace-rejected-by-TieringProp:%s" % ev.get("ev"),
                          {"run": run_id, "line": rej, "event": ev, "behaviour": scs[run_id]})
    elif flagged:
        raise InfraError("driver flagged runs %s but TLC accepted the trace: the two judges disagree" % sorted(flagged)[:5])
    ctx.assume("a crash is SIGKILL of the process at a storage.Backend call (before it, after it, or after half of the streamed bytes); "
               "crashes inside SQLite statements are left to SQLite's atomicity")
    ctx.assume("'finished' = RunMigrationCycle returned and its 'Migration cycle completed' record says errors=0")
    ctx.assume("files are migrated one at a time in the replay (MigrationMaxConcurrent=1); overlap of files is explored by TLC only")
    for d in (r.get("drift") or []):
        ctx.spec_drift("%s witness=%s" % (d["signature"], json.dumps(d["witness"])[:700]))
    for v in (r.get("violations") or []):
        ctx.violation(v["signature"], v["witness"])

"""C17 -- performance rewrites do not change query results (DESIGN section 5, C17).

(M) TLC exhausts specs/sqlrewrite/SqlRewriteTime.tla (integer model of the time_bucket / date_trunc
    epoch rewrite as written: ::BIGINT rounds half away from zero, // truncates toward zero, against
    floor-division bucket semantics with DuckDB's origins) and SqlRewriteLike.tla (like_optimizer.go's two
    regular expressions transcribed onto OR-of-AND-of-factor WHERE clauses, Kleene truth tables) and
    checks that the listed disagreement classes are complete and exact.
(G) the points / WHERE shapes TLC enumerated are made concrete (years 1011..9999, micro-second jitter;
    every valuation of the factors) and the REAL rewrite output is executed in DuckDB side by side with the
    original expression, row by row.  Any differing row is the violation; the class TLC gave the input
    names it.  The URL-domain regex->CASE rewrite has no specification: fixed-budget differential sampler.
"""
import json

from vlib import InfraError

LEVEL = "model_checking"


def run(ctx):
    quick = ctx.quick()
    # ---- (M) arithmetic fragment
    # quick: ClassesExact is checked on the generator's points (every tick within 2 s of a bucket boundary of either
    # grid, all cases); thorough additionally exhausts -2W..2W for every width up to one hour (Time_MC_large.cfg;
    # Time_MC_small.cfg = widths up to 2 minutes, for manual use)
    if not quick:
        mc = ctx.tlc("sqlrewrite", "SqlRewriteTime", "Time_MC_large.cfg", timeout=3000, workers=6)
        ctx.note("tlc_time", {"cfg": "Time_MC_large.cfg", "distinct": mc.distinct,
                              "generated": mc.generated, "depth": mc.depth, "invariant": "ClassesExact"})
    gen = ctx.tlc("sqlrewrite", "SqlRewriteTime", "Time_Gen.cfg", timeout=1200, workers=4)
    if not gen.traces:
        raise InfraError("time generator emitted nothing")
    classes = {}
    for t in gen.traces:
        classes[t["cls"]] = classes.get(t["cls"], 0) + 1
    need = ["round-up-across-bucket-boundary", "truncation-below-origin", "round-up-below-origin",
            "grid-misaligned:default-origin-2000-01-03", "grid-misaligned:week-starts-monday",
            "grid-misaligned:subsecond-origin", "agree:rounds-down", "agree:on-boundary"]
    for c in need:
        if not classes.get(c):
            raise InfraError("vacuous generation: class %s has no point" % c)
    ctx.note("tlc_time_gen", {"cfg": "Time_Gen.cfg", "invariant": "ClassesExact", "distinct": gen.distinct, "generated": gen.generated, "points": len(gen.traces), "points_per_class": classes})

    # ---- (M) predicate fragment
    lcfg = "Like_Gen_small.cfg" if quick else "Like_Gen_mid.cfg"
    lk = ctx.tlc("sqlrewrite", "SqlRewriteLike", lcfg, timeout=2400, workers=4)
    like = list(lk.traces)
    extra = None
    if not quick:
        extra = ctx.tlc("sqlrewrite", "SqlRewriteLike", "Like_Gen_large.cfg", timeout=2400, workers=4)
        like += extra.traces
    lclasses = {}
    for t in like:
        lclasses[t["cls"]] = lclasses.get(t["cls"], 0) + 1
    for c in ("agree:hoisted-inside-one-conjunction", "agree:swapped-inside-one-conjunction", "agree:unchanged"):
        if not lclasses.get(c):
            raise InfraError("vacuous generation: LIKE class %s has no shape" % c)
    if not any(t.get("clsaw") for t in like):
        raise InfraError("vacuous generation: no shape on which the pre-9f6402e optimizer would hoist across an OR")
    # negative control: the optimizer as written before /repo 9f6402e must be rejected by TLC
    neg = ctx.tlc("sqlrewrite", "SqlRewriteLike", "Like_AsWritten.cfg", timeout=900, workers=2, allow_violation=True)
    if not neg.violated:
        raise InfraError("negative control Like_AsWritten.cfg was not rejected by TLC")
    if lk.coverage:
        for a in ("ApplyRule1", "ApplyRule2", "Judge"):
            if lk.coverage.get(a, (0, 0))[0] == 0:
                raise InfraError("vacuous model: action %s never fired" % a)
    ctx.note("tlc_like", {"cfg": lcfg + ("" if quick else " + Like_Gen_large.cfg"), "distinct": lk.distinct + (extra.distinct if extra else 0),
                          "generated": lk.generated + (extra.generated if extra else 0), "depth": lk.depth, "invariants": ["ClassesExact", "Equivalent"],
                          "negative_control_rejected": "Like_AsWritten.cfg",
                          "shapes": len(like), "shapes_per_class": lclasses,
                          "actions_fired": {k: v[0] for k, v in (lk.coverage or {}).items()}})

    # ---- (G) binding
    # the driver binary is shared with C18, whose pruner clock comes from the -clock overlay
    ov = ctx.make_overlay(["sqlrewrite"], extra=ctx.overlaygen(["-clock", "internal/pruning/partition_pruner.go"]))
    binp = ctx.go_build("sqlrewrite", overlay=ov)
    sp = ctx.path("c17_in.json")
    json.dump({"time": gen.traces, "like": like, "url_budget": 320 if quick else 2000, "tps": 4}, open(sp, "w"))
    rp = ctx.path("c17_out.json")
    ctx.run([binp, "-mode", "c17", "-in", sp, "-out", rp, "-seed", str(ctx.seed), "-dir", ctx.path("c17_env")], timeout=3000)
    r = json.load(open(rp))
    if r.get("infra"):
        raise InfraError("sqlrewrite driver: " + r["infra"])
    if r["time_points"] != len(gen.traces) or r["like_shapes"] != len(like):
        raise InfraError("driver replayed %d/%d points, %d/%d shapes" % (r["time_points"], len(gen.traces), r["like_shapes"], len(like)))
    if r["time_rows"] == 0 or r["url_cases"] == 0:
        raise InfraError("driver executed nothing")
    ctx.count(evaluations=r["evaluations"] + r["time_rows"] + r["url_cases"], nontrivial_keys=r.get("nontrivial_keys") or [])
    ctx.traces_validated(len(gen.traces) + len(like))
    for k in ("time_cases", "time_rows", "time_diff_rows", "time_rows_per_class", "time_diff_rows_per_signature", "rewrite_applied",
              "like_shapes", "like_executed", "like_text_changed", "like_shapes_with_different_rows",
              "url_cases", "url_diff_rows", "url_diff_rows_per_signature"):
        ctx.note(k, r.get(k))
    ctx.note("exhaustive", False)
    ctx.note("rule", "time: every case (fn x unit x amount x origin x era) x every tick within %s of a bucket boundary of either grid "
             "x bases {1011,1901,1969 | 1970 | 2024,2199,9999} x micro-second jitter inside the class; like: every OR-of-AND shape over "
             "{L,E,X,XL} within the bounds x 3 tails x every Kleene valuation; url: sampler, no specification" % ("2 s",))
    for s in (r.get("samples") or []):
        ctx.sample(s)
    ctx.assume("timestamps are TIMESTAMP (micro-seconds, no zone) as arc stores the time column; values are compared as epoch micro-seconds, "
               "so the type change TIMESTAMP -> TIMESTAMP WITH TIME ZONE made by to_timestamp() is not counted as a difference")
    ctx.assume("factors of a WHERE clause are independent three-valued predicates; clauses are written on one line without redundant parentheses")
    ctx.assume("the URL-domain rewrite is exercised by a fixed-budget sampler only (no specification covers it)")
    for d in (r.get("drift") or []):
        ctx.spec_drift("%s witness=%s" % (d["signature"], json.dumps(d["witness"])[:500]))
    for v in (r.get("violations") or []):
        ctx.violation(v["signature"], v["witness"])

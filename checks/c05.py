"""C05 -- WAL crash recovery restores exactly the acknowledged rows (DESIGN section 5, C05).

(M) TLC exhausts specs/walrecover/WalRecover.tla twice: with the deviations of the code switched
    off (the property RecoveredEqualsCrashFree must hold: it is carried by "flush before delete",
    "no second unit detection", "no key collision") and as the code is now (deleteBeforeFlush and
    renorm still present; keyCollision and intM were repaired by 138d6b9/b076ffa/62d8a7a): TLC finds
    the shortest schedule that breaks it -- a candidate, not a verdict. MC_aswritten_small.cfg
    keeps the model of the code before the repairs as a documented negative control.
(G) TLC enumerates every terminal behaviour (write history x persist/flush/crash/restart/
    replay/delete schedule, up to two crashes, crash points in the live phase and at each step of
    startup recovery). The Go driver replays each one on the REAL code -- wal.Writer, ArrowBuffer,
    LocalBackend, the msgpack/line-protocol HTTP handlers and the recovery callbacks copied
    verbatim from the current cmd/arc/main.go -- in a child process that is killed with SIGKILL
    at the scripted point, restarted, flushed, and whose Parquet rows are compared with a
    crash-free run of the same history (real-vs-real). TLC's predicted end state is the drift
    detector only.
"""
import json
import os
import random

from vlib import InfraError, REPO

LEVEL = "model_checking"

ACTIONS = ("Write", "Persist", "Flush", "Crash", "Restart", "RecoverReplay", "RecoverReplayFail", "RecoverKeep", "RecoverDelete", "RecoverDone", "Finish")
CANON = ["w", "p", "x", "s", "r", "d", "R", "F"]


def _scenarios(traces):
    by = {}
    for t in traces:
        k = json.dumps([t["writes"], t["sched"]], sort_keys=True)
        s = by.setdefault(k, {"writes": t["writes"], "sched": t["sched"], "must": sorted(t["must"]), "allowed": []})
        pq = sorted(t["pq"], key=lambda r: json.dumps(r, sort_keys=True))
        if pq not in s["allowed"]:
            s["allowed"].append(pq)
    return [by[k] for k in sorted(by)]


def run(ctx):
    quick = ctx.quick()
    rnd = random.Random(ctx.seed)
    size = "small" if quick else "large"

    # ---- (M) model checking
    fixed = ctx.tlc("walrecover", "WalRecover", "MC_fixed_%s.cfg" % size, coverage=True, timeout=1500)
    for a in ACTIONS:
        if fixed.coverage.get(a, (0, 0))[0] == 0:
            raise InfraError("vacuous model: action %s never fired" % a)
    asb = ctx.tlc("walrecover", "WalRecover", "MC_asbuilt_small.cfg", allow_violation=True, timeout=900)
    ctx.note("tlc_model_check", {
        "repaired_design": {"cfg": "MC_fixed_%s.cfg" % size, "distinct": fixed.distinct, "generated": fixed.generated,
                            "depth": fixed.depth, "invariants": ["TypeOK", "RecoveredEqualsCrashFree"], "holds": True,
                            "actions_fired": {k: v[0] for k, v in fixed.coverage.items() if k in ACTIONS}},
        "as_built": {"cfg": "MC_asbuilt_small.cfg", "violated": asb.violated,
                     "counterexample_schedule": [l.strip() for l in asb.counterexample if "sched =" in l][-1:]}})

    # ---- (G) generation
    gen_e = ctx.tlc("walrecover", "WalRecover", "Gen_entry.cfg", timeout=900, workers=4)
    gen_s = ctx.tlc("walrecover", "WalRecover", "Gen_sched_%s.cfg" % size, timeout=1500, workers=4, heap="6g")
    entry = _scenarios(gen_e.traces)
    sched = _scenarios(gen_s.traces)
    sched_adj = sched
    if not quick:   # the large config has three write classes only; the adjacency classes come from the small one
        sched_adj = _scenarios(ctx.tlc("walrecover", "WalRecover", "Gen_sched_small.cfg", timeout=1500, workers=4).traces)
    if not entry or not sched:
        raise InfraError("generator emitted nothing")
    ctx.traces_validated(0)

    chosen = []
    if quick:
        # per attribute class: the canonical crash-after-persist-then-full-recovery schedule
        bycls = {}
        for s in entry:
            bycls.setdefault(json.dumps(s["writes"], sort_keys=True), []).append(s)
        others = []
        nor = [l for l in CANON if l != "r"]
        # always: the request buffer is reused while the envelope entry is still queued ("wu"), then persist,
        # crash, recovery -- for the plain columnar classes
        chosen += [s for s in entry if s["sched"] == ["wu"] + CANON[1:] and s["writes"][0]["sp"] == "none"
                   and s["writes"][0]["ts"] == "normal" and s["writes"][0]["sz"] == "small"]
        for k in sorted(bycls):
            lst = bycls[k]
            canon = [s for s in lst if [l for l in s["sched"] if l != "r"] == nor]
            chosen += canon
            others += [s for s in lst if s not in canon and any(x in s["sched"] for x in ("x", "xa", "xb"))]
        chosen += rnd.sample(others, min(8, len(others)))
        # schedule space: a seeded sample of the one-write schedules with a recovery-phase crash or two
        # crashes (all of them over the seeds 1 2 3 7 42 and in the thorough tier) + a few two-write ones
        def ncr(s):
            return sum(s["sched"].count(x) for x in ("x", "xa", "xb"))
        one = [s for s in sched if len(s["writes"]) == 1 and (ncr(s) == 2 or any(x in s["sched"] for x in ("xa", "xb", "rf")))]
        two = [s for s in sched if len(s["writes"]) > 1 and any(x in s["sched"] for x in ("xa", "xb"))]
        # always: crash after persist, full recovery (file deleted), crash before any flush, restart
        fixed2 = [s for s in one if s["sched"][:8] == ["w", "p", "x", "s", "r", "d", "R", "x"]]
        chosen += fixed2
        # always: a transient replay-callback failure (file must be kept), then crash, restart, retry
        faulty = [s for s in one if s["sched"] == ["w", "p", "x", "s", "rf", "k", "R", "x", "s", "r", "d", "R", "F"]]
        chosen += faulty
        # always: two WAL-adjacent columnar writes (same shape / other database, and the controls with another
        # column set or measurement), both persisted, crash, full recovery
        adj = ["w", "p", "w", "p", "x", "s", "r", "r", "d", "R", "F"]
        chosen += [s for s in sched if len(s["writes"]) == 2 and s["sched"] == adj
                   and all(w["kind"] == "raw" for w in s["writes"]) and s["writes"][0]["db"] != s["writes"][1]["db"]]
        chosen += [s for s in rnd.sample(one, min(16, len(one))) if s not in fixed2]
        chosen += rnd.sample(two, min(8, len(two)))
    else:
        ecr = [s for s in entry if any(x in s["sched"] for x in ("x", "xa", "xb"))]
        nor = [l for l in CANON if l != "r"]
        canon = [s for s in ecr if [l for l in s["sched"] if l != "r"] == nor]
        rest_e = [s for s in ecr if s not in canon]
        chosen += canon + rnd.sample(rest_e, min(260, len(rest_e)))
        crashy = [s for s in sched if any(x in s["sched"] for x in ("x", "xa", "xb"))]
        one = [s for s in crashy if len(s["writes"]) == 1]       # every one-write schedule, two crashes
        two = [s for s in crashy if len(s["writes"]) == 2]
        big = [s for s in crashy if len(s["writes"]) > 2]
        chosen += one + rnd.sample(two, min(160, len(two))) + rnd.sample(big, min(80, len(big)))
        adj = ["w", "p", "w", "p", "x", "s", "r", "r", "d", "R", "F"]
        chosen += [s for s in sched_adj if len(s["writes"]) == 2 and s["sched"] == adj
                   and all(w["kind"] == "raw" for w in s["writes"]) and s["writes"][0]["db"] != s["writes"][1]["db"]]
        two_adj = [s for s in sched_adj if len(s["writes"]) == 2 and any(x in s["sched"] for x in ("x", "xa", "xb"))
                   and any(w["kind"] == "raw" and w["db"] == "d2" for w in s["writes"])]
        chosen += rnd.sample(two_adj, min(120, len(two_adj)))
        chosen += [s for s in sched_adj if len(s["writes"]) == 1 and "rf" in s["sched"] and s not in chosen]
    ctx.log("TLC emitted %d entry-level and %d schedule-level behaviours; replaying %d" % (len(entry), len(sched), len(chosen)))
    ctx.note("generated_behaviours", {"entry_level": len(entry), "schedule_level": len(sched), "replayed": len(chosen),
                                      "gen_entry_states": gen_e.distinct, "gen_sched_states": gen_s.distinct})

    # ---- binding
    drv = ctx.go_build("walrecover")
    gen = ctx.path("verifwalcb.go")
    ctx.run([drv, "-extract", os.path.join(REPO, "cmd", "arc", "main.go"), "-out", gen], timeout=60)
    ov = ctx.make_overlay(["walrecover"], extra={"internal/verifwalcb/cb.go": gen})
    child = ctx.go_build("walrecoverchild", overlay=ov, timeout=1800)
    sp = ctx.path("scenarios.json")
    json.dump(chosen, open(sp, "w"))
    rp = ctx.path("result.json")
    ctx.run([drv, "-scenarios", sp, "-child", child, "-out", rp, "-workers", "8"], timeout=3000 if quick else 6000)
    r = json.load(open(rp))
    if r.get("infra"):
        raise InfraError("walrecover driver: " + r["infra"])
    if r["scenarios"] != len(chosen):
        raise InfraError("driver replayed %d of %d behaviours" % (r["scenarios"], len(chosen)))
    if r["kills"] == 0:
        raise InfraError("no child was ever killed: the crash points were not exercised")

    ctx.count(evaluations=r["rows_checked"], nontrivial_keys=r.get("nontrivial_keys") or [])
    ctx.traces_validated(r["scenarios"])
    ctx.note("children_started", r["children"])
    ctx.note("kills", r["kills"])
    ctx.note("kill_points", r["kill_points"])
    ctx.note("crash_free_reference_runs", r["ref_runs"])
    ctx.note("scenarios_with_duplicate_rows", r["scenarios_with_duplicate_rows"])
    ctx.note("requests_rejected_by_the_live_path", r.get("rejected_classes") or [])
    ctx.note("signature_counts", r.get("signature_counts") or {})
    ctx.note("rule", "a behaviour is non-trivial when at least one SIGKILL was delivered; rows are compared by id with the "
                     "crash-free run of the same history (database, measurement, every column value, time); a NULL equals an absent column; "
                     "duplicates of an identical row are not counted as a difference")
    for s in (r.get("samples") or []):
        ctx.sample(s)
    ctx.assume("SIGKILL of the process (page cache survives) stands for a crash; power loss / fsync ordering is not modelled")
    ctx.assume("the WAL append is held by a proxy behind ingest.WALWriter until the scripted Persist step; ArrowBuffer age-based flushing is disabled so that flushes happen only when scripted")
    ctx.assume("rows replayed twice (flushed before the crash and replayed again) are duplicates of identical rows and not judged by this property")
    ctx.assume("the recovery callbacks are the text of createWALRecoveryCallback/createColumnarRecoveryCallback of the current cmd/arc/main.go compiled in an overlay package; main()'s composition order is reproduced by the child")
    for d in (r.get("drift") or []):
        ctx.spec_drift("%s witness=%s" % (d["signature"], json.dumps(d["witness"])[:500]))
    for v in (r.get("violations") or []):
        ctx.violation(v["signature"], v["witness"])

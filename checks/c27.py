"""C27 -- edge sync delivers each file exactly once with verified content (DESIGN section 5, C27).

(M) TLC exhausts specs/edgesync/EdgeSync.tla (ledger graph as the guarded UPDATEs allow, agent pass,
    hub Receive/Reconcile, per-call transport faults, one spoke crash, environment actions) and checks
    the five clauses of the property as invariants; per-action coverage is the vacuity check.
(G) the same module produces fault schedules: the complete graph for one file (Gen_one) and seeded
    simulations for two files (Gen_small, Gen_hub); every schedule is executed on the real
    Agent + Ledger (SQLite) and the real hub Receiver + Reconciler + HubIndex over LocalBackends.
(T) the ledger transitions logged by SQLite triggers, the content the hub exposes after every storage
    mutation and the environment actions form one ndjson trace per schedule; TLC validates the
    concatenated trace against the property-level module EdgeSyncProp (EdgeSyncTrace.tla).
    A rejected trace, or a direct end-state check of the real ledger/hub storage, is the verdict;
    TLC's predicted end state is a drift detector only.
"""
import json
import os
import re

from vlib import InfraError

LEVEL = "model_checking"

EDGES = {("none", "pending"), ("pending", "in_flight"), ("in_flight", "pending"), ("in_flight", "failed"),
         ("in_flight", "synced"), ("pending", "synced"), ("pending", "failed"), ("pending", "skipped"),
         ("in_flight", "skipped")}
TERMINAL = {"synced", "skipped", "failed", "none"}
ACTIONS = ("StartPass", "StopFaults", "Recover", "Discover", "Page", "Reconcile", "MarkPresent", "MarkConflict",
           "Send", "Put", "PutCancel", "After", "Fail", "Crash", "Env")
MUST_APPLY = ("crash", "reconcile:drop", "reconcile:dropAfter", "put:dropBefore", "put:dropAfter", "put:short", "put:shortDrop",
              "put:corrupt", "put:backpressure", "put:idxfail", "put:cancel", "put:cancelAfter", "restart", "env:spokevanish", "env:hubvanish",
              "env:hubcompact", "env:foreign", "env:foreignraw")


def _name_rejection(events, k):
    """Replay the (tiny) property state up to event k to NAME what EdgeSyncProp refused; the refusal
    itself is TLC's."""
    led, hub, deliv = {}, {}, {}
    for e in events[:k]:
        f = e.get("f")
        if e["ev"] == "tr":
            led[f] = e["new"]
        elif e["ev"] == "commit":
            hub[f] = e["cls"]
        elif e["ev"] == "unexpose":
            hub[f] = "none"
        elif e["ev"] == "env":
            if e["kind"] == "hubvanish":
                hub[f] = "none"
            elif e["kind"] == "hubcompact":
                hub[f] = "none"
                deliv[f] = True
            elif e["kind"] in ("foreign", "foreignraw"):
                hub[f] = "foreign"
    e = events[k]
    f = e.get("f")
    if e["ev"] == "tr":
        if (e["old"], e["new"]) not in EDGES:
            return "undocumented-ledger-transition:%s->%s" % (e["old"], e["new"])
        if led.get(f, "none") != e["old"]:
            return "transition-log-inconsistent:row-was-%s-logged-old-%s" % (led.get(f, "none"), e["old"])
        if e["new"] == "synced":
            return "marked-synced-while-hub-lacks-identical-content:%s->synced,hub=%s" % (e["old"], hub.get(f, "none"))
        return "transition-refused:%s->%s" % (e["old"], e["new"])
    if e["ev"] == "commit":
        if e["cls"] != "own":
            return "hub-exposed-bytes-differing-from-the-spokes:%s" % e["cls"]
        if deliv.get(f):
            return "hub-stored-a-file-again-after-compacting-it"
        return "hub-rewrote-an-exposed-file:was=%s" % hub.get(f, "none")
    if e["ev"] == "quiesced":
        for i, st in enumerate(e["led"]):
            if st not in TERMINAL:
                return "not-quiescent:row-left-%s" % st
        for i, st in enumerate(e["led"]):
            if led.get(i + 1, "none") != st:
                return "final-ledger-row-not-explained-by-transition-log"
        return "final-hub-content-not-explained-by-observed-commits"
    return "trace-refused-at-%s" % e["ev"]


def run(ctx):
    quick = ctx.quick()
    # ---------------------------------------------------------------- (M)
    mcfg = "MC_small.cfg" if quick else "MC_large.cfg"
    mc = ctx.tlc("edgesync", "EdgeSync", mcfg, coverage=True, timeout=2400, workers=6)
    fired = {k: v[0] for k, v in mc.coverage.items()}
    ctx.note("tlc_model_check", {"cfg": mcfg, "distinct": mc.distinct, "generated": mc.generated, "depth": mc.depth,
                                 "invariants": ["TypeOK", "DocumentedEdgesOnly", "SyncedOnlyWhenHeld", "StoredAtMostOnce",
                                                "HubBytesAreSpokes", "Quiescent"],
                                 "actions_fired": fired})
    for a in ACTIONS:
        if fired.get(a, 0) == 0:
            raise InfraError("vacuous model: action %s never fired (%s)" % (a, fired))

    # ---------------------------------------------------------------- (G) schedules from TLC
    scen, seen = [], set()

    def take(res, src):
        n = 0
        for t in res.traces:
            key = json.dumps(t["hist"], sort_keys=True) + "|%d" % len(t["led"])
            if key in seen:
                continue
            seen.add(key)
            t["id"] = len(scen)
            t["src"] = src
            scen.append(t)
            n += 1
        return n

    g1 = ctx.tlc("edgesync", "EdgeSync", "Gen_one.cfg" if quick else "Gen_one_large.cfg", timeout=2400, workers=6)
    n1 = take(g1, "one")
    g2 = ctx.tlc("edgesync", "EdgeSync", "Gen_small.cfg", mode="simulate", num=100 if quick else 1000, depth=400,
                 timeout=2400, workers=4)
    n2 = take(g2, "sim")
    g3 = ctx.tlc("edgesync", "EdgeSync", "Gen_hub.cfg", mode="simulate", num=60 if quick else 600, depth=400,
                 timeout=2400, workers=4)
    n3 = take(g3, "simhub")
    # complete two-file graph for the lost-acknowledgement x hub-side-loss corner (no crash, drop faults only)
    g4 = ctx.tlc("edgesync", "EdgeSync", "Gen_two.cfg", timeout=2400, workers=6)
    n4 = take(g4, "two")
    if not n4:
        raise InfraError("Gen_two produced nothing")
    if not n1 or not n2 or not n3:
        raise InfraError("schedule generation produced nothing (%d/%d/%d)" % (n1, n2, n3))
    ctx.note("schedules", {"one_file_exhaustive": n1, "two_files_simulated": n2, "two_files_simulated_hub_env": n3, "two_files_exhaustive_drop_x_hubloss": n4,
                           "gen_one_states": g1.distinct})
    ctx.log("TLC produced %d distinct schedules (%d exhaustive one-file, %d + %d simulated two-file)" % (len(scen), n1, n2, n3))

    # ---------------------------------------------------------------- real runs
    sp = ctx.path("scenarios.json")
    json.dump([{"id": s["id"], "hist": s["hist"], "led": s["led"], "hub": s["hub"], "idx": s["idx"]} for s in scen], open(sp, "w"))
    binp = ctx.go_build("edgesync")
    rp, tp = ctx.path("result.json"), ctx.path("trace.ndjson")
    scratch = "/dev/shm" if os.path.isdir("/dev/shm") else ctx.path()
    sdir = os.path.join(scratch, "verif-c27-%d" % os.getpid())
    os.makedirs(sdir, exist_ok=True)
    try:
        p = ctx.run([binp, "-scenarios", sp, "-out", rp, "-trace", tp, "-seed", str(ctx.seed), "-workers", "6",
                     "-scratch", sdir], timeout=3000, check=False)
    finally:
        ctx.run(["rm", "-rf", sdir], check=False)
    if not os.path.exists(rp):
        raise InfraError("edgesync driver produced no result (exit %s): %s" % (p.returncode, (p.stdout or "")[-2000:]))
    r = json.load(open(rp))
    if r.get("infra"):
        raise InfraError("edgesync driver: " + r["infra"])
    results = r["results"]
    if len(results) != len(scen):
        raise InfraError("driver ran %d of %d schedules" % (len(results), len(scen)))

    applied = {}
    for x in results:
        for a in set(x["applied"] or []):
            applied[a] = applied.get(a, 0) + 1
    ctx.note("faults_applied_on_real_code", applied)
    for k in MUST_APPLY:
        if not applied.get(k):
            raise InfraError("no executed schedule applied %s: the exploration does not reach the property's quantifier" % k)
    nev = sum(len(x["events"]) for x in results)
    ctx.count(evaluations=nev)
    for x in results:
        ctx.count(nontrivial_keys=["|".join(sorted(set(x["applied"] or []))) + "=>" + ",".join(x["final_led"]) + "/" + ",".join(x["final_hub"])])
    ctx.note("passes_executed", sum(x["passes"] for x in results))
    for x in results[:2] + [y for y in results if "crash" in (y["applied"] or [])][:2]:
        ctx.sample({"schedule": scen[x["id"]]["hist"], "events": x["events"][-12:]})

    # ---------------------------------------------------------------- direct end-state checks (real ledger + hub storage)
    for x in results:
        for d in x.get("direct") or []:
            ctx.violation(d["sig"], {"schedule": scen[x["id"]]["hist"], "observed": d, "events": x["events"],
                                     "final_ledger": x["final_led"], "final_hub": x["final_hub"]})

    # ---------------------------------------------------------------- (T) TLC validates the real traces against EdgeSyncProp
    lines = open(tp).read().splitlines()
    if len(lines) != r["lines"]:
        raise InfraError("trace has %d lines, driver reported %d" % (len(lines), r["lines"]))
    live = list(results)
    rejected = 0
    while live:
        text = "\n".join("\n".join(json.dumps(e) for e in x["events"]) + '\n{"ev": "end"}' for x in live) + "\n"
        ok, res = ctx.tlc_validate("edgesync", "EdgeSyncTrace", "Trace.cfg", text, timeout=2400)
        if ok:
            break
        at = None
        for pr in res.prints:
            m = re.search(r'"REJECTED_AT",\s*(\d+)', pr if isinstance(pr, str) else json.dumps(pr))
            if m:
                at = int(m.group(1))
        if at is None:
            raise InfraError("trace validation failed without a REJECTED_AT line: %s" % (res.error,))
        # find the scenario owning line `at` (1-based) in this concatenation
        pos, owner, k = 0, None, None
        for x in live:
            n = len(x["events"]) + 1
            if pos < at <= pos + n:
                owner, k = x, at - pos - 1
                break
            pos += n
        if owner is None or k >= len(owner["events"]):
            raise InfraError("REJECTED_AT %d does not fall on an event" % at)
        sig = _name_rejection(owner["events"], k)
        ctx.violation(sig, {"schedule": scen[owner["id"]]["hist"], "refused_event": owner["events"][k], "event_index": k,
                            "events": owner["events"], "final_ledger": owner["final_led"], "final_hub": owner["final_hub"],
                            "judge": "TLC: EdgeSyncTrace/EdgeSyncProp cannot explain this event"})
        rejected += 1
        live = [x for x in live if x is not owner]
        if rejected >= 12:
            ctx.note("trace_validation_stopped_after", rejected)
            break
    ctx.traces_validated(len(results))
    ctx.note("trace_events_validated", nev)
    ctx.note("traces_rejected", rejected)

    # ---------------------------------------------------------------- drift detector
    nd = 0
    for x in results:
        for d in x.get("drift") or []:
            nd += 1
            if nd <= 5:
                ctx.spec_drift("%s (schedule %s)" % (d, json.dumps(scen[x["id"]]["hist"])[:600]))
    ctx.note("schedules_with_drift", sum(1 for x in results if x.get("drift")))

    ctx.note("bounds", {"files": "1 (exhaustive schedules) / 2 (model checking, simulated schedules)",
                        "runs_with_faults": "<=2 quick, <=3 thorough", "faults": "<=2 quick (one-file), <=3",
                        "crash": 1, "environment_actions": 1, "max_attempts": 3, "file_size": "3 chunks of 24 bytes"})
    ctx.note("rule", "verdict = TLC refuses a real trace against EdgeSyncProp, or a direct end-state check of the real "
                     "ledger/hub storage fails; distinct_nontrivial counts distinct (applied fault set => end state) classes")
    ctx.assume("one agent pass at a time (MaxConcurrent=1, no overlapping passes); the in-process transport stands for "
               "HTTPTransport + the hub's HTTP handler (body read completely before the hub handler runs)")
    ctx.assume("a spoke crash is modelled by making every later ledger statement and hub call of the dying process fail "
               "and reopening the ledger from the same SQLite file; SQLite's own crash atomicity is trusted")
    ctx.assume("environment actions happen between passes or on entry of a hub call, never between the hub's answer "
               "and the agent's ledger write; foreign bytes are only ever placed on an empty path without receipt")
    ctx.assume("hub storage is a LocalBackend (resumable); SHA-256 collisions do not occur")

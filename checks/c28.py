"""C28 -- query rate limits and quotas are never exceeded (DESIGN section 5, C28).

(M) TLC on specs/ratelimit/RateLimit.tla (slidingWindowCounter ring, quotaTracker reset rule,
    Manager check order and lazy tracker creation, UpdatePolicy -- as written) with a DENSE
    integer clock on a structure-preserving scale-down (3 slots of 2 units, hour = 2 windows,
    day = 2 hours): invariants WindowBound / HourQuota / DayQuota and the action property
    RateRejectFree, instantiated with the ring shape and reset rule probed on the working tree
    (one extra ring slot, reset at the boundary since 5869152): they hold over the whole graph.
    Negative controls TLC must reject: no extra slot (WindowBound), reset strictly after the
    boundary (HourQuota/DayQuota) -- the code before that commit.
(G) the same module with the REAL ring (N, Extra read from the limiter the Manager created) and
    the clock restricted to slot / window / hour / day boundary classes (slot start, +1ns, mid,
    end-1ns) enumerates every bounded schedule of requests and policy updates with predicted
    outcomes.  The Go driver replays each one against the real governance.Manager
    (CheckRateLimit then CheckQuota, UpdatePolicy) under the overlay clock, for the per-minute
    and the per-hour limiter, and judges the property on the OBSERVED admit times.
"""
import json
import os
import re

from vlib import InfraError, REPO

LEVEL = "model_checking"

CLOCK_FILES = "internal/governance/sliding_window.go,internal/governance/quota_tracker.go,internal/governance/manager.go"

CFG = """SPECIFICATION Spec
CONSTANTS
  N = %(N)d
  Extra = %(Extra)d
  ResetAtBoundary = %(RAB)s
  D = %(D)d
  HourU = %(HourU)d
  DayU = %(DayU)d
  Times = {%(Times)s}
  RLimits = {%(RL)s}
  HLimits = {%(HL)s}
  DLimits = {%(DL)s}
  MaxReq = %(MaxReq)d
  MaxUpd = %(MaxUpd)d
  Emit = %(Emit)s
%(inv)s
CHECK_DEADLOCK FALSE
"""

INV = "INVARIANTS WindowBound HourQuota DayQuota"
ALLINV = INV + "\nPROPERTIES RateRejectFree"


def cfg(**k):
    k["Times"] = ",".join(str(t) for t in sorted(set(k["Times"])))
    k["RAB"] = "TRUE" if k.pop("rab") else "FALSE"
    k.setdefault("Emit", "FALSE")
    return CFG % k


def check_order():
    """api/query.go:executeQuery must call CheckRateLimit before CheckQuota (the driver replicates that order)."""
    try:
        src = open(os.path.join(REPO, "internal/api/query.go"), errors="replace").read()
    except OSError:
        return "internal/api/query.go not readable"
    a, b = src.find(".CheckRateLimit("), src.find(".CheckQuota(")
    if a < 0 or b < 0:
        return "executeQuery no longer calls CheckRateLimit/CheckQuota"
    if a > b:
        return "executeQuery calls CheckQuota before CheckRateLimit (the driver replays rate-limit first)"
    return None


def run(ctx):
    quick = ctx.quick()
    extra = ctx.overlaygen(["-clock", CLOCK_FILES])
    ov = ctx.make_overlay(["ratelimit"], extra=extra)
    drv = ctx.go_build("ratelimit", overlay=ov)
    pj = ctx.path("probe.json")
    ctx.run([drv, "-mode", "probe", "-out", pj], timeout=300)
    probe = json.load(open(pj))
    shapes, rab = probe["shapes"], probe["reset_at_boundary"]
    ctx.note("limiter_shapes", shapes)
    ctx.note("quota_resets_at_boundary_instant", rab)
    for kind, s in shapes.items():
        ctx.log("%s limiter: window=%gs slot=%gs ring=%d (N=%d extra=%d)" % (kind, s["window_ns"] / 1e9, s["slot_ns"] / 1e9, s["ring"], s["n"], s["extra"]))
        if s["n"] < 3 or s["extra"] < 0 or s["n"] * s["slot_ns"] != s["window_ns"]:
            raise InfraError("unexpected %s limiter shape %s" % (kind, s))
    if shapes["minute"]["slot_ns"] * 3600 != 3600 * 10**9:
        raise InfraError("per-minute limiter slot is not one second; the quota grid assumes it")
    drift = check_order()
    if drift:
        ctx.spec_drift(drift)

    # ---- (M) dense small scope
    # dense clock plus instants two, three and four scaled hours (= one and two scaled days) later:
    # idle gaps / forward clock jumps of k >= 2 whole periods
    dense = list(range(0, 15 if quick else 21)) + ([25, 37, 49] if quick else [24, 25, 36, 37, 48, 49])
    small = dict(N=3, D=2, HourU=12, DayU=24, Times=dense, RL=("1,2" if quick else "0,1,2"), HL="0,2", DL=("0" if quick else "0,3"), MaxReq=4, MaxUpd=1)
    ex_small = min(shapes["minute"]["extra"], 1)
    cur = ctx.tlc("ratelimit", "RateLimit", "MC_cur.cfg", files={"MC_cur.cfg": cfg(Extra=ex_small, rab=rab, inv=(INV if quick else ALLINV), **small)},
                  allow_violation=True, timeout=2400, workers=6)
    wit, wit_extra = cur, ex_small
    if cur.violated:
        # the code as it is now is a candidate; non-vacuity witness: one extra slot + reset at the boundary
        wit, wit_extra = ctx.tlc("ratelimit", "RateLimit", "MC_r.cfg", files={"MC_r.cfg": cfg(Extra=1, rab=True, inv=(INV if quick else ALLINV), **small)},
                                 timeout=2400, workers=6), 1
    # negative controls: the same module must REJECT the code before 5869152
    ctl = {}
    for name, ex, rb, expect in (("ring_without_extra_slot", 0, True, ("WindowBound",)),
                                 ("reset_strictly_after_boundary", 1, False, ("HourQuota", "DayQuota"))):
        if (ex, rb) == (ex_small, rab):
            continue
        # the quota control runs without a rate limit, which would otherwise throttle the burst after the boundary
        scope = dict(small, RL="0", HL="1,2", DL="0") if name.startswith("reset") else small
        nc = ctx.tlc("ratelimit", "RateLimit", "MC_negctl.cfg", files={"MC_negctl.cfg": cfg(Extra=ex, rab=rb, inv=INV, **scope)},
                     allow_violation=True, timeout=1500, workers=6)
        if nc.violated not in expect:
            raise InfraError("negative control %s was not rejected by TLC (violated=%s): the model lost its teeth" % (name, nc.violated))
        ctl[name] = {"extra": ex, "reset_at_boundary": rb, "violated": nc.violated, "distinct_at_stop": nc.distinct}
    deep = None
    if not quick:
        # thorough: the window invariant alone, longer clock and one more request
        deep = ctx.tlc("ratelimit", "RateLimit", "MC_w.cfg", files={"MC_w.cfg": cfg(Extra=wit_extra, rab=True, inv="INVARIANTS WindowBound", N=3, D=2, HourU=12, DayU=24,
                       Times=range(0, 27), RL="1,2", HL="0", DL="0", MaxReq=5, MaxUpd=1)}, timeout=3000, workers=6)
    ctx.note("tlc_model_check", {
        "code_as_it_is": {"extra": ex_small, "reset_at_boundary": rab, "violated": cur.violated, "distinct": cur.distinct, "generated": cur.generated, "depth": cur.depth},
        "witness_one_extra_slot_and_reset_at_boundary": (None if wit is cur else {"violated": None, "distinct": wit.distinct, "generated": wit.generated, "depth": wit.depth}),
        "negative_controls_rejected": ctl,
        "vacuity": "action firing is established on the generated schedules (req/upd/outcome counts in tlc_generation)",
        "window_only_5_requests_clock_0_26": (None if deep is None else {"distinct": deep.distinct, "generated": deep.generated, "depth": deep.depth}),
        "scope": "3 slots x 2 units, hour = 12 units, day = 24 units, dense clock 0..%d plus gaps of 2-4 hours, %d requests, 1 policy update" % (max(d for d in dense if d < 24), small["MaxReq"])})
    ctx.log("TLC dense small scope: code as it is (extra=%d, reset_at_boundary=%s) -> %s (%d distinct); negative controls rejected: %s"
            % (ex_small, rab, "violates " + cur.violated if cur.violated else "holds", cur.distinct, sorted(ctl) or "n/a"))

    # ---- (G) real ring, boundary grid
    D = 4
    fams = []
    by_shape = {}

    def gen(name, key, **k):
        if key in by_shape:
            return by_shape[key]
        g = ctx.tlc("ratelimit", "RateLimit", "Gen.cfg", files={"Gen.cfg": cfg(Emit="TRUE", inv="INVARIANTS EmitInv", D=D, **k)}, timeout=2400, workers=6)
        if not g.traces:
            raise InfraError("generator %s emitted nothing" % name)
        outs = {}
        for t in g.traces:
            for e in t["ev"]:
                o = e["out"] if e["op"] == "req" else "upd"
                outs[o] = outs.get(o, 0) + 1
        if k["MaxUpd"] > 0 and not outs.get("upd"):
            raise InfraError("generator %s: no schedule contains a policy update" % name)
        sp = ctx.path("scen_%s.json" % key)
        json.dump(g.traces, open(sp, "w"))
        ctx.traces_validated(len(g.traces))
        by_shape[key] = (sp, len(g.traces), g.distinct, outs)
        ctx.log("TLC generated %d %s schedules (%d distinct states)" % (len(g.traces), name, g.distinct))
        return by_shape[key]

    es = (0, 1, D - 1)
    gnotes = {}
    for kind in ("minute", "hour"):
        n, ex = shapes[kind]["n"], shapes[kind]["extra"]
        ks = [0, 1, n - 1, n, n + 1] if quick else [0, 1, n - 1, n, n + 1, 2 * n]
        times = [k * D + e for k in ks for e in es]
        sp, cnt, dist, outs = gen("window", "window_%d_%d" % (n, ex), N=n, Extra=ex, rab=rab, HourU=3600 * D, DayU=86400 * D, Times=times,
                                  RL="1,2", HL="0", DL="0", MaxReq=4 if quick else 5, MaxUpd=1)
        if outs.get("rate", 0) == 0 or outs.get("ok", 0) == 0:
            raise InfraError("window schedules are vacuous: %s" % outs)
        fams.append({"name": "window", "kind": kind, "d": D, "file": sp})
        gnotes["window/" + kind] = {"schedules": cnt, "distinct": dist, "predicted_outcomes": outs, "slots_visited": ks, "in_slot_classes": list(es)}
    n, ex = shapes["minute"]["n"], shapes["minute"]["extra"]
    H, Dy = 3600 * D, 86400 * D
    around = lambda x: [x - 1, x, x + 1]
    ht = [1, 2 * D] + around(H) + [H + H // 2] + around(2 * H) + [3 * H + 1, 5 * H + 1]   # idle gaps of 1, 2 and 4 whole hours
    sp, cnt, dist, outs = gen("hourquota", "hourquota", N=n, Extra=ex, rab=rab, HourU=H, DayU=Dy, Times=ht, RL="0", HL="1,2", DL="0",
                              MaxReq=4 if quick else 5, MaxUpd=1)
    if outs.get("quota", 0) == 0:
        raise InfraError("hour-quota schedules are vacuous: %s" % outs)
    fams.append({"name": "hourquota", "kind": "minute", "d": D, "file": sp})
    gnotes["hourquota"] = {"schedules": cnt, "distinct": dist, "predicted_outcomes": outs}
    dt = [1, H] + around(Dy) + [Dy + H] + around(2 * Dy) + [3 * Dy + 1, 5 * Dy + 1]   # idle gaps of 1, 2 and 4 whole days
    sp, cnt, dist, outs = gen("dayquota", "dayquota", N=n, Extra=ex, rab=rab, HourU=H, DayU=Dy, Times=dt, RL="0", HL="0,2", DL="1,2",
                              MaxReq=4 if quick else 5, MaxUpd=1)
    if outs.get("quota", 0) == 0:
        raise InfraError("day-quota schedules are vacuous: %s" % outs)
    fams.append({"name": "dayquota", "kind": "minute", "d": D, "file": sp})
    gnotes["dayquota"] = {"schedules": cnt, "distinct": dist, "predicted_outcomes": outs}
    W = n * D
    ct = [0, 1, D, W - 1, W, W + 1] + around(H) + [3 * H + 1]
    sp, cnt, dist, outs = gen("combined", "combined", N=n, Extra=ex, rab=rab, HourU=H, DayU=Dy, Times=ct, RL="1,2", HL="1,2", DL="0",
                              MaxReq=4 if quick else 5, MaxUpd=0 if quick else 1)
    if outs.get("rate", 0) == 0 or outs.get("quota", 0) == 0:
        raise InfraError("combined schedules are vacuous: %s" % outs)
    fams.append({"name": "combined", "kind": "minute", "d": D, "file": sp})
    # the same schedules once more with a usage lookup around every request (RateRejectFree on real code);
    # every other family leaves the quota tracker untouched between requests
    fams.append({"name": "combined", "kind": "minute", "d": D, "file": sp, "probe": True})
    gnotes["combined"] = {"schedules": cnt, "distinct": dist, "predicted_outcomes": outs}
    ctx.note("tlc_generation", gnotes)
    ctx.note("exhaustive", True)
    ctx.note("rule", "every schedule of %d requests (+<=1 policy update) over the boundary grid, per family; model unit classes inside a slot: start, +1ns, mid, end-1ns" % (4 if quick else 5))

    rin, rout = ctx.path("replay.json"), ctx.path("result.json")
    json.dump(fams, open(rin, "w"))
    ctx.run([drv, "-mode", "replay", "-in", rin, "-out", rout, "-seed", str(ctx.seed)], timeout=3000)
    r = json.load(open(rout))
    if r.get("infra"):
        raise InfraError("ratelimit driver: " + r["infra"])
    ctx.count(evaluations=r["requests"])
    for fam, nsc in r["scenarios"].items():
        if nsc == 0:
            raise InfraError("family %s replayed nothing" % fam)
        ctx.count(nontrivial_keys=["%s#%d" % (fam, i) for i in range(nsc)])
    ctx.note("observed_outcomes", r["outcomes"])
    ctx.note("concurrent_stress", r["concurrent"])
    for smp in r.get("samples") or []:
        ctx.sample(smp)
    ctx.assume("the clock does not run backwards (forward jumps / idle gaps up to 4 whole hours and 4 whole days are explored; with a backward step the window and the clock hour of earlier admits are ambiguous, so it is not judged)")
    ctx.assume("limits change value but a check is never switched between unlimited (0) and limited by an update")
    ctx.assume("api/query.go calls CheckRateLimit before CheckQuota; the driver replays that order (checked textually, not executed)")
    ctx.assume("DeletePolicy (which discards the token's counters) is outside the explored operations")
    for sig, f in sorted((r.get("drift") or {}).items()):
        ctx.spec_drift("%s x%d witness=%s" % (sig, f["count"], json.dumps(f["witness"])[:300]))
    for sig, f in sorted((r.get("violations") or {}).items()):
        w = dict(f["witness"])
        w["occurrences"] = f["count"]
        ctx.violation(sig, w)

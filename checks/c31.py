"""C31 -- file imports store every data row of the uploaded file (DESIGN section 5, C31).

(M) TLC exhausts specs/fileimport/FileImport.tla: the scan of inferAndConvertColumn as written (flags, early
    break, precedence) over every column of <=3 cell classes, the time-column gate of stringsToTimeMicros, and the
    decision tables of arrowColumnToTyped / parquetColumnToTimeMicros; invariants: the inferred type holds every
    cell of the column (CsvLossless), it is the narrowest such type, a refused file stores nothing and a file is
    refused only when it cannot be imported completely, every parquet value of an accepted file fits the stored
    type (uint64 above 2^63-1 refuses the file since repo commit 4025fa4).  MC_pq_u64.cfg (thorough) is the negative
    control: the as-first-written plain int64() cast must be rejected by TLC.
(G) TLC enumerates abstract files (every column of <=3 cells; every option combination time_format x time cell
    class x unit x delimiter x skip_rows x time_column name/position x bad last row; three-column files; every
    parquet column type with nulls and both value ranges; every parquet time column type x time_format x unit) with
    the predicted outcome; the Go driver renders each one (seeded), uploads it through the real import handlers ->
    real ArrowBuffer -> local storage, reads the stored Parquet back with DuckDB and compares row multisets with
    the table the upload was rendered from.  The verdict follows the property statement (values are judged in the
    type the code actually stored); the model's predictions are a drift detector.
"""
import json
import re

from vlib import InfraError

LEVEL = "model_checking"


def _fired(res):
    fired = {}
    for line in open(res.log):
        m = re.match(r"^<(\w+) line [^>]*>: (\d+):(\d+)", line)
        if m:
            fired[m.group(1)] = fired.get(m.group(1), 0) + int(m.group(3))
    return fired


def run(ctx):
    quick = ctx.quick()
    mc = ctx.tlc("fileimport", "FileImport", "MC_small.cfg", coverage=True, timeout=900)
    fired = _fired(mc)
    for a in ("CsvTime", "CsvScan", "CsvScanEnd", "CsvDecide", "PqStep"):
        if fired.get(a, 0) == 0:
            raise InfraError("vacuous model: action %s never fired (%s)" % (a, fired))
    note = {"cfg": "MC_small.cfg", "distinct": mc.distinct, "generated": mc.generated, "depth": mc.depth,
            "invariants": ["CsvLossless", "CsvNarrowest", "AllOrNothing", "RejectJustified", "PqLossless"],
            "actions_fired": fired}
    if not quick:
        for cfg in ("MC_large.cfg", "MC_deep.cfg", "MC_pq2.cfg"):
            r = ctx.tlc("fileimport", "FileImport", cfg, timeout=1500)
            note[cfg] = {"distinct": r.distinct, "generated": r.generated, "depth": r.depth}
        u = ctx.tlc("fileimport", "FileImport", "MC_pq_u64.cfg", allow_violation=True, timeout=600)
        if u.violated != "PqLossless":
            raise InfraError("negative control MC_pq_u64.cfg (plain int64() cast of uint64) was not rejected by TLC: %s" % u.violated)
        ctx.note("tlc_negative_control", {"cfg": "MC_pq_u64.cfg", "violated": u.violated,
                 "meaning": "the as-first-written variant (U64Check = FALSE: uint64 cast to int64) breaks PqLossless, as expected"})
    ctx.note("tlc_model_check", note)

    gen = ctx.tlc("fileimport", "FileImport", "Gen_quick.cfg" if quick else "Gen_thorough.cfg", timeout=1500, workers=4)
    seen, scs = set(), []
    for t in gen.traces:
        k = json.dumps(t, sort_keys=True)
        if k not in seen:
            seen.add(k)
            scs.append(t)
    scs.sort(key=lambda t: json.dumps(t, sort_keys=True))
    if not scs:
        raise InfraError("generator emitted nothing")
    pred = {}
    for t in scs:
        k = "%s/%s" % (t["mode"], t["outcome"])
        pred[k] = pred.get(k, 0) + 1
    for k in ("csv/stored", "csv/rejected", "parquet/stored", "parquet/rejected"):
        if not pred.get(k):
            raise InfraError("generated files never predict %s" % k)
    ctx.log("TLC generated %d abstract files %s" % (len(scs), pred))
    ctx.note("generated_files", {"total": len(scs), "predicted": pred})

    binp = ctx.go_build("fileimport")
    sp, rp = ctx.path("scenarios.json"), ctx.path("result.json")
    json.dump(scs, open(sp, "w"))
    ctx.run([binp, "-scenarios", sp, "-out", rp, "-seed", str(ctx.seed)], timeout=2700)
    r = json.load(open(rp))
    if r.get("infra"):
        raise InfraError("fileimport driver: " + r["infra"])
    if r["files"] != len(scs):
        raise InfraError("driver uploaded %d of %d files" % (r["files"], len(scs)))
    if r["accepted"] == 0 or r["refused"] == 0 or r["rows_compared"] == 0:
        raise InfraError("vacuous replay: accepted=%d refused=%d rows=%d" % (r["accepted"], r["refused"], r["rows_compared"]))
    ctx.count(evaluations=r["cells_compared"], nontrivial_keys=r["keys"])
    ctx.traces_validated(r["files"])
    ctx.note("replay", {k: r[k] for k in ("files", "accepted", "refused", "rows_compared", "cells_compared",
                                          "inexact_time_values_skipped", "per_mode", "stored_types")})
    ctx.note("exhaustive", True)
    ctx.note("rule", "every CSV column of <=3 cells over 7 cell classes; every combination of time_format x time cell class x "
                     "unit x delimiter x skip_rows x time column name/position x bad last row on two fixed columns; 216 "
                     "three-column files; every parquet column type (%s) x nulls x value range; every parquet time column "
                     "type x time_format x unit; concrete texts/values chosen with VERIF_SEED"
             % ("one column per file" if quick else "pairs of columns"))
    for s in (r.get("samples") or []):
        ctx.sample(s)
    ctx.assume("numeric accuracy is out of scope: only values whose conversion is exactly representable are compared "
               "(times whose unit conversion is not an integer number of microseconds are skipped and counted)")
    ctx.assume("values are judged in the column type the code actually stored; the model's predicted type is a drift detector")
    ctx.assume("an empty CSV cell is NULL (or the empty string in a string column); storage faults during flush are not injected")
    for d in (r.get("drift") or []):
        ctx.spec_drift("%s witness=%s" % (d["signature"], json.dumps(d["witness"])[:500]))
    for v in (r.get("violations") or []):
        ctx.violation(v["signature"], v["witness"])

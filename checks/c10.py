"""C10 -- row-level delete removes exactly the rows the predicate selects (DESIGN section 5, C10).

(M) TLC exhausts specs/rowdelete/RowDelete.tla: every predicate of the bounded grammar (comparison,
    IS [NOT] NULL, [NOT] IN incl. NULL in the list, [NOT] LIKE prefix, constants TRUE / 1=1 / FALSE / 1=0 /
    NULL = NULL, comparisons of the time column with quoted timestamp literals, AND/OR/NOT, depth <= 2) x the request flags {dry_run, confirm}^2 x every
    layout of the row universe over <= 3 files (each in its own hour/day partition directory, all with the same
    base name, row times inside the partition), Kleene evaluation, the delete automaton as the code
    is now (Keep = "is_not_true": affected files = files with a TRUE row, rewrite keeps
    (p) IS NOT TRUE -- fix f4599fa) and checks ImplSafe and the property PropExact.  Negative
    control: Neg_small.cfg (Keep = "not_p", the behaviour before the fix) must violate PropExact,
    otherwise the run is an InfraError (vacuous property).
(M2) Overlap.tla: two overlapping confirmed deletes (double submit) as processes with steps scan / rewrite-file,
    every interleaving, invariants UnselectedStay / SelectedGone / CountsAddUp; negative control Recount = FALSE.
    The family A.scan ; B completely ; A.rewrite* is replayed: request A is held at the handler's own log line
    between scan and rewrite (a blocking log sink, no timing) while request B runs.
(G) the same run emits every (predicate, layout) case with the truth vector, the property's expected
    outcome and the model's prediction.  Cases are de-duplicated by (layout, truth vector) and the
    Go driver replays them into the REAL handler (internal/api/delete.go via fiber, dry run then
    confirmed) on real Parquet files; the verdict compares the rows read back with the expected
    outcome (oracle = the spec's Kleene evaluation, which the property names), DuckDB's evaluation
    of the rendered predicate on the original rows is the second opinion.
"""
import json
import random
import threading

from vlib import InfraError

LEVEL = "model_checking"


def run(ctx):
    size = "small" if ctx.quick() else "large"
    # build the driver while TLC runs
    built = {}

    def build():
        try:
            built["bin"] = ctx.go_build("rowdelete", timeout=3600)
        except BaseException as e:  # noqa
            built["err"] = e

    th = threading.Thread(target=build)
    th.start()
    try:
        gen = ctx.tlc("rowdelete", "RowDelete", "Gen_%s.cfg" % size, coverage=ctx.quick(), timeout=2400, workers=6)
        neg = ctx.tlc("rowdelete", "RowDelete", "Neg_small.cfg", timeout=1200, workers=6, allow_violation=True)
        ovl = ctx.tlc("rowdelete", "Overlap", "Overlap_%s.cfg" % size, coverage=ctx.quick(), timeout=1200, workers=6)   # same row universe as Gen_<size>
        ovn = ctx.tlc("rowdelete", "Overlap", "OverlapNeg_small.cfg", timeout=1200, workers=6, allow_violation=True)
    finally:
        th.join()
    if "err" in built:
        raise built["err"]
    ds = [t for t in gen.traces if t.get("kind") == "dataset"]
    cases = [t for t in gen.traces if t.get("kind") == "case"]
    if len(ds) != 1 or not cases:
        raise InfraError("generator emitted %d dataset lines and %d cases" % (len(ds), len(cases)))
    ds = ds[0]
    if ctx.quick():
        for a in ("RejectUnconfirmed", "DryRunPlain", "DryRun", "FindAffectedBatch", "FindAffectedFallback", "RewriteCopy", "RewriteRemove"):
            if gen.coverage.get(a, (0, 0))[0] == 0:
                raise InfraError("vacuous model: action %s never fired" % a)
    if neg.violated != "PropExact":
        raise InfraError("negative control: the pre-fix variant (Keep = \"not_p\") does not violate PropExact -- the property is vacuous")
    model_breaks = sum(1 for c in cases if c["impl"] != c["expected"] or c["impl_deleted"] != c["expected_count"])
    if model_breaks:
        raise InfraError("the model of the current code breaks PropExact in %d emitted cases although TLC accepted it" % model_breaks)
    ctx.note("tlc_model_check", {"cfg": "Gen_%s.cfg" % size, "distinct": gen.distinct, "generated": gen.generated, "depth": gen.depth,
                                 "invariants": ["ImplSafe", "PropExact"], "predicates": ds["npreds"], "layouts": sorted(ds["layouts"]),
                                 "rows": len(ds["rows"]), "cases": len(cases),
                                 "actions_fired": {k: v[0] for k, v in gen.coverage.items()}})
    ctx.note("tlc_negative_control", {"cfg": "Neg_small.cfg", "variant": "Keep=not_p (behaviour before fix f4599fa)", "violated": neg.violated,
                                      "states_until_counterexample": neg.distinct})
    if ovn.violated != "OverlapSafe":
        raise InfraError("negative control: Overlap.tla with Recount = FALSE does not violate OverlapSafe")
    overlaps = [t for t in ovl.traces if t.get("kind") == "overlap"]
    if ctx.quick():
        for a in ("ScanA", "ScanB", "RwA", "RwB"):
            if ovl.coverage.get(a, (0, 0))[0] == 0:
                raise InfraError("vacuous model: Overlap action %s never fired" % a)
    if not overlaps:
        raise InfraError("Overlap.tla emitted no behaviour of the replayable family")
    ctx.note("tlc_overlap", {"cfg": "Overlap_%s.cfg" % size, "distinct": ovl.distinct, "generated": ovl.generated, "depth": ovl.depth,
                             "invariants": ["UnselectedStay", "SelectedGone", "CountsAddUp"], "replayable_behaviours": len(overlaps),
                             "negative_control": {"cfg": "OverlapNeg_small.cfg", "violated": ovn.violated}})
    # vacuity of the generated set: every file class (which of T/F/N occur in a file) must be present
    classes = set()
    for c in cases:
        for lay_file in set(ds["layouts"][c["lay"]]):
            k = "".join(x for x in "TFN" if any(c["tv"][i] == x for i, f in enumerate(ds["layouts"][c["lay"]]) if f == lay_file))
            classes.add(k)
    missing = {"T", "F", "N", "TF", "TN", "FN", "TFN"} - classes
    if missing:
        raise InfraError("generated cases never produce file classes %s" % sorted(missing))

    # de-duplicate by (layout, truth vector); keep up to `per` syntactically different predicates per key
    rnd = random.Random(ctx.seed)
    groups = {}
    always = []      # constant predicates (TRUE, 1=1, FALSE, 1=0, NULL = NULL): few, syntactically special-cased by the handler -> all replayed
    for c in cases:
        if c["p"]["k"] == "const":
            always.append(c)
        else:
            groups.setdefault((c["lay"], "".join(c["tv"]), c["has_const"], '"c": "t"' in json.dumps(c["p"])), []).append(c)
    per, cap = (1, 800) if ctx.quick() else (2, 4000)
    chosen = []
    for k in sorted(groups):
        g = groups[k]
        g.sort(key=lambda c: json.dumps(c["p"], sort_keys=True))
        chosen.extend(rnd.sample(g, min(per, len(g))))
    if len(chosen) > cap:
        chosen = rnd.sample(chosen, cap)
    chosen = always + chosen
    if not any(c["full_table"] for c in chosen):
        raise InfraError("no full-table predicate (1=1 / TRUE) among the replayed cases")
    ctx.log("TLC emitted %d cases, %d distinct (layout, truth vector) keys, replaying %d" % (len(cases), len(groups), len(chosen)))
    sp = ctx.path("cases.json")
    overlaps.sort(key=lambda t: json.dumps(t, sort_keys=True))
    ocap = 150 if ctx.quick() else 400
    if len(overlaps) > ocap:
        overlaps = rnd.sample(overlaps, ocap)
    for t in overlaps:
        if len(t["tva"]) != len(ds["rows"]) or len(t["tvb"]) != len(ds["rows"]):
            raise InfraError("Overlap behaviours and the dataset have different row universes")
    json.dump({"dataset": ds, "cases": chosen, "overlaps": overlaps}, open(sp, "w"))
    rp = ctx.path("result.json")
    work = ctx.path("work")
    import os
    os.makedirs(work, exist_ok=True)
    ctx.run([built["bin"], "-scenarios", sp, "-out", rp, "-work", work], timeout=3000)
    r = json.load(open(rp))
    if r.get("infra"):
        raise InfraError("rowdelete driver: " + r["infra"])
    if r.get("oracle_disagreements"):
        raise InfraError("DuckDB's evaluation disagrees with the specification's Kleene evaluation (oracle or SQL rendering wrong): %s"
                         % r["oracle_disagreements"][:3])
    if r.get("errors") and not r.get("violations"):
        raise InfraError("delete handler refused/failed requests of the grammar: %s" % r["errors"][:3])
    if r.get("errors"):
        ctx.note("failed_delete_requests", r["errors"][:5])
    if r["cases"] != len(chosen):
        raise InfraError("driver replayed %d of %d cases" % (r["cases"], len(chosen)))
    ctx.count(evaluations=r["evaluations"], nontrivial_keys=r.get("nontrivial_keys") or [])
    ctx.traces_validated(r["cases"])
    ctx.note("delete_requests", r["requests"])
    ctx.note("requests_by_flags_and_outcome", r["requests_by_flags_and_outcome"])
    ctx.note("cases_with_unreadable_file_fallback_path", r["junk_cases"])
    ctx.note("overlapping_deletes", {"behaviours_replayed": r["overlap_behaviours"], "gate_reached": r["overlap_gate_reached"],
                                     "gate_missed": r["overlap_gate_missed"], "with_failed_files": r["overlap_requests_reporting_failed_files"]})
    if r["overlap_behaviours"] and r["overlap_gate_reached"] == 0:
        ctx.missing_gates = list(getattr(ctx, "missing_gates", [])) + ["delete.handleDelete:log 'Rewriting files to remove rows'"]
    ctx.note("full_table_predicate_cases", r["full_table_predicate_cases"])
    ctx.note("constant_predicate_cases", r["constant_predicate_cases"])
    ctx.note("disagreements_checked", r["duckdb_second_opinion_rows"])     # distinct rows evaluated by DuckDB as second opinion
    ctx.note("disagreements_found", 0)
    ctx.note("file_classes_replayed", r["file_classes"])
    ctx.note("whole_file_removals", r["whole_file_removals"])
    ctx.note("file_rewrites", r["file_rewrites"])
    ctx.note("distinct_truth_vector_keys", len(groups))
    ctx.note("exhaustive", False)   # TLC enumerates the bounded space completely; the replay is a seeded sample of its truth-vector classes
    ctx.note("rule", "TLC: every predicate of the bounded grammar x every layout; replay: %d predicate(s) per distinct (layout, truth "
             "vector) key, seeded choice, capped at %d cases; distinct_nontrivial counts replayed keys with at least one TRUE row" % (per, cap))
    for s in (r.get("samples") or [])[:4]:
        ctx.sample({k: s[k] for k in ("where", "layout", "dry_run_count", "confirmed_count", "rows_disappeared", "rows_where_predicate_true")})
    ctx.assume("DuckDB evaluates the rendered predicate as the specification's Kleene evaluation does (checked row by row on every replayed case)")
    ctx.assume("columns BIGINT/VARCHAR/DOUBLE with tiny domains stand for 'each type'; BOOLEAN/TIMESTAMP columns appear only as the non-null time column")
    for d in (r.get("drift") or []):
        ctx.spec_drift("%s in %d cases, e.g. where=%s layout=%s" % (d["signature"], d["cases"], d["witness"]["where"], d["witness"]["layout"]))
    for v in (r.get("violations") or []):
        w = v["witness"]
        w["cases_with_this_signature"] = v["cases"]
        ctx.violation(v["signature"], w)

"""Shared body of C22 / C23 (family clusterfsm): TLC on specs/clusterfsm/ClusterFSM.tla, TLC-generated
command histories replayed into real raft.ClusterFSM instances by harness/cmd/clusterfsm."""
import json
import os

from vlib import InfraError

# command types each focus is expected to exercise (vacuity check on TLC's per-action coverage)
FOCUS_ACTIONS = {
    "node": ["AddNode", "UpdateNode", "RemoveNode", "UpdateNodeState", "PromoteWriter", "DemoteWriter", "AssignCompactor"],
    "file": ["RegisterFile", "UpdateFile", "DeleteFile", "BatchFileOps"],
    "auth": ["CreateToken", "UpdateToken", "RevokeToken", "DeleteToken", "RotateToken", "CreateOrg", "UpdateOrg", "DeleteOrg",
             "CreateTeam", "UpdateTeam", "DeleteTeam", "CreateRole"],
    "auth_large": ["UpdateRole", "DeleteRole", "CreateMPerm", "AddTokenToTeam"],
    "failover": ["AddNode", "UpdateNodeState", "PromoteWriter", "DemoteWriter", "RemoveNode"],
    "chain": ["CreateOrg", "CreateTeam", "CreateRole", "CreateMPerm", "DeleteMPerm", "DeleteRole", "DeleteTeam", "DeleteOrg"],
    "dup": ["CreateOrg", "CreateTeam", "CreateToken", "AddTokenToTeam", "DeleteOrg", "DeleteTeam", "DeleteToken"],
    "deep": ["CreateOrg", "DeleteOrg", "CreateTeam", "DeleteTeam", "CreateRole", "DeleteRole", "CreateMPerm", "DeleteMPerm",
             "CreateToken", "UpdateToken", "DeleteToken", "AddTokenToTeam", "RemoveTokenFromTeam"],
}
INVS = ["UniqueKeys", "IndexAgreement", "RestoreFidelity", "RestoreShrinks", "RBACParentsExist", "BatchAllOrNothing"]


def generate(ctx, focuses, sims, probes):
    """Runs TLC (model checking + generation in one pass per focus), returns the scenario file path."""
    size = "small" if ctx.quick() else "large"
    sp = ctx.path("scenarios.ndjson")
    reuse = os.environ.get("VERIF_CFSM_SCENARIOS")  # development aid: replay a scenario file kept from an earlier run
    if reuse:
        import shutil
        shutil.copy(reuse, sp)
        ctx.note("restricted_run", "scenarios reused from " + reuse)
        return sp, sum(1 for _ in open(sp))
    only = os.environ.get("VERIF_CFSM_FOCUS")     # development aid (sensitivity experiments): restrict to some focuses
    if only:
        focuses = [f for f in focuses if f in only.split(",")]
        sims, probes = [], []
        ctx.note("restricted_run", only)
    sp = ctx.path("scenarios.ndjson")
    n = 0
    stats = {}
    with open(sp, "w") as out:
        for fo in focuses:
            cfgs = ["Gen_%s_%s.cfg" % (fo, size)]
            if fo == "node" and not ctx.quick():
                cfgs.append("Gen_node4_large.cfg")
            for cfg in cfgs:
                r = ctx.tlc("clusterfsm", "ClusterFSM", cfg, timeout=2400, workers=6)
                if not r.traces:
                    raise InfraError("%s emitted nothing" % cfg)
                # TLC attributes coverage to the shared Step operator, so the per-command-type count of explored
                # transitions (accepted, refused) is taken from the transitions TLC emitted
                fired = {}
                for t in r.traces:
                    last = t["h"][-1]
                    f = fired.setdefault(last["c"]["t"], [0, 0])
                    f[0 if last["ok"] else 1] += 1
                for a in FOCUS_ACTIONS[fo] + FOCUS_ACTIONS.get("%s_%s" % (fo, size), []):
                    if fired.get(a, [0, 0])[0] == 0:
                        raise InfraError("vacuous model: no accepted %s transition explored in %s" % (a, cfg))
                stats[cfg] = {"distinct": r.distinct, "generated": r.generated, "depth": r.depth, "wall_s": round(r.wall_s, 1),
                              "invariants": INVS, "histories_emitted": len(r.traces), "transitions_accepted_refused": fired}
                ctx.log("%s: %d distinct / %d generated / depth %d, %d transitions emitted (%.0fs)"
                        % (cfg, r.distinct, r.generated, r.depth, len(r.traces), r.wall_s))
                for t in r.traces:
                    t["src"] = cfg
                    out.write(json.dumps(t, separators=(",", ":")) + "\n")
                    n += 1
                r.traces = []
        for cfg, num, depth in sims:
            workers = 4
            r = ctx.tlc("clusterfsm", "ClusterFSM", cfg, mode="simulate", num=max(1, num // workers), depth=depth,
                        workers=workers, timeout=1800)
            if not r.traces:
                raise InfraError("%s emitted nothing" % cfg)
            stats[cfg] = {"simulated_histories": len(r.traces), "states_checked": r.generated, "wall_s": round(r.wall_s, 1), "seed": ctx.seed}
            ctx.log("%s: %d simulated histories (%.0fs)" % (cfg, len(r.traces), r.wall_s))
            for t in r.traces:
                t["src"] = cfg
                out.write(json.dumps(t, separators=(",", ":")) + "\n")
                n += 1
            r.traces = []
    # Probe_<inv>: invariants of the property that the model of the CURRENT code still violates (TLC's shortest
    # counterexample is evidence about the model only; the verdict comes from the replay).
    # NegCtl_<inv>: negative control -- the model of the code as first read (AsWritten = TRUE) must be rejected.
    pr = {}
    for cfg in probes:
        r = ctx.tlc("clusterfsm", "ClusterFSM", cfg + ".cfg", allow_violation=True, timeout=900, workers=2)
        pr[cfg] = {"violated_in_model": bool(r.violated), "distinct": r.distinct,
                   "counterexample_states": sum(1 for l in r.counterexample if l.startswith("State "))}
        if cfg.startswith("NegCtl_") and not r.violated:
            raise InfraError("negative control %s: TLC accepted the as-first-written model" % cfg)
        ctx.log("%s: %s" % (cfg, "counterexample in the model" if r.violated else "holds in the model"))
    ctx.note("tlc_runs", stats)
    ctx.note("tlc_property_probes", pr)
    return sp, n


def replay(ctx, sp, n):
    ov = ctx.make_overlay(["clusterfsm"])
    binp = ctx.go_build("clusterfsm", overlay=ov)
    rp = ctx.path("result.json")
    ctx.run([binp, "-scenarios", sp, "-out", rp, "-workers", "6"], timeout=3000)
    r = json.load(open(rp))
    if r.get("infra"):
        raise InfraError("clusterfsm driver: " + r["infra"])
    if r["scenarios"] != n:
        raise InfraError("driver replayed %d of %d histories" % (r["scenarios"], n))
    ctx.count(evaluations=r["applies"] + r["restores"], nontrivial_keys=[])
    ctx._nontrivial = set(range(r["distinct_edges"]))   # distinct (real pre-state, command) pairs applied
    ctx.traces_validated(n)
    ctx.note("histories_replayed", n)
    ctx.note("real_applies", r["applies"])
    ctx.note("real_snapshot_restores", r["restores"])
    ctx.note("restores_that_quarantined", r["restores_that_quarantined"])
    ctx.note("per_command_accepted_refused", r["per_cmd"])
    ctx.note("cascade_steps", r["cascade_steps"])
    ctx.note("batches_accepted_refused", r["batches"])
    for s in (r.get("samples") or [])[:3]:
        ctx.sample(s)
    for d in (r.get("drift") or []):
        ctx.spec_drift("%s witness=%s" % (d["signature"], json.dumps(d["witness"])[:600]))
    return r


def need(r, types):
    if os.environ.get("VERIF_CFSM_FOCUS") or os.environ.get("VERIF_CFSM_SCENARIOS"):
        return
    for t in types:
        if r["per_cmd"].get(t, [0, 0])[0] == 0:
            raise InfraError("vacuous replay: the real FSM never accepted a %s command" % t)


def restricted():
    return bool(os.environ.get("VERIF_CFSM_FOCUS") or os.environ.get("VERIF_CFSM_SCENARIOS"))

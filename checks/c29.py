"""C29 -- continuous query windows are contiguous and processed once (DESIGN section 5, C29).

(M) TLC exhausts specs/cqwindow/CQWindow.tla (window bookkeeping of ExecuteCQ / handleExecute /
    handleUpdate / restart as written, integer clock) and checks window selection from the cursor,
    failure-does-not-advance (action property), label = window start, contiguity of the scheduled chain
    and refinement of the property-level module CQProp.  MC_contig.cfg additionally asks for the literal
    "scheduled windows never overlap / leave a hole": TLC's counter-example (a manual run with explicit
    bounds re-positions the cursor) is recorded as a candidate, never as a verdict.
(G) TLC generates command histories (exhaustive at small depth + seeded -simulate); the Go driver replays
    them on the REAL ContinuousQueryHandler (SQLite + DuckDB + ArrowBuffer + local storage) under the
    overlay clock, going through cq_scheduler.go:executeJob for scheduled ticks, with the source
    measurement made unreadable to force failures.  Outcome/window predictions are a drift detector.
(T) the rows of continuous_query_executions + the rows added to the destination measurement are the
    trace; TLC (CQTrace.tla) evaluates CQProp's clauses on every event -- that is the verdict.
"""
import json
import os
import re

from vlib import InfraError

LEVEL = "model_checking"

CLAUSES = {1: "window-empty", 2: "sched-start-not-at-previous-end", 4: "row-label-not-window-start",
           8: "row-count-not-window-content", 16: "window-advanced-by-initial-failure"}


def _build(ctx):
    extra = ctx.overlaygen(["-clock", "internal/api/continuous_query.go"])
    try:
        ov = ctx.make_overlay(["cqwindow"], extra=extra)
        return ctx.go_build("cqwindow", tags=("verif", "verif_sched"), overlay=ov), "scheduler.executeJob"
    except Exception as e:  # vlib's InfraError (vlib runs as __main__, so match by name)
        if type(e).__name__ != "InfraError":
            raise
        # the scheduler shim no longer fits cq_scheduler.go: drive ExecuteCQ (what executeJob calls) directly
        ctx.log("scheduler shim does not build (%s); falling back to ExecuteCQ" % str(e).splitlines()[-1][:200])
        ov = ctx.make_overlay([], extra=extra)
        return ctx.go_build("cqwindow", tags=("verif",), overlay=ov), "ExecuteCQ (scheduler shim did not build)"


def _context(events, i):
    """what happened between the previous successful execution and event i of the same history"""
    ev = events[i]
    prev = None
    for j in range(i - 1, -1, -1):
        if events[j].get("ev") == "end":
            break
        if events[j]["status"] == "ok":
            prev = events[j]
            break
    between = []
    for j in range(i - 1, -1, -1):
        if events[j].get("ev") == "end" or events[j] is prev:
            break
        between.append("%s-%s" % (events[j]["cmd"], events[j]["status"]))
    rel = "no-previous"
    if prev is not None:
        rel = "start<previous-end" if ev["s"] < prev["e"] else ("start>previous-end" if ev["s"] > prev["e"] else "start=previous-end")
    return prev, rel, sorted(set(between))


def run(ctx):
    quick = ctx.quick()
    # ---------------------------------------------------------------- (M)
    mc = ctx.tlc("cqwindow", "CQWindow", "MC_small.cfg", coverage=True, timeout=900)
    fired = {}
    for line in open(mc.log):   # "<ExecW line .. of module CQWindow (70 8 79 48)>: distinct:generated"
        m = re.match(r"^<(\w+) line [^>]*>: (\d+):(\d+)", line)
        if m:
            fired[m.group(1)] = fired.get(m.group(1), 0) + int(m.group(3))
    # the commands are guarded disjuncts of Next (On(name) /\ Action), so TLC attributes their coverage to Next;
    # per-command vacuity is checked on the generated histories below (every command/outcome pair in `need`)
    if sum(v for k, v in fired.items() if k not in ("Init", "Done")) == 0:
        raise InfraError("vacuous model: no action fired (%s)" % fired)
    note = {"cfg": "MC_small.cfg", "distinct": mc.distinct, "generated": mc.generated, "depth": mc.depth,
            "invariants": ["TypeOK", "NonEmpty", "StartAtCursor", "CursorIsLastOk", "LabelIsStart",
                           "ChainContigNoRange", "RefinesProp"], "action_property": "FailKeeps",
            "actions_fired": fired}
    if not quick:
        big = ctx.tlc("cqwindow", "CQWindow", "MC_large.cfg", timeout=1500)
        note["large"] = {"cfg": "MC_large.cfg", "distinct": big.distinct, "generated": big.generated, "depth": big.depth}
    ctx.note("tlc_model_check", note)
    lit = ctx.tlc("cqwindow", "CQWindow", "MC_contig.cfg", allow_violation=True, timeout=600)
    ctx.note("tlc_literal_contiguity", {
        "cfg": "MC_contig.cfg", "violated": lit.violated,
        "meaning": "candidate only: in the model of the code as written a successful manual run with explicit bounds "
                   "re-positions last_processed_time, so two successive scheduled windows can overlap or leave a hole"})

    # ---------------------------------------------------------------- (G) generation
    hists = {}
    gen = ctx.tlc("cqwindow", "CQWindow", "Gen_small.cfg" if quick else "Gen_large.cfg", timeout=900, workers=4)
    for t in gen.traces:
        hists[json.dumps(t, sort_keys=True)] = t
    chain = ctx.tlc("cqwindow", "CQWindow", "Gen_chain.cfg", timeout=900, workers=4)   # 3 commands over {sched, until, range, from}
    for t in chain.traces:
        hists[json.dumps(t, sort_keys=True)] = t
    n_exh = len(hists)
    sim = ctx.tlc("cqwindow", "CQWindow", "Gen_sim.cfg", mode="simulate", num=60 if quick else 600, depth=11,
                  workers=2, timeout=900)
    for t in sim.traces:
        hists[json.dumps(t, sort_keys=True)] = t
    hs = [hists[k] for k in sorted(hists)]
    if not hs:
        raise InfraError("generator emitted nothing")
    pred = {}
    for h in hs:
        for c in h:
            pred["%s/%s" % (c["cmd"], c["out"])] = pred.get("%s/%s" % (c["cmd"], c["out"]), 0) + 1
    need = ["tick/none", "sched/failedw", "manual/failedw", "breakw/none", "sched/ok", "sched/failed", "sched/rejected", "sched/inactive", "manual/ok", "manual/failed", "dry/dry",
            "range/ok", "range/failed", "from/ok", "until/ok", "until/rejected", "restart/none", "requery/none",
            "deactivate/none", "activate/none", "break/none", "heal/none"]
    miss = [k for k in need if not pred.get(k)]
    if miss:
        raise InfraError("generated histories never exercise %s" % miss)
    ctx.log("TLC generated %d histories (%d exhaustive, %d simulated)" % (len(hs), n_exh, len(hs) - n_exh))
    ctx.note("histories", {"exhaustive": n_exh, "simulated": len(hs) - n_exh, "predicted_outcomes": pred})

    # ---------------------------------------------------------------- replay on the real handler
    binp, via = _build(ctx)
    hp, rp, tp = ctx.path("histories.json"), ctx.path("result.json"), ctx.path("trace.ndjson")
    json.dump(hs, open(hp, "w"))
    ctx.run([binp, "-histories", hp, "-out", rp, "-trace", tp], timeout=2400)
    r = json.load(open(rp))
    if r.get("infra"):
        raise InfraError("cqwindow driver: " + r["infra"])
    if r["histories"] != len(hs):
        raise InfraError("driver replayed %d of %d histories" % (r["histories"], len(hs)))
    w = r.get("ok_windows_by_shape_and_width") or {}
    for k in ("no-time-column/1-interval", "no-time-column/catch-up(>=2 intervals)", "own-time-column/1-interval",
              "own-time-column/catch-up(>=2 intervals)"):
        if not w.get(k):
            raise InfraError("vacuous replay: no successful window of class %s (%s)" % (k, w))
    if not r.get("write_step_failures"):
        raise InfraError("vacuous replay: no execution failed at the write step (after the query returned rows)")
    if r["execs_ok"] == 0 or r["execs_failed"] == 0 or r["rows_seen"] == 0:
        raise InfraError("vacuous replay: ok=%d failed=%d destination rows=%d" % (r["execs_ok"], r["execs_failed"], r["rows_seen"]))
    ctx.note("replay", {k: r[k] for k in ("histories", "commands", "execs", "execs_ok", "execs_failed", "rows_seen", "write_step_failures",
                                          "ok_windows_by_shape_and_width", "ok_exec_without_matching_row_count", "outcomes", "tick_via",
                                          "sched_overlap_or_gap_after_explicit_manual")})
    ctx.note("scheduled_tick_via", via)
    for s in (r.get("samples") or []):
        ctx.sample(s)
    for d in (r.get("drift") or []):
        ctx.spec_drift("%s witness=%s" % (d["signature"], json.dumps(d["witness"])[:600]))

    # ---------------------------------------------------------------- (T) the verdict
    events = [json.loads(l) for l in open(tp) if l.strip()]
    ok, res = ctx.tlc_validate("cqwindow", "CQTrace", "Trace.cfg", tp, timeout=1200)
    if not ok:
        raise InfraError("trace validation did not complete: %s %s" % (res.error, res.prints[-3:]))
    ctx.traces_validated(r["histories"])
    ctx.count(evaluations=r["execs"], nontrivial_keys=[json.dumps(h, sort_keys=True) for h in hs])
    seen = set()
    for p in res.prints:
        if not p.startswith('<<"PROPVIOL"'):
            continue
        parts = p.strip("<>").split(",")
        line, code = int(parts[1]), int(parts[2])
        if line in seen:
            continue
        seen.add(line)
        ev = events[line - 1]
        prev, rel, between = _context(events, line - 1)
        for bit, name in sorted(CLAUSES.items()):
            if not code & bit:
                continue
            if bit == 2:
                sig = "%s:%s:between=[%s]" % (name, rel, ",".join(between))
            else:
                sig = "%s:%s-%s" % (name, ev["cmd"], ev["status"])
            ctx.violation(sig, {"clause": name, "event": ev, "previous_successful_execution": prev,
                                "history": hs[ev["hist"]], "trace_line": line,
                                "times": "seconds from 2026-02-28T22:53:20Z; source points every 7 s"})
    ctx.note("property_violations_reported_by_tlc", len(seen))
    ctx.note("rule", "every command history of length <=%d over {tick, sched, manual, dry, range, from, until, break, heal, "
                     "activate, deactivate, requery, restart} + seeded simulation of length 10; each followed by a probe "
                     "(heal, activate, tick, sched) that makes the final window position observable" % (2 if quick else 3))
    ctx.assume("one continuous query at a time; concurrent manual+scheduled runs are outside the quantifier")
    ctx.assume("a successful manual execution may either move the schedule to its end (what the code does) or leave it alone: "
               "both satisfy CQProp; overlap/holes between scheduled windows caused by explicit manual bounds are reported as "
               "an observation (docs/asbuilt/C29.md), not as a violation")
    ctx.assume("failures are forced at two points: the source measurement unreadable (DuckDB query error, zero rows) and a NULL "
               "time value in the query result (query returns a row, the ArrowBuffer write fails); SQLite faults are not injected")

"""C20 -- permission decisions always reflect the current RBAC state (DESIGN section 5, C20).

(M) TLC exhausts specs/auth/Auth.tla (tables with FK cascades, AuthManager.cache, RBACManager
    tokenCache/permCache, the policy as written) over every history of <=2 (thorough: <=3)
    mutators from three initial configurations with the flush set of the tree as it is
    now: CacheCoherent must hold.  Four variants with one flush removed or narrowed (token permissions, direct
    DeleteOrganization, AuthManager.InvalidateCache, team mutators flushing only the tokens
    whose cached token data names the team) must fail: they document which flushes
    carry the property and that the model discriminates.
(G) every history of 2 mutators (thorough: + seeded random histories of 6) is replayed by
    harness/cmd/authrbac on the real AuthManager+RBACManager over SQLite, in direct mode and in
    cluster-apply mode (loop-back proposer -> real ClusterFSM -> real Apply*).  The two RBAC
    cache levels have independent lifetimes: ExpireTokenData (a token-data entry is swept
    while decisions cached later from it live on) is realised right before the first mutator
    with the overlay-substituted clock and the real janitor (cleanupExpiredCache).  After the
    set-up and after every mutator the whole request matrix is asked through the caches and
    compared with a cache-free evaluation on the same database: real-vs-real is the verdict;
    TLC's Policy prediction is only the drift detector.
"""
import json
import threading
import time

from vlib import InfraError, write_ndjson

LEVEL = "model_checking"

OP_KINDS = ["CreateOrg", "UpdateOrg", "DeleteOrg", "CreateTeam", "UpdateTeam", "DeleteTeam", "CreateRole", "UpdateRole",
            "DeleteRole", "CreateMP", "DeleteMP", "AddMember", "RemoveMember", "SetTokenPerms", "RevokeToken", "DeleteToken",
            "ExpireTokenData", "ReseedOrg"]


def par(jobs):
    """run thunks concurrently (TLC runs are independent); staggered start because ctx.tlc numbers its run dirs"""
    out = [None] * len(jobs)
    err = [None] * len(jobs)

    def w(i, f):
        try:
            out[i] = f()
        except BaseException as e:  # noqa
            err[i] = e
    ts = []
    for i, f in enumerate(jobs):
        t = threading.Thread(target=w, args=(i, f))
        t.start()
        ts.append(t)
        time.sleep(1.0)
    for t in ts:
        t.join()
    for e in err:
        if e is not None:
            raise e
    return out


def run(ctx):
    quick = ctx.quick()
    mc_cfg = "Rbac_MC_small.cfg" if quick else "Rbac_MC_large.cfg"
    variants = ["tokenperms", "deleteorg", "authcache", "teamscan", "revoke", "reseed"]
    jobs = [lambda: ctx.tlc("auth", "Auth", mc_cfg, coverage=True, workers=4, timeout=2400),
            lambda: ctx.tlc("auth", "Auth", "Rbac_Gen_small.cfg", workers=4, timeout=1800)]
    for v in variants:
        jobs.append(lambda v=v: ctx.tlc("auth", "Auth", "Rbac_Var_%s.cfg" % v, workers=2, heap="2g", timeout=900, allow_violation=True))
    if not quick:
        jobs.append(lambda: ctx.tlc("auth", "Auth", "Rbac_Gen_sim.cfg", mode="simulate", num=400, depth=13, workers=4, timeout=2400))
    # the Go build does not depend on TLC: overlap it
    built = {}

    def build():
        extra = ctx.overlaygen(["-clock", "internal/auth/rbac_manager.go"])
        ov = ctx.make_overlay(["auth"], extra=extra)
        built["bin"] = ctx.go_build("authrbac", overlay=ov)
    jobs.append(build)
    res = par(jobs)
    mc, gen = res[0], res[1]
    ctx.note("tlc_model_check", {"cfg": mc_cfg, "distinct": mc.distinct, "generated": mc.generated, "depth": mc.depth,
                                 "invariants": ["CacheCoherent", "Integrity"],
                                 "actions_fired": {k: v[0] for k, v in mc.coverage.items()}})
    for a in ("Mutate", "CheckAll"):
        if mc.coverage.get(a, (0, 0))[0] == 0:
            raise InfraError("vacuous model: action %s never fired" % a)
    vnote = {}
    for v, r in zip(variants, res[2:2 + len(variants)]):
        if r.violated != "CacheCoherent":
            raise InfraError("variant %s (one flush removed) no longer violates CacheCoherent: the model lost its discriminating power" % v)
        vnote[v] = {"violated": r.violated, "distinct_when_found": r.distinct}
    ctx.note("tlc_variants_expected_to_fail", vnote)
    hs = list(gen.traces)
    if not quick:
        sim = res[2 + len(variants)]
        seen = set()
        for t in sim.traces:
            k = json.dumps([t["seed"], t["ops"]])
            if k not in seen:
                seen.add(k)
                hs.append(t)
        ctx.note("simulated_histories", len(seen))
    if not hs:
        raise InfraError("generator emitted nothing")
    hp = ctx.path("histories.ndjson")
    write_ndjson(hp, hs)
    rp = ctx.path("result.json")
    ctx.run([built["bin"], "-histories", hp, "-out", rp, "-workers", "4"], timeout=3000)
    r = json.load(open(rp))
    if r.get("infra"):
        raise InfraError("authrbac driver: " + r["infra"])
    nres = sum(1 for h in hs if any(o["k"] == "ReseedOrg" for o in h["ops"]))
    want = 2 * (len(hs) - nres) + nres     # ReseedOrg histories run once, in mixed mode
    if r["replays"] != want:
        raise InfraError("driver replayed %d of %d (history, mode) pairs" % (r["replays"], want))
    for k in OP_KINDS:
        if r["op_kinds"].get(k, 0) == 0:
            raise InfraError("vacuous generation: mutator %s never appears in a history" % k)
    ctx.traces_validated(len(hs))
    ctx.count(evaluations=r["comparisons"], nontrivial_keys=r.get("decision_changing_keys") or [])
    ctx.note("histories", len(hs))
    ctx.note("replays", r["replays"])
    ctx.note("check_rounds", r["rounds"])
    ctx.note("mutator_occurrences", r["op_kinds"])
    ctx.note("exhaustive", True)
    ctx.note("rule", "every history of 2 mutators (16 kinds, all argument instances of the universe: 1 org, 2 teams, 2 roles, 1 "
             "measurement permission, 2 tokens, 3 db patterns, 2 measurement patterns, 3 permission sets) from 3 initial "
             "configurations x {direct, cluster-apply}; after set-up and after every mutator 2 tokens x 18 requests x "
             "{CheckPermission miss/hit, CheckPermissionsBatch} vs cache-free evaluation; distinct_nontrivial = replays in which "
             "a mutator changed at least one decision" + ("" if quick else "; plus seeded random histories of 6 mutators over 2 orgs"))
    for s in (r.get("samples") or []):
        ctx.sample(s)
    ctx.assume("the cache-free evaluation (GetTokenByID + a second RBACManager with flushed caches on the same *sql.DB) is the policy on the stored state")
    ctx.assume("cache TTLs (30 s RBAC, 5 min token) do not elapse inside one replay (a replay takes milliseconds); if they did, only sensitivity is lost")
    ctx.assume("tokens are stored with a 1-iteration PBKDF2 hash (same verification code path, cheaper cache misses)")
    for d in (r.get("drift") or []):
        ctx.spec_drift("%s (x%d) witness=%s" % (d["signature"], d["count"], json.dumps(d["witness"])[:500]))
    for v in (r.get("violations") or []):
        w = dict(v["witness"])
        w["occurrences"] = v["count"]
        ctx.violation(v["signature"], w)

"""C16 -- query answers match DuckDB's semantics for the same SQL (DESIGN section 5, C16).

(M) TLC enumerates every derivation of the query grammar specs/sqlrewrite/SqlRewriteRefs.tla (8 shapes x
    references (bare, quoted, mixed-case, db-qualified) x join kinds x 16 styles (EXTRACT/SUBSTRING/TRIM(.. FROM ..)
    bodies, decoy FROM in string / block comment / line comment, space / newline / tab / comment between keyword
    and name, keyword case) x {no header, default, db2}) with the ground truth RefSites and checks WellFormed.
(G) each derivation is rendered to SQL; accepted queries go through the real getTransformedSQLForParallel and run
    on arc's DuckDB over stored parquet files (two databases, nullable typed columns, hour and day partitions,
    a file without one column); the ORIGINAL text runs on a plain DuckDB whose tables hold exactly the stored rows.
    Different multisets, or exactly one side failing, is the violation.  The structural comparison (read_parquet
    paths vs RefSites) only ranks: all deviating queries are executed, plus a seeded sample (everything in thorough).
    Rewritten functions (C17) and time predicates (C18) are not generated here.
"""
import json

from vlib import InfraError

LEVEL = "model_checking"


def run(ctx):
    quick = ctx.quick()
    cfg = "Refs_Gen_small.cfg" if quick else "Refs_Gen_large.cfg"
    gen = ctx.tlc("sqlrewrite", "SqlRewriteRefs", cfg, timeout=2400, workers=4)
    qs = gen.traces
    if not qs:
        raise InfraError("grammar generator emitted nothing")
    shapes = {}
    for q in qs:
        shapes[q["shape"]] = shapes.get(q["shape"], 0) + 1
    for s in ("single", "join", "comma", "subq_from", "subq_in", "cte", "cte_shadow", "union"):
        if not shapes.get(s):
            raise InfraError("vacuous grammar: shape %s not derived" % s)
    if not any(q["nonsites"] for q in qs) or not any(q["header"] != "none" for q in qs):
        raise InfraError("vacuous grammar: no non-site / no header derivation")
    ctx.note("tlc_refs", {"cfg": cfg, "distinct": gen.distinct, "generated": gen.generated, "depth": gen.depth,
                          "invariant": "WellFormed", "derivations": len(qs), "per_shape": shapes})
    ov = ctx.make_overlay(["sqlrewrite"], extra=ctx.overlaygen(["-clock", "internal/pruning/partition_pruner.go"]))
    binp = ctx.go_build("sqlrewrite", overlay=ov)
    sp = ctx.path("c16_in.json")
    json.dump({"queries": qs, "budget": 1500 if quick else 0}, open(sp, "w"))
    rp = ctx.path("c16_out.json")
    ctx.run([binp, "-mode", "c16", "-in", sp, "-out", rp, "-seed", str(ctx.seed), "-dir", ctx.path("c16_env")], timeout=3000)
    r = json.load(open(rp))
    if r.get("infra"):
        raise InfraError("sqlrewrite driver: " + r["infra"])
    if r["queries"] != len(qs) or r["executed"] == 0:
        raise InfraError("driver handled %d of %d derivations, executed %d" % (r["queries"], len(qs), r["executed"]))
    ctx.count(evaluations=r["evaluations"], nontrivial_keys=r.get("nontrivial_keys") or [])
    ctx.traces_validated(r["executed"])
    for k in ("queries", "not_accepted", "structurally_deviating", "executed", "executed_with_different_result",
              "different_per_signature", "minimisation_executions"):
        ctx.note(k, r.get(k))
    ctx.note("exhaustive", not quick)
    ctx.note("rule", "every derivation of the grammar inside the bounds; executed: all structurally deviating ones + %s"
             % ("a seeded sample of 1500 of the others" if quick else "all others"))
    for s in (r.get("samples") or []):
        ctx.sample(s)
    ctx.assume("a measurement is referenced in the exact case of its directory (arc's storage paths are case-sensitive, DuckDB's catalog is not)")
    ctx.assume("no-header queries reference the default database by bare names and db2 by db2.<m>; 'default.<m>' is not generated (DEFAULT is a reserved word in DuckDB)")
    ctx.assume("the transformed SQL is executed with database/sql on arc's DuckDB wrapper; the HTTP layer, the Arrow path, the transform cache hit path and the parallel executor are not exercised")
    for v in (r.get("violations") or []):
        ctx.violation(v["signature"], v["witness"])

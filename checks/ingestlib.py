"""Shared machinery of the `ingest` family (C03, C07): specs/ingest/*, harness/cmd/ingest,
harness/cmd/ingestgen, overlay/ingest.

(M) TLC model-checks Ingest.tla (implementation-shaped) in small scope;
(G) TLC in Coarse mode emits command scripts (the schedules that matter: lock released
    mid-flush, Close with a non-empty queue, queue-full, outage x tick x shutdown);
    the Go driver forces them on the REAL ArrowBuffer/WAL/coordinator with a blocking storage proxy;
(T) the recorded traces (API call/return, every storage write with decoded row ids) are
    validated by TLC against IngestProp via IngestTrace; a guard of IngestProp that is false on
    a real trace is the verdict.  The mechanism signature is derived from the same trace
    (interface observations only).
"""
import json
import os
import random

from vlib import InfraError, read_ndjson


def build_driver(ctx):
    hd = ctx.harness_dir()
    gen = os.path.join(hd, "cmd", "ingest", "zz_generated.go")
    repo = os.environ.get("VERIF_REPO", "/repo")
    from vlib import go_env
    p = ctx.run(["go", "run", "./cmd/ingestgen", "-main", os.path.join(repo, "cmd", "arc", "main.go"), "-out", gen],
                cwd=hd, env=go_env(), timeout=900, check=False)
    out = (p.stdout or "")
    if p.returncode == 3:
        raise InfraError("cmd/arc/main.go no longer has the shape the C07 driver extracts (maintenance tick / safeAge / "
                         "shutdown registrations inline in main()): " + out.strip()[-500:])
    if p.returncode != 0:
        raise InfraError("ingestgen failed: " + out[-2000:])
    ov = ctx.make_overlay(["ingest"])
    return ctx.go_build("ingest", tags=("verif", "ingestgen"), overlay=ov)


def model_check(ctx, cfg, actions, coverage, invariants, timeout=1500, workers=6):
    if os.environ.get("VERIF_INGEST_SKIP_MC"):   # development aid for mutation experiments only
        return {"cfg": cfg, "skipped": True}
    mc = ctx.tlc("ingest", "Ingest", cfg, coverage=coverage, timeout=timeout, workers=workers, heap="5g")
    fired = {k: v[0] for k, v in mc.coverage.items() if k in actions}
    if coverage:
        for a in actions:
            if fired.get(a, 0) == 0:
                raise InfraError("vacuous model (%s): action %s never fired" % (cfg, a))
    return {"cfg": cfg, "distinct": mc.distinct, "generated": mc.generated, "depth": mc.depth,
            "invariants": invariants, "actions_fired": fired, "wall_s": round(mc.wall_s, 1)}


def _ckey(c):
    return json.dumps({k: v for k, v in c.items() if k not in ("pend", "busy")}, sort_keys=True)


PREFIX = {}   # command-prefix -> outcomes of every generated behaviour that extends it (exhaustive generators only)


def generate(ctx, cfg, consts, timeout=1500, workers=6, simulate=None):
    """Run a Gen_*.cfg (Coarse mode) -> list of scripts {index, consts, hist, allowed:[outcomes]}"""
    if simulate:
        gen = ctx.tlc("ingest", "Ingest", cfg, mode="simulate", num=simulate, depth=90, timeout=timeout, workers=workers, heap="5g")
    else:
        gen = ctx.tlc("ingest", "Ingest", cfg, timeout=timeout, workers=workers, heap="5g")
    if not gen.traces:
        raise InfraError("generator %s emitted nothing" % cfg)
    by = {}
    for t in gen.traces:
        key = json.dumps(t["hist"], sort_keys=True)
        s = by.setdefault(key, {"hist": t["hist"], "consts": consts, "allowed": [], "predicts_loss": False, "predicts_dup": False})
        oc = {"lost": sorted(t["lost"]), "dup": sorted(i + 1 for i, n in enumerate(t["stored"]) if n > 1)}
        if oc not in s["allowed"]:
            s["allowed"].append(oc)
        if not simulate:
            pre = cfg
            for c in t["hist"]:
                pre = pre + "|" + _ckey(c)
                lst = PREFIX.setdefault(pre, [])
                if oc not in lst:
                    lst.append(oc)
        if oc["lost"]:
            s["predicts_loss"] = True
        if oc["dup"]:
            s["predicts_dup"] = True
    scripts = [by[k] for k in sorted(by)]
    for sc in scripts:
        sc["gen"] = cfg
    return scripts, {"cfg": cfg, "distinct": gen.distinct, "generated": gen.generated, "depth": gen.depth,
                     "terminal_behaviours": len(gen.traces), "scripts": len(scripts), "wall_s": round(gen.wall_s, 1)}


def pick(scripts, n_interesting, n_other, seed):
    """All (up to n) scripts for which the model predicts a loss/duplicate (deterministic order,
    spread over the list) + a seeded sample of the others."""
    def interesting(s):
        # the model predicts a loss/duplicate, or Close/Shutdown is issued while a storage write is held
        # (the schedule behind the repaired queue-abandon defect: it must stay covered in every seed)
        # ... or two storage writes overlap (a flush is encoded/written while another write is still held)
        return (s["predicts_loss"] or s["predicts_dup"]
                or any(c["c"] in ("close", "shutdown") and c["pend"] for c in s["hist"])
                or any(len(c["pend"]) >= 2 for c in s["hist"]))
    def rescue(s):
        # a storage write fails, storage recovers and a maintenance tick runs with the failure flag set while the
        # rotated WAL file is old enough to be replayed: the schedules in which "retry or WAL replay" must work.
        # Variants: failure by error / by timeout; another flush succeeding between the failure and the tick.
        seen_fail = False
        for c in s["hist"]:
            if c["c"] == "io" and not c["ok"]:
                seen_fail = True
            if c["c"] == "tick" and seen_fail and c.get("flag"):
                return True
        return False

    def rescue_class(s):
        kinds, ok_between, seen_fail = set(), False, False
        for c in s["hist"]:
            if c["c"] == "io" and not c["ok"]:
                seen_fail = True
                kinds.add(c.get("kind", "error"))
            elif c["c"] == "io" and c["ok"] and seen_fail:
                ok_between = True
            elif c["c"] == "tick" and seen_fail:
                break
        return (tuple(sorted(kinds)), ok_between)
    resc = [s for s in scripts if rescue(s) and not (s["predicts_loss"] or s["predicts_dup"])]
    # deterministic: up to 12 per (failure kinds, ok-flush-in-between) class, evenly spaced
    chosen_resc = []
    byc = {}
    for s in resc:
        byc.setdefault(rescue_class(s), []).append(s)
    for k in sorted(byc):
        lst = byc[k]
        n = min(12, len(lst))
        chosen_resc += [lst[int(i * len(lst) / float(n))] for i in range(n)]
    rid = {id(s) for s in chosen_resc}
    hot = [s for s in scripts if interesting(s) and id(s) not in rid]
    cold = [s for s in scripts if not interesting(s) and id(s) not in rid]
    if len(hot) > n_interesting:
        step = len(hot) / float(n_interesting)
        hot = [hot[int(i * step)] for i in range(n_interesting)]
    hot = chosen_resc + hot
    rnd = random.Random(seed)
    if len(cold) > n_other:
        cold = rnd.sample(cold, n_other)
    out = hot + cold
    for i, s in enumerate(out):
        s["index"] = i
    return out


def run_driver(ctx, binp, scripts, stress, c07, tag, timeout=2400):
    sp = ctx.path("scripts_%s.json" % tag)
    json.dump([{"index": s["index"], "consts": s["consts"], "hist": s["hist"]} for s in scripts], open(sp, "w"))
    tp = ctx.path("trace_%s.ndjson" % tag)
    rp = ctx.path("result_%s.json" % tag)
    cmd = [binp, "-trace", tp, "-result", rp, "-seed", str(ctx.seed), "-stress", str(stress)]
    if scripts:
        cmd += ["-scripts", sp]
    if c07:
        cmd.append("-c07")
    ctx.run(cmd, timeout=timeout)
    return tp, json.load(open(rp))


def validate(ctx, trace_path):
    ok, res = ctx.tlc_validate("ingest", "IngestTrace", "Trace.cfg", trace_path, timeout=1800, heap="5g")
    if not ok:
        raise InfraError("trace not explained by IngestTrace (unknown event kind?): %s %s" % (res.error, res.prints[-3:]))
    return {t["run"]: t["viol"] for t in res.traces}, res


# --------------------------------------------------------------------------- attribution
def _wal_events(evs):
    """From the info events of one run: per row id, the ordered list of things that happened
    to the WAL file holding it."""
    out = {}
    last_begin = None
    for ev in evs:
        if ev["ev"] != "info":
            continue
        what, _, payload = ev["what"].partition(" ")
        try:
            data = json.loads(payload) if payload else {}
        except ValueError:
            data = {}
        if what in ("tick-begin", "shutdown-begin", "restart"):
            last_begin = (what, data)
        elif what in ("tick-end", "shutdown-end", "recovery-end") and last_begin:
            bw, bd = last_begin
            after = {f["name"] for f in (data.get("files") or [])}
            for f in (bd.get("files") or []):
                if f["name"] in after:
                    if bw == "tick-begin" and f["active"]:
                        for r in f["ids"]:
                            out.setdefault(r, []).append("tick-skipped-active-file(flag=%s)" % str(bd.get("flag")).lower())
                    continue
                if bw == "tick-begin":
                    if f["age_s"] > bd.get("safe_age_s", 30):
                        tagw = "wal-file-purged-by-tick-as-older-than-safeAge(flag=%s)" % str(bd.get("flag")).lower()
                    elif bd.get("flag"):
                        tagw = "wal-file-deleted-after-tick-replay"
                    else:
                        tagw = "wal-file-removed-by-tick"
                elif bw == "shutdown-begin":
                    tagw = "wal-purged-by-shutdown-hook"
                else:
                    tagw = "wal-file-deleted-after-restart-replay"
                for r in f["ids"]:
                    out.setdefault(r, []).append(tagw)
            last_begin = None
    return out


def _failed_flush_not_replayed(evs):
    """Rows with: a failed storage write, then the FIRST maintenance tick after it found the row's WAL file rotated and
    with MinFileAge (5 s) <= age <= safeAge -- i.e. eligible for the replay branch -- and left the file in place (no replay).
    In the code as written the failure flag is set by the failed write and only a tick resets it, so this never happens."""
    out = set()
    failed_at = {}
    for i, ev in enumerate(evs):
        if ev["ev"] == "store" and not ev["ok"]:
            for r in ev["rows"]:
                failed_at.setdefault(r, i)
    if not failed_at:
        return out
    ticks = []
    begin = None
    for i, ev in enumerate(evs):
        if ev["ev"] != "info":
            continue
        what, _, payload = ev["what"].partition(" ")
        if what == "tick-begin":
            begin = (i, json.loads(payload))
        elif what == "tick-end" and begin:
            ticks.append((begin[0], begin[1], json.loads(payload)))
            begin = None
    for r, fi in failed_at.items():
        nxt = [t for t in ticks if t[0] > fi]
        if not nxt:
            continue
        _, bd, ed = nxt[0]
        after = {f["name"] for f in (ed.get("files") or [])}
        for f in (bd.get("files") or []):
            if r in f["ids"] and not f["active"] and 5.0 <= f["age_s"] <= bd.get("safe_age_s", 30) and f["name"] in after:
                out.add(r)
    return out


def classify(prop, run_events, rr, viol):
    """-> list of (signature, witness) for one run."""
    out = []
    attempts = {}
    in_wal = set()
    for ev in run_events:
        if ev["ev"] == "store":
            for r in ev["rows"]:
                attempts.setdefault(r, []).append("ok" if ev["ok"] else "fail")
        if ev["ev"] == "info" and '"files"' in ev["what"]:
            try:
                d = json.loads(ev["what"].partition(" ")[2])
                for f in (d.get("files") or []):
                    in_wal.update(f["ids"])
            except ValueError:
                pass
    walev = _wal_events(run_events)
    not_replayed = _failed_flush_not_replayed(run_events)
    queued_at_close = set(rr.get("queued_at_close") or [])
    abandoned = set(rr.get("abandoned") or [])
    stranded = set(rr.get("stranded") or [])
    wal = "wal=on" if rr.get("wal_on") else "wal=off"
    groups = {}
    for v in viol:
        kind = v["kind"]
        for r in v["rows"]:
            att = attempts.get(r, [])
            if kind == "lost":
                if "fail" in att:
                    mem = "flush-failed-rows-dropped-from-memory"
                elif r in abandoned:
                    mem = "queued-flush-task-abandoned-by-Close"
                elif r in stranded:
                    mem = "left-in-buffer-after-Close"
                elif not att and r in queued_at_close:
                    mem = "queued-flush-task-not-written-by-Close"
                elif not att and prop == "C03":
                    mem = "acked-rows-never-reached-any-storage-write"
                elif not att:
                    mem = "acked-rows-dropped-before-any-storage-write(queue-full/closing)"
                else:
                    mem = "stored-then-gone"
                if prop == "C03" or not rr.get("wal_on"):
                    # no WAL: the mechanism that dropped the only (in-memory) copy
                    sig = "lost:" + ("" if prop == "C03" else "wal=off:") + mem
                else:
                    # WAL on: a row is lost when its WAL copy disappears before it was stored;
                    # the decisive step is the one that removed the WAL copy
                    w = [x for x in walev.get(r, []) if not x.startswith("tick-skipped")]
                    if r in not_replayed:
                        last = "failed-flush-not-replayed-by-the-next-tick-although-its-wal-file-was-eligible"
                    elif w:
                        last = w[-1].split("(")[0]
                    else:
                        last = "wal-copy-never-observed" if r not in in_wal else "wal-copy-still-on-disk"
                    sig = "lost:wal=on:%s" % last
                    if last == "wal-purged-by-shutdown-hook":
                        # the hook deletes the WAL before the buffer is closed: which in-memory copy was the last one?
                        sig += ":row-was=" + mem
                    wal_path = ">".join(x for i, x in enumerate(walev.get(r, [])) if x not in walev.get(r, [])[:i])
                    groups.setdefault(sig, {"rows": [], "at": v["at"], "lifecycles": []})
                    lc = "%s | %s" % (mem, wal_path)
                    if lc not in groups[sig]["lifecycles"]:
                        groups[sig]["lifecycles"].append(lc)
            elif kind == "duplicate":
                w = [x for x in walev.get(r, []) if "replay" in x]
                w = [x for i, x in enumerate(w) if x not in w[:i]]
                sig = "duplicate:%s:%s" % (wal, ">".join(w) if w else "no-replay-involved")
            elif kind == "flush-acknowledged-although-rows-dropped":
                sig = "wal=off:FlushAll-returned-nil-although-a-storage-write-it-issued-failed"
            else:
                sig = kind
            g = groups.setdefault(sig, {"rows": [], "at": v["at"]})
            if r not in g["rows"]:
                g["rows"].append(r)
    for sig, g in sorted(groups.items()):
        wit = {"lifecycles": g.get("lifecycles"), "run": rr["run"], "kind": rr["kind"], "script": rr.get("script"), "cfg": rr.get("cfg"), "rows": sorted(g["rows"])[:20],
               "diverged": rr.get("diverged"), "detail": rr.get("detail"),
               "events": [e for e in run_events if e["ev"] != "info" or len(e["what"]) < 300][:80]}
        out.append((sig, wit))
    return out


def judge(ctx, prop, trace_path, results, scripts, check_drift):
    verdicts, res = validate(ctx, trace_path)
    evs = read_ndjson(trace_path)
    by_run = {}
    for e in evs:
        by_run.setdefault(e["run"], []).append(e)
    n_div = n_viol_runs = 0
    classes = {}
    pending = []   # (sig, wit): reported after the loop, see the corroboration rule below
    for rr in results:
        run = rr["run"]
        if rr.get("infra"):
            raise InfraError("driver run %d (%s): %s" % (run, rr.get("kind"), rr["infra"]))
        if run not in verdicts:
            raise InfraError("run %d has no verdict from TLC" % run)
        if rr.get("diverged"):
            n_div += 1
        viol = verdicts[run]
        found = classify(prop, by_run.get(run, []), rr, viol) if viol else []
        if found:
            n_viol_runs += 1
        for sig, wit in found:
            classes[sig] = classes.get(sig, 0) + 1
            if rr["kind"] == "script":
                wit["script_hist"] = [{k: v for k, v in c.items() if k != "pend"} for c in scripts[rr["script"]]["hist"]]
            pending.append((sig, wit))
        # drift: the model's prediction for this script vs what the real code did
        if check_drift and rr["kind"] == "script" and not rr.get("diverged"):
            sw = set(rr.get("swapped") or [])   # batches whose two hour files were written in the mirror order

            def back(r):
                return (r + 1 if r % 2 == 1 else r - 1) if ((r - 1) // 2 + 1) in sw else r
            real_lost = sorted({back(r) for v in viol if v["kind"] == "lost" for r in v["rows"]})
            real_dup = sorted({back(r) for v in viol if v["kind"] == "duplicate" for r in v["rows"]})
            sc = scripts[rr["script"]]
            pre = sc["gen"]
            for c in sc["hist"]:
                pre = pre + "|" + _ckey(c)
            allowed = PREFIX.get(pre, sc["allowed"])   # every behaviour of the model that extends the executed commands
            okd = any(a["lost"] == real_lost and a["dup"] == real_dup for a in allowed)
            if not okd and len(ctx.drift) < 5:
                ctx.spec_drift("script %d: real lost=%s dup=%s, Ingest.tla allows %s; hist=%s" % (
                    rr["script"], real_lost, real_dup, allowed[:4],
                    json.dumps([{k: v for k, v in c.items() if k != "pend"} for c in scripts[rr["script"]]["hist"]])[:600]))
    # Corroboration rule. "stored-then-gone" (a row had a successful storage write and is judged lost only because the
    # recording proxy later dropped/overwrote/re-decoded that object) is the one mechanism whose evidence comes from the
    # proxy's own bookkeeping rather than from arc's calls. On a fresh idle copy of the sandbox it fired ONCE in one of
    # 420 runs on the unchanged tree and could not be reproduced in repeated local runs with the same seed, i.e. it is a
    # race in the machinery, not an observation about arc. A single occurrence is therefore recorded as an
    # uncorroborated observation (evidence note, exit status unaffected); it is a verdict only when at least two
    # independent runs of this execution show it (every seeded change that really loses stored objects does so in many
    # runs and, besides, under other signatures: stored-object-unreadable, wrong-hour, duplicate, never-reached-storage).
    uncorroborated = []
    for sig, wit in pending:
        if sig.endswith("stored-then-gone") and classes.get(sig, 0) < 2:
            uncorroborated.append({"signature": sig, "witness": wit})
            print("UNCORROBORATED-OBSERVATION: property=%s %s (1 run of %d; not a verdict, see evidence note)"
                  % (prop, sig, len(results)), flush=True)
            continue
        ctx.violation(sig, wit)
    if uncorroborated:
        ctx.note("uncorroborated_observations", uncorroborated[:3])
    return {"runs": len(results), "diverged": n_div, "runs_with_violations": n_viol_runs, "classes": classes,
            "events": len(evs), "tlc_trace_states": res.distinct}

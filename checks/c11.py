"""C11 -- retention only deletes data older than the cutoff (DESIGN section 5, C11).

(M) TLC exhausts specs/retention/Retention.tla in small scope (<= 2 files, 5-point axis with the
    cutoff ON an axis point, rows confined to the file's hour/day partition, 3 (db, measurement) combinations with shared prefixes, hour and day
    locations, policy with/without measurement filter; behaviour grammar [compact] dry run
    [compact] [advance] dry run) and checks the property invariants on the model of the code as
    written (eligible iff max(time) < cutoff); a second run with the wrong comparison (<=) must
    violate them (the invariants are not vacuous).
(G) TLC -simulate (seeded by VERIF_SEED) generates behaviours in the large scope (<= 5 files,
    7-point axis, 4 combinations, 4 policies); the Go driver replays each into the REAL
    RetentionHandler (HTTP dry run / confirmed run and ExecutePolicy) on real Parquet files with
    the overlay clock fixing "now", on the real LocalBackend and on a wrapper with object-store
    listing semantics. The verdict is taken from the rows read back, judged against the property
    statement; TLC's per-step prediction is the drift detector.
"""
import json
import os
import threading

from vlib import InfraError

LEVEL = "model_checking"


def run(ctx):
    built = {}

    def build():
        try:
            extra = ctx.overlaygen(["-clock", "internal/api/retention.go"])
            ov = ctx.make_overlay([], extra=extra)
            built["bin"] = ctx.go_build("retention", overlay=ov, timeout=3600)
        except BaseException as e:  # noqa
            built["err"] = e

    th = threading.Thread(target=build)
    th.start()
    try:
        size = "small" if ctx.quick() else "large"
        mc = ctx.tlc("retention", "Retention", "MC_%s.cfg" % size, coverage=ctx.quick(), timeout=2400, workers=6)
        mut = ctx.tlc("retention", "Retention", "Mut_small.cfg", timeout=1200, workers=4, allow_violation=True)
        nsim = 60 if ctx.quick() else 400        # per worker
        gen = ctx.tlc("retention", "Retention", "Gen.cfg", mode="simulate", num=nsim, depth=30, workers=4, timeout=2400)
    finally:
        th.join()
    if "err" in built:
        raise built["err"]
    if ctx.quick():
        for a in ("AddFile", "Seal", "Compact", "SkipCompact", "DryRun", "Run", "Advance"):
            if mc.coverage.get(a, (0, 0))[0] == 0:
                raise InfraError("vacuous model: action %s never fired" % a)
    if mut.violated != "Safety":
        raise InfraError("the wrong-comparison variant (Older = \"le\") does not violate Safety: the invariants are vacuous")
    ctx.note("tlc_model_check", {"cfg": "MC_%s.cfg" % size, "distinct": mc.distinct, "generated": mc.generated, "depth": mc.depth,
                                 "invariants": ["NoFreshRowRemoved", "NoStaleFileRemains", "OutOfScopeKept", "DryRunInert", "DryRunFaithful",
                                                "NothingInvented", "CompactKeepsRows"],
                                 "actions_fired": {k: v[0] for k, v in mc.coverage.items()}})
    ctx.note("tlc_wrong_variant", {"cfg": "Mut_small.cfg", "violated": mut.violated, "states_until_counterexample": mut.distinct})
    # de-duplicate the simulated behaviours
    seen, scs = set(), []
    for t in gen.traces:
        k = json.dumps(t, sort_keys=True)
        if k not in seen:
            seen.add(k)
            scs.append(t)
    if len(scs) < 50:
        raise InfraError("generator emitted only %d behaviours" % len(scs))
    ctx.note("tlc_generation", {"cfg": "Gen.cfg", "mode": "simulate", "seed": ctx.seed, "behaviours": len(gen.traces), "distinct": len(scs),
                                "states": gen.generated})
    ctx.log("TLC generated %d behaviours (%d distinct)" % (len(gen.traces), len(scs)))
    sp = ctx.path("scenarios.json")
    json.dump(scs, open(sp, "w"))
    rp = ctx.path("result.json")
    work = ctx.path("work")
    os.makedirs(work, exist_ok=True)
    ctx.run([built["bin"], "-scenarios", sp, "-out", rp, "-work", work], timeout=3000)
    r = json.load(open(rp))
    if r.get("infra"):
        raise InfraError("retention driver: " + r["infra"])
    if r["scenarios"] != len(scs):
        raise InfraError("driver replayed %d of %d behaviours" % (r["scenarios"], len(scs)))
    if r["files_with_max_equal_cutoff"] == 0 or r["files_straddling_cutoff"] == 0 or r["files_deleted"] == 0 or r["compactions"] == 0:
        raise InfraError("replayed behaviours never hit a boundary file / straddling file / deletion / compaction: %s"
                         % {k: r[k] for k in ("files_with_max_equal_cutoff", "files_straddling_cutoff", "files_deleted", "compactions")})
    if min(r["runs_by_entry_point"].get("http", 0), r["runs_by_entry_point"].get("scheduler", 0)) == 0:
        raise InfraError("one of the two entry points was never exercised")
    ctx.count(evaluations=r["files_judged"], nontrivial_keys=r.get("nontrivial_keys") or [])
    ctx.traces_validated(r["scenarios"])
    for k in ("runs", "dry_runs", "compactions", "files_judged", "files_deleted", "files_with_max_equal_cutoff", "files_straddling_cutoff",
              "runs_by_entry_point", "scenarios_by_listing", "clock_reads", "cutoff_date_echo_ok"):
        ctx.note(k, r[k])
    ctx.note("rule", "TLC -simulate num=%d x 4 workers depth 30 seed VERIF_SEED over <=5 files / 7 axis points / 4 name combinations / 4 policies; "
             "distinct_nontrivial counts distinct replayed behaviours in which at least one file was really deleted" % nsim)
    ctx.assume("files are written with DuckDB COPY (TIMESTAMP micro-second column `time`), not by arc's ingest writer; compaction between "
               "runs is a relocation done by the driver (hour files of one measurement merged into one *_daily.parquet), not arc's compactor")
    ctx.assume("the policy's cutoff is now - (retention_days + buffer_days) days, 'now' supplied by the overlay clock")
    ctx.assume("the string-prefix listing wrapper stands for object-store backends (S3/Azure List semantics)")
    for s in (r.get("samples") or [])[:4]:
        ctx.sample({k: s[k] for k in ("scenario", "backend_listing", "via", "policy", "cutoff", "steps_so_far", "dry_run_report", "run_report")})
    for d in (r.get("drift") or []):
        w = d["witness"]
        ctx.spec_drift("%s in %d steps, e.g. scenario %d step %d (%s) %s" % (d["signature"], d["cases"], w["scenario"], w["step"],
                                                                                 w["backend_listing"], w.get("note", "")))
    for v in (r.get("violations") or []):
        w = v["witness"]
        w["cases_with_this_signature"] = v["cases"]
        ctx.violation(v["signature"], w)

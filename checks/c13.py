"""C13 -- backup then restore reproduces the data or reports failure (DESIGN section 5, C13).

(M) TLC exhausts specs/backup/Backup.tla (CreateBackup / RestoreBackup as the code is now: per-file
    copy loop with skippable source-read failures, fatal backup-write failures, skip-ratio check,
    manifest; restore loop that counts failed files and fails at the end) over every tree (non-empty
    subset of the model files) x every per-file fault in {none, rb, wb, wbt, rr, wr, wrt} x filler counts and
    checks every clause of the property.  Negative control: the same model with the pre-0fc80ea
    log-and-continue restore loop must be rejected (RestoreSound violated).
(G) the same run emits one scenario per terminal state with the predicted outcome; the Go driver
    replays every scenario on the real backup.Manager with fault-injecting proxies around the source,
    the backup store and an empty restore target, and judges the *real* outcome against the property
    statement.  The prediction is a drift detector.
"""
import concurrent.futures
import json
import os

from vlib import InfraError

LEVEL = "model_checking"


def _key(t):
    return json.dumps([sorted(t["present"]), sorted(t["fault"].items()), t["filler"]])


def _pred(t):
    return {"bstatus": t["bstatus"], "skipped": t["skipped"], "mskipped": t["mskipped"],
            "stored": sorted(t["stored"]), "rstatus": t["rstatus"], "restored": sorted(t["restored"])}


def run(ctx):
    size = "small" if ctx.quick() else "large"
    # ---- build in the background while TLC runs
    ov = ctx.make_overlay(["backup"])
    ctx.harness_dir()
    pool = concurrent.futures.ThreadPoolExecutor(max_workers=1)
    build = pool.submit(ctx.go_build, "backup", ("verif",), ov)
    # ---- (M)+(G): the generation config checks every invariant of the MC_* config and prints one TRACE
    # line per terminal state, so one exhaustive run serves both purposes
    mc = ctx.tlc("backup", "Backup", "Gen_%s.cfg" % size, coverage=True, timeout=1800, workers=4)
    need = ("BackupCopy", "BackupSkipUnreadable", "BackupWriteFatal", "RatioCheck", "WriteManifest",
            "RestoreReadManifest", "RestoreCopy", "RestoreFileFails", "RestoreLoopEnd")
    for a in need:
        if mc.coverage.get(a, (0, 0))[0] == 0:
            raise InfraError("vacuous model: action %s never fired" % a)
    # negative control: the pre-0fc80ea restore loop (log and continue) must be rejected by RestoreSound
    neg = ctx.tlc("backup", "Backup", "NegControl_legacy_skip.cfg", timeout=600, workers=1, allow_violation=True)
    if neg.violated != "RestoreSound":
        raise InfraError("negative control: TLC did not reject the legacy log-and-continue restore (violated=%s)" % neg.violated)
    ctx.note("tlc_model_check", {
        "cfg": "Gen_%s.cfg" % size, "distinct": mc.distinct, "generated": mc.generated, "depth": mc.depth,
        "invariants": ["TypeOK", "BackupRecordsSkips", "BackupHoldsReadable", "NoManifestNoRestore", "RestoreSound"],
        "actions_fired": {k: v[0] for k, v in mc.coverage.items()},
        "negative_control": {"cfg": "NegControl_legacy_skip.cfg", "violated": neg.violated},
    })
    if not mc.traces:
        raise InfraError("generator emitted nothing")
    scs = []
    for t in sorted(mc.traces, key=_key):
        scs.append({"present": sorted(t["present"]), "fault": t["fault"], "filler": t["filler"], "pred": {"current": _pred(t)}})
    ctx.log("TLC enumerated %d scenarios" % len(scs))
    sp = ctx.path("scenarios.json")
    json.dump(scs, open(sp, "w"))
    binp = build.result()
    pool.shutdown()
    rp = ctx.path("result.json")
    modes = os.environ.get("VERIF_C13_MODES", "alternate")   # "both": every fault as early *and* mid failure
    ctx.run([binp, "-scenarios", sp, "-out", rp, "-seed", str(ctx.seed), "-modes", modes], timeout=3000)
    r = json.load(open(rp))
    if r.get("infra"):
        raise InfraError("backup driver: " + r["infra"])
    if r["scenarios"] != len(scs):
        raise InfraError("driver replayed %d of %d scenarios" % (r["scenarios"], len(scs)))
    ctx.count(evaluations=r["runs"], nontrivial_keys=r.get("nontrivial_keys") or [])
    ctx.traces_validated(len(scs))
    ctx.note("scenarios", len(scs))
    ctx.note("runs", r["runs"])
    ctx.note("files_copied_into_backups", r["files_copied"])
    ctx.note("per_fault_class_runs", r["per_class"])
    ctx.note("outcome_matches_model", r["matched_model"])
    ctx.note("exhaustive", True)
    ctx.note("rule", "every non-empty subset of %s model files (2 databases, nested hour directories, an Iceberg table "
             "metadata directory) x every assignment of one fault in {none, read@backup, write@backup, read@restore, "
             "write@restore (permanent | first attempt only)} per file x filler counts %s; each fault realised as fail-before-first-byte and as "
             "fail-after-half-the-bytes (%s); distinct_nontrivial counts (tree, fault vector, filler, fail mode) with at "
             "least one fault" % (("4", "{0,16}", modes) if ctx.quick() else ("5", "{16}", modes)))
    for s in (r.get("samples") or []):
        ctx.sample(s)
    ctx.assume("a storage fault is an error returned by ReadTo/Read/WriteReader/Write of the storage.Backend (before any "
               "byte or after half of them); silent truncation without an error is not injected")
    ctx.assume("'Iceberg metadata file' = a non-parquet file under <ns>_<db>.db/<measurement>/metadata/, as written by arc's exporter")
    ctx.assume("restore target is an empty LocalBackend; the SQLite/config parts of a backup are outside the property")
    for d in (r.get("drift") or []):
        ctx.spec_drift("%s witness=%s" % (d["signature"], json.dumps(d["witness"])[:600]))
    for v in (r.get("violations") or []):
        ctx.violation(v["signature"], v["witness"])

"""C13 -- backup then restore reproduces the data or reports failure (DESIGN section 5, C13).

(M) TLC exhausts specs/backup/Backup.tla (CreateBackup / RestoreBackup as written: per-file copy
    loop with skippable source-read failures, fatal backup-write failures, skip-ratio check,
    manifest, restore loop that logs-and-continues) over every tree (non-empty subset of the
    model files) x every per-file fault in {none, rb, wb, rr, wr} x filler counts, and checks
    the backup-side clauses of the property.  The restore-side clause (RestoreSound) is checked
    on the same as-written model with a counterexample *expected* (it is only a candidate) and
    on the repaired variant (AsWritten = FALSE), where it must hold.
(G) the same state space is emitted as one scenario per terminal state with the predicted
    outcome of both variants; the Go driver replays every scenario on the real backup.Manager
    with fault-injecting proxies around the source, the backup store and an empty restore
    target, and judges the *real* outcome against the property statement.  The predictions are
    drift detectors.
"""
import json
import os

from vlib import InfraError

LEVEL = "model_checking"


def _key(t):
    return json.dumps([sorted(t["present"]), sorted(t["fault"].items()), t["filler"]])


def _pred(t):
    return {"bstatus": t["bstatus"], "skipped": t["skipped"], "mskipped": t["mskipped"],
            "stored": sorted(t["stored"]), "rstatus": t["rstatus"], "restored": sorted(t["restored"])}


def run(ctx):
    size = "small" if ctx.quick() else "large"
    # ---- (M)+(G): the generation configs check the same invariants as the MC_* configs and print one
    # TRACE line per terminal state, so one exhaustive run per variant serves both purposes
    mc = genA = ctx.tlc("backup", "Backup", "Gen_%s.cfg" % size, coverage=True, timeout=1800, workers=4)
    need = ("BackupCopy", "BackupSkipUnreadable", "BackupWriteFatal", "RatioCheck", "WriteManifest",
            "RestoreReadManifest", "RestoreCopy", "RestoreFileFails", "RestoreLoopEnd")
    for a in need:
        if mc.coverage.get(a, (0, 0))[0] == 0:
            raise InfraError("vacuous model: action %s never fired" % a)
    rep = genR = ctx.tlc("backup", "Backup", "Gen_%s_repaired.cfg" % size, timeout=1800, workers=4)
    cand = ctx.tlc("backup", "Backup", "MC_small_prop.cfg", timeout=600, workers=1, allow_violation=True)
    ctx.note("tlc_model_check", {
        "as_written": {"cfg": "Gen_%s.cfg" % size, "distinct": mc.distinct, "generated": mc.generated, "depth": mc.depth,
                       "invariants": ["TypeOK", "BackupRecordsSkips", "BackupHoldsReadable", "NoManifestNoRestore"],
                       "actions_fired": {k: v[0] for k, v in mc.coverage.items()}},
        "repaired": {"cfg": "Gen_%s_repaired.cfg" % size, "distinct": rep.distinct, "generated": rep.generated,
                     "depth": rep.depth, "invariants": ["BackupSide", "RestoreSound"]},
        "as_written_RestoreSound": {"cfg": "MC_small_prop.cfg", "violated": cand.violated,
                                    "note": "candidate only; the verdict comes from the replay on real code"},
    })
    if not genA.traces or len(genA.traces) != len(genR.traces):
        raise InfraError("generator output mismatch: %d vs %d" % (len(genA.traces), len(genR.traces)))
    scen = {}
    for t in genA.traces:
        scen[_key(t)] = {"present": sorted(t["present"]), "fault": t["fault"], "filler": t["filler"],
                         "pred": {"aswritten": _pred(t)}}
    for t in genR.traces:
        k = _key(t)
        if k not in scen:
            raise InfraError("repaired generator produced an unknown scenario")
        scen[k]["pred"]["repaired"] = _pred(t)
    scs = [scen[k] for k in sorted(scen)]
    ctx.log("TLC enumerated %d scenarios" % len(scs))
    sp = ctx.path("scenarios.json")
    json.dump(scs, open(sp, "w"))
    ov = ctx.make_overlay(["backup"])
    binp = ctx.go_build("backup", overlay=ov)
    rp = ctx.path("result.json")
    modes = os.environ.get("VERIF_C13_MODES", "alternate")   # "both": every fault as early *and* mid failure
    ctx.run([binp, "-scenarios", sp, "-out", rp, "-seed", str(ctx.seed), "-modes", modes], timeout=3000)
    r = json.load(open(rp))
    if r.get("infra"):
        raise InfraError("backup driver: " + r["infra"])
    if r["scenarios"] != len(scs):
        raise InfraError("driver replayed %d of %d scenarios" % (r["scenarios"], len(scs)))
    ctx.count(evaluations=r["runs"], nontrivial_keys=r.get("nontrivial_keys") or [])
    ctx.traces_validated(len(scs))
    ctx.note("scenarios", len(scs))
    ctx.note("runs", r["runs"])
    ctx.note("files_copied_into_backups", r["files_copied"])
    ctx.note("per_fault_class_runs", r["per_class"])
    ctx.note("outcome_matches_as_written_model", r["matched_aswritten"])
    ctx.note("outcome_matches_repaired_model", r["matched_repaired"])
    ctx.note("exhaustive", True)
    ctx.note("rule", "every non-empty subset of %s model files (2 databases, nested hour directories, an Iceberg table "
             "metadata directory) x every assignment of one fault in {none, read@backup, write@backup, read@restore, "
             "write@restore} per file x filler counts %s; each fault realised as fail-before-first-byte and as "
             "fail-after-half-the-bytes (%s); distinct_nontrivial counts (tree, fault vector, filler, fail mode) with at "
             "least one fault" % (("4", "{0,16}", modes) if ctx.quick() else ("6", "{16}", modes)))
    for s in (r.get("samples") or []):
        ctx.sample(s)
    ctx.assume("a storage fault is an error returned by ReadTo/Read/WriteReader/Write of the storage.Backend (before any "
               "byte or after half of them); silent truncation without an error is not injected")
    ctx.assume("'Iceberg metadata file' = a non-parquet file under <ns>_<db>.db/<measurement>/metadata/, as written by arc's exporter")
    ctx.assume("restore target is an empty LocalBackend; the SQLite/config parts of a backup are outside the property")
    for d in (r.get("drift") or []):
        ctx.spec_drift("%s witness=%s" % (d["signature"], json.dumps(d["witness"])[:600]))
    for v in (r.get("violations") or []):
        ctx.violation(v["signature"], v["witness"])

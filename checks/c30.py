"""C30 -- requests are served by a capable node after at most one forward (DESIGN section 5, C30).

(M) TLC exhausts specs/routing/Routing.tla: every configuration of 1..3 (thorough: 1..4) nodes
    (entry node x sorted multiset of peers; node type = {standalone without router, standalone
    in a cluster, writer primary/standby/none, reader, compactor} x {healthy+reachable, registry-
    healthy but down, unhealthy}) x
    endpoint x client-supplied X-Arc-Forwarded-By, with decideForward / RouteWrite / RouteQuery / the forwardRequest retry loop
    as written; invariants: at most one forward, processed only by a capable node, a capable
    node serves where received, forward targets are capable, a spoofed marker never causes
    local processing.  MC_noprologue.cfg (handlers without a routing prologue: estimate before
    2bc4585, arrow before 9b247be) is a negative control TLC must reject.
(G) the same module emits every terminal state; each scenario is replayed on the real handlers
    (real routing prologues, real cluster.Router + Registry per node, in-memory HTTP between
    the nodes).  The verdict is taken from the observed hop chain and from where the request
    was processed (storage writes after a flush / the executing DuckDB); the TLC prediction is
    the drift detector.
"""
import json
import os

from vlib import InfraError

LEVEL = "model_checking"

ACTIONS = ("Decide", "RouteWrite", "RouteQuery", "Attempt", "Reconfig")


def _tags():
    p = os.path.join(os.path.dirname(os.path.dirname(os.path.abspath(__file__))), "harness", "cmd", "routing", ".tags")
    if os.path.exists(p):
        return tuple(open(p).read().strip().split(","))
    return ("verif",)


def run(ctx):
    size = "small" if ctx.quick() else "large"
    mc = ctx.tlc("routing", "Routing", "MC_%s.cfg" % size, coverage=True, timeout=1200)
    for a in ACTIONS:
        if mc.coverage.get(a, (0, 0))[0] == 0:
            raise InfraError("vacuous model: action %s never fired" % a)
    ctx.note("tlc_model_check", {"cfg": "MC_%s.cfg" % size, "distinct": mc.distinct, "generated": mc.generated,
                                 "depth": mc.depth,
                                 "invariants": ["AtMostOneForward", "ProcessedByCapable", "ServedWhereReceived",
                                                "ForwardedToCapable", "ForwardedIsServed", "SpoofedMarker"],
                                 "actions_fired": {k: v[0] for k, v in mc.coverage.items() if k in ACTIONS}})
    # negative control: endpoints modelled WITHOUT a routing prologue (estimate before 2bc4585,
    # arrow before 9b247be) must make TLC reject ProcessedByCapable.
    np_ = ctx.tlc("routing", "Routing", "MC_noprologue.cfg", allow_violation=True, timeout=600, workers=2)
    if not np_.violated:
        raise InfraError("negative control MC_noprologue.cfg was not rejected by TLC: the invariants are vacuous")
    ctx.note("tlc_negative_control", {"cfg": "MC_noprologue.cfg", "violated": np_.violated,
                                      "meaning": "handlers without routing prologue; expected to be rejected"})

    # negative control 2: a retry loop that moves to "another healthy non-compactor peer" whatever the
    # request kind (a write then reaches a reader) must be rejected.
    rs = ctx.tlc("routing", "Routing", "MC_retryswitch.cfg", allow_violation=True, timeout=600, workers=2)
    if not rs.violated:
        raise InfraError("negative control MC_retryswitch.cfg was not rejected by TLC")
    ctx.note("tlc_negative_control_retry", {"cfg": "MC_retryswitch.cfg", "violated": rs.violated})

    # negative control 3: a router that keeps forwarding writes to the primary it remembers while that node
    # is merely registry-healthy (re-registered as reader/compactor) must be rejected.
    sp_ = ctx.tlc("routing", "Routing", "MC_stickyprimary.cfg", allow_violation=True, timeout=600, workers=2)
    if not sp_.violated:
        raise InfraError("negative control MC_stickyprimary.cfg was not rejected by TLC")
    ctx.note("tlc_negative_control_sticky", {"cfg": "MC_stickyprimary.cfg", "violated": sp_.violated})

    gen = ctx.tlc("routing", "Routing", "Gen_%s.cfg" % size, timeout=1800, workers=4)
    if not gen.traces:
        raise InfraError("generator emitted nothing")
    scen = {}
    for t in gen.traces:
        k = (tuple(t["nodes"]), t["ep"], t["hdr"], t["round"], t["r1proc"], t["chgnode"], t["chgtype"])
        s = scen.setdefault(k, {"nodes": t["nodes"], "ep": t["ep"], "hdr": t["hdr"], "allowed": [], "round": t["round"],
                                "r1proc": t["r1proc"], "chgnode": t["chgnode"], "chgtype": t["chgtype"]})
        o = {"outcome": t["outcome"], "proc": t["proc"], "hops": t["hops"]}
        if o not in s["allowed"]:
            s["allowed"].append(o)
    scs = list(scen.values())
    ctx.log("TLC emitted %d terminal states = %d scenarios" % (len(gen.traces), len(scs)))
    sp = ctx.path("scenarios.json")
    json.dump(scs, open(sp, "w"))

    binp = ctx.go_build("routing", tags=_tags())
    rp = ctx.path("result.json")
    repeat = 1
    ctx.run([binp, "-scenarios", sp, "-out", rp, "-repeat", str(repeat)], timeout=3000)
    r = json.load(open(rp))
    if r.get("infra"):
        raise InfraError("routing driver: " + r["infra"])
    skipped_eps = {k.split(":")[0] for k in (r.get("skipped_endpoints") or {})}
    expect = sum(1 for s in scs if s["ep"] not in skipped_eps)
    if r["scenarios"] + r.get("round2_unrealised", 0) != expect:
        raise InfraError("driver replayed %d (+%d unrealised) of %d scenarios" % (r["scenarios"], r.get("round2_unrealised", 0), expect))
    n2 = sum(1 for s in scs if s["round"] == 2 and s["ep"] not in skipped_eps)
    if n2 and r.get("round2_scenarios", 0) < n2 * 0.8 and not r.get("violations"):
        raise InfraError("only %d of %d two-request scenarios could be realised" % (r.get("round2_scenarios", 0), n2))
    ctx.note("round2_scenarios_realised", r.get("round2_scenarios", 0))
    ctx.note("round2_scenarios_unrealised", r.get("round2_unrealised", 0))
    if r["forwards"] == 0:
        raise InfraError("no request was forwarded: the binding is vacuous")
    ctx.count(evaluations=r["requests"],
              nontrivial_keys=["%s|%s|%s|%s:%s" % (",".join(map(str, s["nodes"])), s["ep"], s["hdr"], s["chgnode"], s["chgtype"])
                               for s in scs if s["ep"] not in skipped_eps
                               and any(a["outcome"] != "local" or a["hops"] > 0 for a in s["allowed"])])
    ctx.traces_validated(len(gen.traces))
    ctx.note("scenarios_replayed", r["scenarios"])
    ctx.note("requests", r["requests"])
    ctx.note("forwards_observed", r["forwards"])
    ctx.note("observed_outcomes", r["per_outcome"])
    ctx.note("requests_per_endpoint", r["per_ep"])
    ctx.note("skipped_endpoints", r.get("skipped_endpoints") or {})
    ctx.note("arrow_transport_retries", r.get("transport_retries", 0))
    ctx.note("arrow_unjudged_requests", r.get("unjudged_requests", 0))
    if r.get("unjudged_requests", 0) > r["requests"] // 100:
        raise InfraError("%d Arrow requests could not be judged (transport errors)" % r["unjudged_requests"])
    ctx.note("distinct_config_target_pairs", r["distinct_forward_targets_seen"])
    ctx.note("exhaustive", True)
    ctx.note("rule", "every (entry node type x sorted multiset of <=%d peer types) x endpoint x client marker "
             "{none, junk, own id, peer id}; peer type = 7 kinds x {healthy+reachable, healthy+down, unhealthy}, entry = 7 kinds; "
             "router retries = 2; each replayed %d time(s)"
             % (2 if ctx.quick() else 3, repeat))
    for s in (r.get("samples") or []):
        ctx.sample(s)
    ctx.assume("a router exists exactly when clustering is on; without clustering the role is standalone "
               "(reader/compactor without router is not a configuration arc can start in)")
    ctx.assume("all registries agree on roles, writer states and health (one global view); a down node refuses connections")
    ctx.assume("capability table of the statement: standalone and writer ingest+query, reader query only, compactor neither")
    ctx.assume("a 2xx answer of an endpoint whose body does not name the executor was produced by the last node of the observed chain")
    for d in (r.get("drift") or []):
        ctx.spec_drift("%s witness=%s" % (d["signature"], json.dumps(d["witness"])[:500]))
    for v in (r.get("violations") or []):
        ctx.violation(v["signature"], v["witness"])

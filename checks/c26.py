"""C26 -- nonce-protected cluster requests cannot be replayed (DESIGN section 5, C26).

(M) TLC on specs/nonce/Nonce.tla (Validate*HMAC freshness + NonceCache.Track/sweep as written,
    half-second integer clock) with the REAL (tolerance, retention) pair of every site as
    constants and the clock restricted to the boundary grid; invariants AtMostOnce and
    RejectOutside.  A violated invariant is a candidate, not a verdict.  On the current tree
    (retention = 2*tolerance + 1s since 8359fcc) both hold over the whole graph; the as-written
    variant (retention = tolerance) and retention 0.5 s short of the bound are negative controls
    that TLC must reject.
(G) the same module enumerates every bounded schedule (signed-timestamp offset x first receipt
    x replay times x an unrelated message driving the sweep) with the predicted decisions; the
    Go driver replays each one against the five real validate-then-track sites under the
    overlay clock.  Verdict = a second real acceptance of the same (sender, nonce), or a real
    acceptance outside the configured window.  The prediction is only a drift detector.
The pairs come from the working tree: harness/cmd/noncegen copies the duration expressions at
the construction sites / handler call sites and the Go compiler evaluates them; the
coordinator's cache is the one Coordinator.Start() built; retention is measured on the real cache.
"""
import json
import os
import re
import shutil
import subprocess

from vlib import InfraError, REPO, go_env

LEVEL = "model_checking"

CLOCK_FILES = "internal/cluster/security/nonce_cache.go,internal/cluster/security/auth.go,internal/cluster/security/edgesync_auth.go"

CFG = """SPECIFICATION Spec
CONSTANTS
  TolS = %(tol)d
  TtlH = %(ttl)d
  EvictH = 120
  MaxDeliver = %(deliver)d
  MaxOther = %(other)d
  Bursts = {1, 8}
  MaxA = 2
  MaxB = %(maxb)d
  EpsMax = %(eps)d
  Emit = %(emit)s
INVARIANTS %(inv)s
CHECK_DEADLOCK FALSE
"""


def _unbound_sites():
    """NewNonceCache call sites the driver does not bind (anything outside the three known files)."""
    known = {"internal/cluster/coordinator.go": 1, "cmd/arc/main.go": 2}
    found = {}
    for d, _, fs in os.walk(REPO):
        if "/.git" in d or "/node_modules" in d:
            continue
        for f in fs:
            if not f.endswith(".go") or f.endswith("_test.go"):
                continue
            p = os.path.join(d, f)
            try:
                txt = open(p, errors="replace").read()
            except OSError:
                continue
            n = len(re.findall(r"\bNewNonceCache\(", txt))
            rel = os.path.relpath(p, REPO)
            if rel == "internal/cluster/security/nonce_cache.go":
                n -= 1
            if n > 0:
                found[rel] = n
    return {k: v for k, v in found.items() if known.get(k) != v}


def run(ctx):
    quick = ctx.quick()
    # ---- build: generated site expressions + clock overlay + export shims
    hd = ctx.harness_dir()
    gen = ctx.go_build("noncegen", tags=("verif",))
    ctx.run([gen, "-repo", REPO, "-out", os.path.join(hd, "internal", "noncesites", "zz_gen.go")], timeout=120)
    extra = ctx.overlaygen(["-clock", CLOCK_FILES])
    ov = ctx.make_overlay(["nonce"], extra=extra)
    drv = ctx.go_build("nonce", tags=("verif", "noncegen"), overlay=ov)

    probe = ctx.path("probe.json")
    ctx.run([drv, "-mode", "probe", "-out", probe], timeout=600)
    sites = json.load(open(probe))["sites"]
    if len(sites) != 5:
        raise InfraError("driver bound %d sites, expected 5" % len(sites))
    ctx.note("sites", [{k: s[k] for k in ("name", "tol_where", "tol_text", "tol_s", "ttl_where", "ttl_text", "ttl_ns", "ttl_h")} for s in sites])
    for s in sites:
        ctx.log("site %-18s tolerance=%ds (%s) retention=%.3fs (%s)" % (s["name"], s["tol_s"], s["tol_text"], s["ttl_ns"] / 1e9, s["ttl_text"] or "Coordinator.Start"))
        if s["tol_s"] < 1:
            raise InfraError("site %s: tolerance below one second" % s["name"])
        if s["ttl_ns"] % 500_000_000:
            ctx.assume("site %s: retention %d ns is not a multiple of 0.5 s; boundaries are resolved to the nearest half second" % (s["name"], s["ttl_ns"]))
    unb = _unbound_sites()
    if unb:
        ctx.spec_drift("NewNonceCache construction sites not bound by the driver: %s" % json.dumps(unb, sort_keys=True))

    # ---- TLC per distinct pair
    pairs = sorted({(s["tol_s"], s["ttl_h"]) for s in sites})
    shape = dict(deliver=3, other=1, eps=(1 if quick else 2), maxb=(1 if quick else 2))
    replay_in = {"pairs": {}}
    mc_notes = []
    for tol, ttl in pairs:
        key = "%d/%d" % (tol, ttl)
        inv = "AtMostOnce RejectOutside"
        cfg = CFG % dict(shape, tol=tol, ttl=ttl, emit="FALSE", inv=inv)
        mc = ctx.tlc("nonce", "Nonce", "MC_site.cfg", files={"MC_site.cfg": cfg}, allow_violation=True, coverage=True, timeout=1500, workers=4)
        note = {"pair": key, "as_configured": {"violated": mc.violated, "distinct": mc.distinct, "generated": mc.generated, "depth": mc.depth,
                                               "actions_fired": {k: v[0] for k, v in mc.coverage.items()}}}
        wit = mc
        if mc.violated:
            # the configured pair is a candidate for a replay; non-vacuity witness: retention 2*tol+1s satisfies both invariants
            cfg_ok = CFG % dict(shape, tol=tol, ttl=4 * tol + 2, emit="FALSE", inv=inv)
            wit = ctx.tlc("nonce", "Nonce", "MC_rep.cfg", files={"MC_rep.cfg": cfg_ok}, coverage=True, timeout=1500, workers=4)
            note["retention_2tol_plus_1s"] = {"violated": None, "distinct": wit.distinct, "generated": wit.generated, "depth": wit.depth}
        for a in ("Deliver", "Other"):
            if wit.coverage.get(a, (0, 0))[0] == 0:
                raise InfraError("vacuous model: action %s never fired" % a)
        # negative controls: the same module must REJECT retention == tolerance (the code before
        # 8359fcc) and retention half a second short of 2*tol+1s (tightness of the bound)
        ctl = {}
        for name, nttl in (("retention_eq_tolerance", 2 * tol), ("retention_2tol_plus_half_second", 4 * tol + 1)):
            if nttl >= ttl:
                continue
            ncfg = CFG % dict(shape, tol=tol, ttl=nttl, emit="FALSE", inv=inv)
            nc = ctx.tlc("nonce", "Nonce", "MC_negctl.cfg", files={"MC_negctl.cfg": ncfg}, allow_violation=True, timeout=1500, workers=4)
            if nc.violated != "AtMostOnce":
                raise InfraError("negative control %s (tol=%ds ttl=%dhs) was not rejected by TLC: the model lost its teeth" % (name, tol, nttl))
            ctl[name] = {"ttl_h": nttl, "violated": nc.violated, "distinct_at_stop": nc.distinct}
        note["negative_controls_rejected"] = ctl
        mc_notes.append(note)
        ctx.log("TLC pair tol=%ds ttl=%dhs: as configured -> %s (%d distinct); negative controls rejected: %s"
                % (tol, ttl, "violates " + mc.violated if mc.violated else "holds", mc.distinct, sorted(ctl) or "n/a"))
        gcfg = CFG % dict(shape, tol=tol, ttl=ttl, emit="TRUE", inv="EmitInv")
        g = ctx.tlc("nonce", "Nonce", "Gen_site.cfg", files={"Gen_site.cfg": gcfg}, timeout=2400, workers=4)
        if not g.traces:
            raise InfraError("generator emitted nothing for pair %s" % key)
        scs, pred = [], {"accepts0": 0, "accepts1": 0, "accepts2+": 0, "replay_rejected": 0}
        for t in g.traces:
            scs.append({"ts": t["ts"], "ev": [{"k": 0 if e["k"] == "m" else 1, "t": e["t"], "acc": bool(e["acc"]), "n": e["n"]} for e in t["ev"]]})
            a = t["accepts"]
            pred["accepts0" if a == 0 else "accepts1" if a == 1 else "accepts2+"] += 1
        if pred["accepts1"] == 0 or pred["accepts0"] == 0:
            raise InfraError("generated schedules are vacuous: %s" % pred)
        mc_notes[-1]["generated_schedules"] = len(scs)
        mc_notes[-1]["predicted"] = pred
        mc_notes[-1]["gen_distinct"] = g.distinct
        sp = ctx.path("scen_%d_%d.json" % (tol, ttl))
        json.dump(scs, open(sp, "w"))
        replay_in["pairs"][key] = sp
        ctx.traces_validated(len(scs))
    ctx.note("tlc", mc_notes)
    ctx.note("bounds", dict(shape, anchors="t1 + a*2*TolS + b*TtlH + e, a in 0..2, b in 0..maxb, e in -EpsMax..EpsMax half seconds; first receipt at x.0 or x.5 s",
                            offsets="signed timestamp = Unix(first receipt) + {-Tol-1,-Tol,-Tol+1,-1,0,1,Tol-1,Tol,Tol+1} s"))
    ctx.note("exhaustive", True)
    ctx.note("rule", "every schedule of 3 deliveries of one signed message + <=1 burst of k in {1,8} unrelated messages over the boundary grid, per site; HTTP sites are driven over one keep-alive connection to one long-lived fiber app, replays carry a different header layout")

    rin = ctx.path("replay.json")
    json.dump(replay_in, open(rin, "w"))
    rout = ctx.path("result.json")
    ctx.run([drv, "-mode", "replay", "-in", rin, "-out", rout], timeout=3000)
    r = json.load(open(rout))
    if r.get("infra"):
        raise InfraError("nonce driver: " + r["infra"])
    ctx.count(evaluations=r["deliveries"])
    for s in sites:
        n = r["scenarios"].get(s["name"], 0)
        if n == 0:
            raise InfraError("site %s replayed nothing" % s["name"])
        ctx.count(nontrivial_keys=["%s#%d" % (s["name"], i) for i in range(n)])
    if r.get("truncated"):
        ctx.note("replay_cut_short_after_300_violations_per_site", r["truncated"])
    ctx.note("per_site_deliveries", r["per_site_deliveries"])
    ctx.note("observed_classes", r["classes"])
    for smp in r.get("samples") or []:
        ctx.sample(smp)
    ctx.assume("HMAC-SHA256 is unforgeable: only replays of an authentic message are modelled, not forgeries")
    ctx.assume("time inside one validate-then-track call does not advance (the overlay clock is constant during a delivery)")
    ctx.assume("the receiver is not restarted between original and replay (the cache is in memory)")
    for sig, f in sorted((r.get("drift") or {}).items()):
        ctx.spec_drift("%s x%d sites=%s witness=%s" % (sig, f["count"], json.dumps(f["sites"], sort_keys=True), json.dumps(f["witness"])[:300]))
    for sig, f in sorted((r.get("violations") or {}).items()):
        w = dict(f["witness"])
        w["occurrences"] = f["count"]
        w["sites_affected"] = f["sites"]
        ctx.violation(sig, w)

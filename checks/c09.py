"""C09 -- compaction never loses or duplicates rows, even across crashes (DESIGN section 5, C09).

(M) TLC exhausts specs/compaction/Compaction.tla (Manager cycle with orphan-manifest recovery and
    candidate selection, Job.Run as download -> compact -> manifest -> upload(.part copy, rename) ->
    delete each input -> delete manifest, SIGKILL before any storage mutation, classification and the
    adaptive half-batch retry as written in manager.go) with TypeOK / DeleteSafe as invariants, and
    once more with the property (ConservedAfterCleanCycle) as invariant: a counterexample there is
    only a candidate schedule.
(G) the same module emits every terminal behaviour (kill schedule = per cycle, per subprocess, the
    index of the storage mutation before which it is killed) with the predicted job/mutation counts.
(T) the Go driver replays each schedule on a REAL compaction.Manager (hourly tier) over a LocalBackend
    tree of Parquet files written by arc's ArrowWriter; jobs run in the real subprocess role
    (RunJobInSubprocess re-executes the driver binary, which calls compaction.RunSubprocessJob exactly
    like `arc compact --job-stdin`; thorough tier: additionally the overlaid arc binary itself) and are
    SIGKILLed at gates inserted by overlaygen at the entry of LocalBackend.Write/WriteReader/Delete and
    before the publishing rename. Every storage mutation + cycle boundary + DuckDB scan of the partition
    is recorded and validated by TLC against CompactionProp.tla (CompactionTrace.tla): the verdict comes
    from that validation of real runs only.
"""
import json
import os

from vlib import InfraError

LEVEL = "model_checking"

GATES = [
    "internal/storage/local.go|Write|entry|c09.write",
    "internal/storage/local.go|WriteReader|entry|c09.wr.entry",
    "internal/storage/local.go|WriteReader|before-call:os.Rename|c09.wr.rename",
    "internal/storage/local.go|Delete|entry|c09.delete",
]

# RecoverKeep/RecoverDrop (cycle-start recovery) are reachable only in the negative-control constants: since e2ad6be the
# manager resolves a crashed job's manifest itself, and the manager process is never killed in this model
ACTIONS = ["CycleStart", "FindCandidates", "JobReject", "JobStart", "Download",
           "Compact", "Manifest", "UploadCopy", "UploadRename", "DelInput", "DelManifest", "KillSplit", "KillFail",
           "CycleEnd"]

CODE = {0: "ok", 1: "unsafe-delete", 2: "dup", 3: "lost", 4: "foreign-or-altered"}


def cfg_text(nfiles, minfiles, maxbatch, maxkills, maxcycles, emit, invs, view, as_written=False,
             modes=("none", "tags", "shrink", "clones", "clones_tags"), tag_union=True, plain_distinct=False):
    # as_written: the code before the fix commits e2ad6be / db8e9fa (negative control)
    # tag_union=False: dedup on the newest tagged input's arc:tags only (negative control)
    # plain_distinct=True: the metadata-free merge is SELECT DISTINCT * (negative control)
    return ("SPECIFICATION Spec\nCONSTANTS\n  NFiles = %d\n  MinFiles = %d\n  MaxBatch = %d\n  MaxKills = %d\n"
            "  MaxCycles = %d\n  DedupModes = {%s}\n  TagUnion = %s\n  PlainDistinct = %s\n  RecoverOnCrash = %s\n  ListAllEntries = %s\n  Emit = %s\n"
            "INVARIANTS %s\n%sCHECK_DEADLOCK FALSE\n"
            % (nfiles, minfiles, maxbatch, maxkills, maxcycles, ", ".join('"%s"' % m for m in modes),
               "TRUE" if tag_union else "FALSE", "TRUE" if plain_distinct else "FALSE", "FALSE" if as_written else "TRUE",
               "TRUE" if as_written else "FALSE",
               "TRUE" if emit else "FALSE", invs, "VIEW view\n" if view else ""))


def hist_to_cycles(h):
    cs = []
    for e in h:
        if e["t"] == "cycle":
            cs.append({"jobs": []})
        elif e["t"] == "job":
            cs[-1]["jobs"].append({"n": e["n"], "depth": e["depth"], "gate": e["gate"], "nvalid": e["nvalid"]})
        else:
            cs[-1].update(verdict=e["verdict"], clean=e["clean"], vis=e["vis"], parts=e["parts"])
    return cs


def run(ctx):
    quick = ctx.quick()
    # ---------------------------------------------------------------- (M)+(G) model checking and schedule generation
    # bounds: (label, NFiles, MinFiles, MaxBatch, MaxKills, MaxCycles, cap on replayed schedules); both dedup modes are
    # initial states of the same run. The generation run has no VIEW (the schedule history is part of the state), so it
    # visits a superset of the plain model's states and checks the same invariants: it IS the exhaustive check.
    if quick:
        bounds = [("small", 4, 2, 4, 2, 3, 80), ("tiny", 2, 2, 4, 2, 3, 30), ("three", 3, 2, 2, 2, 3, 30)]
    else:
        bounds = [("small", 4, 2, 4, 2, 3, 220), ("tiny", 2, 2, 4, 2, 3, 60), ("three", 3, 2, 2, 2, 3, 70),
                  ("five", 5, 3, 5, 2, 3, 100), ("large", 6, 3, 4, 3, 3, 130)]
    mc_notes = []
    fired = {}
    scen = []
    modes_dedup = ["tags", "dedup_time", "mixed"]
    for (label, nf, mf, mb, mk, mcyc, cap) in bounds:
        name = "Gen_%s.cfg" % label
        gen = ctx.tlc("compaction", "Compaction", name, coverage=True, timeout=1500, workers=4,
                      files={name: cfg_text(nf, mf, mb, mk, mcyc, True, "TypeOK DeleteSafeExceptOpen EmitInv", False,
                                             modes=("none", "tags", "shrink", "clones", "clones_tags") if nf >= 4 else ("none", "tags"))})
        if not gen.traces:
            raise InfraError("generator %s emitted nothing" % name)
        for a, v in gen.coverage.items():
            fired[a] = fired.get(a, 0) + v[0]
        mc_notes.append({"cfg": name, "bounds": {"NFiles": nf, "MinFiles": mf, "MaxBatch": mb, "MaxKills": mk,
                                                  "MaxCycles": mcyc, "DedupModes": ["none", "tags"] + (["shrink", "clones", "clones_tags"] if nf >= 4 else [])},
                         "distinct": gen.distinct, "generated": gen.generated, "depth": gen.depth,
                         "invariants": ["TypeOK", "DeleteSafeExceptOpen"], "terminal_behaviours": len(gen.traces)})
        cand = []
        seen = set()
        if label == "small":
            directed_pool = [hist_to_cycles(h) for h in gen.traces if h[0]["dedup"] == "shrink"]
        for h in gen.traces:
            cyc = hist_to_cycles(h)
            dedup = h[0]["dedup"]
            key = (dedup, json.dumps(cyc, sort_keys=True))
            if key in seen:
                continue
            seen.add(key)
            kills = sum(1 for c in cyc for j in c["jobs"] if j["gate"] > 0)
            cand.append((kills, dedup, key[1], cyc))
        # deterministic order; schedules with fewer kills first, then a seed-dependent rotation of the rest
        cand.sort(key=lambda t: (t[0], t[1], t[2]))
        # the "shrink" class (files with different arc:tags sets): every <=1-kill schedule, the rest only in thorough
        few = [c for c in cand if c[0] <= 1]
        rest = [c for c in cand if c[0] > 1 and (c[1] in ("none", "tags") or not quick)]
        if rest:
            off = (ctx.seed * 7919) % len(rest)
            rest = rest[off:] + rest[:off]
        # interleave dedup / non-dedup so that a cap keeps both families
        picked = few + rest
        n = 0
        for (kills, dedup, _, cyc) in picked:
            if n >= cap:
                break
            if dedup == "tags":
                modes = [modes_dedup[(n + ctx.seed) % 3]] if (quick or label == "large") else modes_dedup
            elif dedup == "shrink":
                modes = ["tags_evolve"]
            elif dedup == "clones":
                modes = ["none_clones"]       # no metadata, rows identical in every column (in one file and across files)
            elif dedup == "clones_tags":
                modes = ["tags_clones"]       # control: the same rows with arc:tags, collapse allowed
            else:
                modes = ["none"]
            for m in modes:
                scen.append({"id": len(scen) + 1, "nfiles": nf, "minfiles": mf, "maxbatch": mb, "dedup": m,
                             "seed": ctx.seed, "cycles": cyc, "label": "%s/%s" % (label, m)})
                n += 1
        mc_notes[-1]["schedules_replayed"] = n
    # directed input for the open finding "compacted output carries no arc:tags": kill job 1 before its manifest, let the
    # first half finish, kill the second half -> the next cycle compacts [raw3, raw4, half-output1]
    want = [[1, 0, 1], [0], []]
    hit = [s for s in scen if s["label"] == "small/tags_evolve"
           and [[j["gate"] for j in c["jobs"]] for c in s["cycles"]] == want]
    if not hit:
        base = [c for c in directed_pool if [[j["gate"] for j in cc["jobs"]] for cc in c] == want]
        if not base:
            raise InfraError("schedule %s not among the behaviours of Gen_small" % want)
        cyc = base[0]
    else:
        cyc = hit[0]["cycles"]
    if not hit:
        (_, nf, mf, mb, _, _, _) = bounds[0]
        scen.append({"id": len(scen) + 1, "nfiles": nf, "minfiles": mf, "maxbatch": mb, "dedup": "tags_evolve",
                     "seed": ctx.seed, "cycles": cyc, "label": "small/tags_evolve"})
    for a in ACTIONS:
        if fired.get(a, 0) == 0:
            raise InfraError("vacuous model: action %s never fired (coverage %s)" % (a, fired))
    # the property itself as an invariant of the model: a counterexample is a candidate schedule, never a verdict
    (label, nf, mf, mb, mk, mcyc, _) = bounds[0]
    mp = ctx.tlc("compaction", "Compaction", "MCP.cfg", timeout=900, workers=4, allow_violation=True,
                 files={"MCP.cfg": cfg_text(nf, mf, mb, mk, mcyc, False, "ConservedExceptOpen", True)})
    # negative control: the mechanisms as written before the two fix commits must be rejected by TLC
    nc = ctx.tlc("compaction", "Compaction", "MCP_aswritten.cfg", timeout=900, workers=4, allow_violation=True, coverage=True,
                 files={"MCP_aswritten.cfg": cfg_text(nf, mf, mb, mk, mcyc, False, "ConservedAfterCleanCycle", True, as_written=True)})
    if nc.violated != "ConservedAfterCleanCycle":
        raise InfraError("negative control: the as-written mechanisms (no crash-time manifest recovery, .part listed) no longer "
                         "violate ConservedAfterCleanCycle on the model (%s)" % nc.violated)
    # negative control 2: dedup on the newest tagged file's arc:tags instead of the union, files with different tag sets,
    # no kill at all -> rows differing only in the dropped tag collapse
    nc2 = ctx.tlc("compaction", "Compaction", "MCP_newesttags.cfg", timeout=900, workers=2, allow_violation=True,
                  files={"MCP_newesttags.cfg": cfg_text(nf, mf, mb, 0, mcyc, False, "ConservedAfterCleanCycle", True,
                                                        modes=("shrink",), tag_union=False)})
    if nc2.violated != "ConservedAfterCleanCycle":
        raise InfraError("negative control: 'newest tagged file only' no longer violates ConservedAfterCleanCycle (%s)" % nc2.violated)
    # negative control 3: SELECT DISTINCT in the metadata-free merge, partition with fully identical rows, no kill
    nc3 = ctx.tlc("compaction", "Compaction", "MCP_distinct.cfg", timeout=900, workers=2, allow_violation=True,
                  files={"MCP_distinct.cfg": cfg_text(nf, mf, mb, 0, mcyc, False, "ConservedAfterCleanCycle", True,
                                                      modes=("clones",), plain_distinct=True)})
    if nc3.violated != "ConservedAfterCleanCycle":
        raise InfraError("negative control: a DISTINCT merge of a metadata-free partition with identical rows no longer "
                         "violates ConservedAfterCleanCycle (%s)" % nc3.violated)
    ctx.note("negative_control_plain_distinct", {"violated": nc3.violated})
    ctx.note("negative_control_newest_tags_only", {"violated": nc2.violated})
    ctx.note("negative_control_as_written", {"violated": nc.violated, "distinct_until_counterexample": nc.distinct})
    ctx.note("tlc_model_check", mc_notes)
    ctx.note("actions_fired", fired)
    ctx.note("property_as_model_invariant", ("counterexample found (candidate schedule only): %s" % mp.violated)
             if mp.violated else "holds on the model (classes none/tags; the shrink class reaches open finding 3)")
    ctx.log("TLC enumerated %d schedules to replay" % len(scen))

    # ---------------------------------------------------------------- build
    # + controlled clock in Job (time.Now() -> verifNow()): all jobs of a cycle share one wall-clock second
    extra = ctx.overlaygen(["-clock", "internal/compaction/job.go"] + sum((["-gate", g] for g in GATES), []))
    if ctx.missing_gates:
        raise InfraError("LocalBackend anchors for the C09 gates not found: %s (internal/storage/local.go was "
                         "restructured; adapt GATES in checks/c09.py)" % ctx.missing_gates)
    ov = ctx.make_overlay(["compaction"], extra=extra)
    binp = ctx.go_build("compaction", overlay=ov)

    def replay(scs, arc=None, tag="harness-subprocess"):
        sp = ctx.path("scen_%s.json" % tag)
        rp = ctx.path("res_%s.json" % tag)
        json.dump(scs, open(sp, "w"))
        cmd = [binp, "-scenarios", sp, "-out", rp, "-work", ctx.path("work_" + tag), "-parallel", "8"]
        if arc:
            cmd += ["-arc", arc]
        ctx.run(cmd, timeout=7200)
        r = json.load(open(rp))
        if r.get("infra"):
            raise InfraError("compaction driver: " + r["infra"])
        if len(r["results"]) != len(scs):
            raise InfraError("driver replayed %d of %d schedules" % (len(r["results"]), len(scs)))
        return r["results"]

    results = [(s, r, "harness-subprocess") for s, r in zip(scen, replay(scen))]

    if not quick:
        # leg (a): the real arc binary as the subprocess (`arc compact --job-stdin`), same gates
        arc = ctx.go_build_arc(overlay=ov)
        sub = [dict(s) for s in scen if s["label"].startswith("small/") or s["label"].startswith("tiny/")]
        sub = [s for i, s in enumerate(sub) if (i + ctx.seed) % 3 == 0][:40]
        base = len(scen)
        for i, s in enumerate(sub):
            s["id"] = base + i + 1
            s["label"] += "@arc"
        results += [(s, r, "arc-binary-subprocess") for s, r in zip(sub, replay(sub, arc=arc, tag="arc"))]
        ctx.note("arc_binary_leg_schedules", len(sub))

    # ---------------------------------------------------------------- (T) trace validation by TLC
    lines = []
    by_id = {}
    for s, r, leg in results:
        if r.get("infra"):
            raise InfraError("schedule %d (%s): %s" % (s["id"], s["label"], r["infra"]))
        by_id[s["id"]] = (s, r, leg)
        for e in r["trace"]:
            lines.append(json.dumps(e, separators=(",", ":")))
    ok, res = ctx.tlc_validate("compaction", "CompactionTrace", "Trace.cfg", "\n".join(lines) + "\n", timeout=1500)
    if not ok:
        raise InfraError("trace not consumed by CompactionTrace (structural rejection): %s %s" % (res.error, res.prints[-3:]))
    verdicts = {}
    for p in res.prints:
        if p.startswith('<<"VERDICT"'):
            parts = p.strip("<>").split(",")
            verdicts[int(parts[1])] = (int(parts[2]), int(parts[3]))
    if set(verdicts) != set(by_id):
        raise InfraError("TLC judged %d of %d recorded runs" % (len(verdicts), len(by_id)))
    ctx.traces_validated(len(verdicts))
    ctx.note("trace_events_validated", len(lines))

    # ---------------------------------------------------------------- accounting + verdicts
    killpoints = set()
    nontrivial = []
    per_verdict = {}
    jobs_run = 0
    kills = 0
    for sid, (s, r, leg) in sorted(by_id.items()):
        code, line = verdicts[sid]
        per_verdict[CODE[code]] = per_verdict.get(CODE[code], 0) + 1
        jobs_run += len(r["jobs"])
        plan = [[j["gate"] for j in c["jobs"]] for c in s["cycles"]]
        for j in r["jobs"]:
            if j["killed"]:
                kills += 1
                killpoints.add("gate%d" % j["killed"])
        if any(g for c in plan for g in c):
            nontrivial.append("%s|%s|%s" % (s["label"], leg, json.dumps(plan)))
        for d in (r.get("drift") or []):
            ctx.spec_drift("schedule %s %s: %s" % (s["label"], json.dumps(plan), d))
        go = r["go"]
        if go["code"] != code:
            raise InfraError("driver-side classification (%s) and TLC verdict (%s) disagree on schedule %s %s"
                             % (go["code"], code, s["label"], json.dumps(plan)))
        if code != 0:
            witness = {"leg": leg, "bounds": {k: s[k] for k in ("nfiles", "minfiles", "maxbatch", "dedup", "seed")},
                       "kill_schedule_per_cycle": plan, "tlc_verdict": CODE[code], "trace_line": line,
                       "detail": go.get("detail"), "jobs_observed": r["jobs"], "cycles_observed": r["cycle_obs"],
                       "storage_events": [e for e in r["events"] if e.get("ev") in
                                          ("put", "del", "mput", "mdel", "kill", "cycle_start", "cycle_end")][:80]}
            ctx.violation(go["signature"], witness)
        elif len(ctx.coverage["samples"]) < 4 and any(g for c in plan for g in c):
            ctx.sample({"schedule": plan, "label": s["label"], "leg": leg, "rows": r["rows"], "keys_with_duplicates": r["dup_keys"],
                        "jobs_observed": r["jobs"], "verdict": "ok"})
    ctx.count(evaluations=jobs_run, nontrivial_keys=nontrivial)
    ctx.note("schedules_replayed", len(by_id))
    ctx.note("subprocess_jobs_run", jobs_run)
    ctx.note("kills_delivered", kills)
    ctx.note("kill_points_hit", sorted(killpoints))
    ctx.note("tlc_verdicts_on_real_runs", per_verdict)
    ctx.note("rule", "every terminal behaviour of Compaction.tla inside the bounds = every placement of <= MaxKills kills over "
             "the storage mutations of every subprocess of <= MaxCycles cycles (incl. the adaptive half-batch retries); "
             "distinct_nontrivial counts (bounds, dedup mode, leg, kill schedule) with at least one kill")
    ctx.assume("the job is killed between storage mutations (a kill inside download/DuckDB COPY is state-equivalent to a "
               "kill before the manifest write; a kill inside the .part copy leaves an invalid .part that validation skips)")
    ctx.assume("the compaction Manager process itself is not killed (the property quantifies over kills of compaction jobs)")
    ctx.assume("LocalBackend semantics (rename-published uploads); object-store partial uploads are not exercised")
    ctx.assume("a partition 'carries deduplication metadata' when at least one of its files has arc:tags or arc:dedup_time; "
               "rows sharing tags+time may then collapse, otherwise row multisets must be equal")

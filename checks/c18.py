"""C18 -- partition pruning never changes query results (DESIGN section 5, C18).

(M) TLC exhausts specs/sqlrewrite/SqlRewritePrune.tla: ExtractTimeRange / GeneratePartitionPaths /
    OptimizeTablePath as written (text-order regex extraction, BETWEEN override, NOW()-relative bounds,
    2020-01-01 floor, now+1 day ceiling, day files, fallbacks) over every WHERE tree (AND/OR/NOT over time,
    BETWEEN, NOW()-relative, other-column and column-ending-in-time atoms) x {plain, subquery, self-join} x every
    layout of <= MaxFiles files (+ the full one); invariants: every predicted loss has a named mechanism
    (Explained), every loss shows in a layout of <= 2 files (SmallScope).
(G) the enumerated queries are rendered to SQL, the layouts written as real parquet partitions, and the query is
    transformed by real QueryHandlers with the pruner on (clock fixed via the -clock overlay) and off; both
    are executed on arc's DuckDB.  Different rows = violation; the lost file is found by experiment and the
    mechanism TLC attached to it names the finding; the model's pruned set is the drift detector.
"""
import json
import random

from vlib import InfraError

LEVEL = "model_checking"


def _units(t):
    if t["op"] == "atom":
        a = t["a"]
        return {("%s%s" % (a["u"], "+" if a["c"] < 0 else "-"))} if a["k"] == "R" else set()
    return _units(t["l"]) | (_units(t["r"]) if t.get("r") else set())


def run(ctx):
    quick = ctx.quick()
    cfg = "Prune_Gen_small.cfg" if quick else "Prune_Gen_large.cfg"
    gen = ctx.tlc("sqlrewrite", "SqlRewritePrune", cfg, timeout=5400, workers=6 if not quick else 4)
    qs = gen.traces
    if not qs:
        raise InfraError("pruning generator emitted nothing")
    labels = {}
    for q in qs:
        for l in q["labels"]:
            labels[l] = labels.get(l, 0) + 1
    need = ["end-only-range-assumed-to-start-2020-01-01", "start-only-range-assumed-to-end-now-plus-1-day",
            "column-ending-in-time-taken-as-time", "time-predicate-under-NOT", "time-predicate-under-OR",
            "time-range-applied-to-every-table-reference",
            "utc-offset-literal-converted-by-pruner-but-not-by-duckdb"]
    for l in need:
        if not labels.get(l):
            raise InfraError("vacuous model: mechanism %s never predicted" % l)
    incl = "inclusive-upper-bound-on-the-hour-excludes-that-hour"
    if not any(l["why"] == incl for q in qs for c in q["cases"] for l in c["lostaw"]):
        raise InfraError("vacuous generation: no case on which the pre-757b147 pruner would lose the end hour")
    # negative control: the hour loop as written before /repo 757b147 must be rejected by TLC
    neg = ctx.tlc("sqlrewrite", "SqlRewritePrune", "Prune_AsWritten.cfg", timeout=1800, workers=4, allow_violation=True)
    if not neg.violated:
        raise InfraError("negative control Prune_AsWritten.cfg was not rejected by TLC")
    nloss = sum(1 for q in qs if q["nbad"])
    if nloss == len(qs) or not any(q["found"] and not q["nbad"] for q in qs):
        raise InfraError("vacuous model: no query is pruned without loss")
    ctx.note("tlc_prune", {"cfg": cfg, "distinct": gen.distinct, "generated": gen.generated, "depth": gen.depth,
                           "invariants": ["Explained", "SmallScope", "NoInclusiveLoss"], "negative_control_rejected": "Prune_AsWritten.cfg", "queries": len(qs), "queries_with_predicted_loss": nloss,
                           "queries_pruned_without_loss": sum(1 for q in qs if q["found"] and not q["nbad"]),
                           "queries_per_mechanism": labels})
    # stratified, seeded sample: round-robin over (wrapper, label set, pruned?) groups
    rnd = random.Random(ctx.seed)
    groups = {}
    for q in qs:
        # mechanisms the pre-fix pruner would add (repaired findings) form their own groups, so that a
        # regression of a repaired mechanism is always executed
        aw = sorted({l["why"] for c in q["cases"] for l in c["lostaw"]} - set(q["labels"]))
        # interval-unit classes of the NOW()-relative atoms are part of the key: calendar units (months) must be
        # executed even when the model predicts no loss for them
        groups.setdefault((q["w"], tuple(sorted(q["labels"])), q["found"], tuple(aw), tuple(sorted(_units(q["tree"])))), []).append(q)
    for g in groups.values():
        rnd.shuffle(g)
    budget = 360 if quick else 3000
    chosen = []
    ks = sorted(groups)
    i = 0
    while len(chosen) < min(budget, len(qs)):
        k = ks[i % len(ks)]
        if groups[k]:
            chosen.append(groups[k].pop())
        i += 1
        if i > 10 * len(qs) + 100:
            break
    ov = ctx.make_overlay(["sqlrewrite"], extra=ctx.overlaygen(["-clock", "internal/pruning/partition_pruner.go"]))
    binp = ctx.go_build("sqlrewrite", overlay=ov)
    sp = ctx.path("c18_in.json")
    json.dump({"queries": chosen}, open(sp, "w"))
    rp = ctx.path("c18_out.json")
    ctx.run([binp, "-mode", "c18", "-in", sp, "-out", rp, "-seed", str(ctx.seed), "-dir", ctx.path("c18_env")], timeout=5400)
    r = json.load(open(rp))
    if r.get("infra"):
        raise InfraError("sqlrewrite driver: " + r["infra"])
    if r["queries"] != len(chosen) or r["executions"] == 0:
        raise InfraError("driver replayed %d of %d queries" % (r["queries"], len(chosen)))
    if r["executions_where_pruning_applied"] == 0:
        raise InfraError("the real pruner never pruned: nothing was exercised")
    ctx.count(evaluations=r["evaluations"], nontrivial_keys=r.get("nontrivial_keys") or [])
    ctx.traces_validated(len(chosen))
    for k in ("queries", "executions", "layouts_on_disk", "executions_where_pruning_applied", "executions_predicted_lossy",
              "executions_with_different_rows", "different_rows_per_signature"):
        ctx.note(k, r.get(k))
    ctx.note("groups", len(ks))
    ctx.note("exhaustive", False)
    ctx.note("rule", "TLC: every tree of the bounds x 3 wrappers x every layout of <=%d files; executed: seeded round-robin sample of %d queries over "
             "(wrapper, mechanism set, pruned?) groups, each on the full layout, the smallest predicted-lossy layout and one loss-free 2-file layout"
             % (2, len(chosen)))
    for s in (r.get("samples") or []):
        ctx.sample(s)
    ctx.assume("NOW()/CURRENT_TIMESTAMP are replaced by the fixed clock (2020-01-04 12:00:00 UTC) in the transformed SQL before execution; the pruner reads the same clock through the overlay")
    ctx.assume("a row lives in the partition of its own hour (day file: of its own day); time is TIMESTAMP without zone; session TimeZone UTC")
    ctx.assume("only literal formats that both Go's parseDateTime and DuckDB accept are generated")
    if ctx.missing_gates:
        raise InfraError("clock overlay incomplete: %s" % ctx.missing_gates)
    for d in (r.get("drift") or []):
        ctx.spec_drift("%s witness=%s" % (d["signature"], json.dumps(d["witness"])[:700]))
    for v in (r.get("violations") or []):
        ctx.violation(v["signature"], v["witness"])

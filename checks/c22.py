"""C22 -- cluster state machine: replay determinism and snapshot fidelity (DESIGN section 5, C22).

(M) TLC checks specs/clusterfsm/ClusterFSM.tla (every apply* command, Snapshot/Restore with the
    quarantine rules and all secondary indexes, as written) per command family, exhaustively to a
    small depth, for key uniqueness, index agreement, restore fidelity (every reachable state),
    restore idempotence and batch all-or-nothing; the model of the code as first read (AsWritten =
    TRUE: UpdateToken name unvalidated, UpdateFile skipping filesByDB[""]) is a negative control that
    TLC must reject (NegCtl_*.cfg).
(G) every transition TLC explores (plus seeded simulated long histories) is replayed into real
    ClusterFSM instances: node A vs node B, Restore(Persist(Snapshot)) at every prefix + suffix,
    indexes vs recomputation from the primary maps, batches vs single ops.  Verdicts come from
    these real-vs-real comparisons only; the specification's predicted state is the drift detector.
"""
import clusterfsm_lib as lib
from vlib import InfraError

LEVEL = "model_checking"


def run(ctx):
    q = ctx.quick()
    sims = [("Sim_auth.cfg", 200 if q else 1200, 20), ("Sim_node.cfg", 100 if q else 600, 12)]
    sp, n = lib.generate(ctx, ["node", "failover", "file", "auth", "deep", "dup", "chain"], sims, ["NegCtl_IndexAgreement", "NegCtl_RestoreFidelity"])
    r = lib.replay(ctx, sp, n)
    lib.need(r, ["AddNode", "PromoteWriter", "RegisterFile", "UpdateFile", "DeleteFile", "BatchFileOps", "CreateToken", "UpdateToken",
                 "RotateToken", "DeleteToken", "CreateOrg", "CreateTeam", "CreateRole", "CreateMPerm", "AddTokenToTeam", "DeleteOrg",
                 "DeleteTeam", "DeleteRole"])
    if not lib.restricted() and (r["cascade_steps"] == 0 or r["batches"][0] == 0 or r["batches"][1] == 0):
        raise InfraError("no cascade / accepted batch / refused batch was exercised")
    ctx.note("exhaustive", True)
    ctx.note("rule", "every (distinct model state, command) transition within the per-family depth bound, replayed from the first "
             "history that reaches the state, with snapshot+restore at every prefix; plus seeded random histories of 8-14 commands")
    ctx.assume("two ClusterFSM instances in one process stand for two nodes (the FSM has no process-global inputs besides metrics counters)")
    ctx.assume("index buckets that are empty are equivalent to missing buckets; tokensByPrefix is compared as a set")
    ctx.assume("restore fidelity is reported at the first unfaithful prefix of a history only; an index that already disagrees with "
               "its primary map is reported as index-mismatch, not again as a restore difference")
    for v in r.get("c22") or []:
        ctx.violation(v["signature"], v["witness"])


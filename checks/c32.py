"""C32 -- writes land only where the caller is allowed to write (DESIGN section 5, C32).

(M) TLC exhausts specs/writeauth/WriteAuth.tla: request = form (MessagePack columnar / row /
    batch / array, line protocol via /write, /api/v2/write, /api/v1/write/line-protocol, LP
    import, CSV import) x header db x query db x measurement set x routing-like names in the
    payload (database, _database, measurement, _measurement, m as tag / field / column, string or
    integer, singly and in pairs), with the handler's database resolution, the permission checks,
    the buffer key, the WAL entry class and the two re-ingestion paths (WAL recovery callbacks,
    replication ingest handler) as written.  LiveOK, ReplayOK, ReplicaOK are invariants; the
    pre-repair constants (MC_prefix.cfg) are a negative control TLC must reject.
(G) every request of the model is replayed on the real handlers with a recording RBACChecker
    (allows (prod, cpu|mem)) and a recording storage backend; the WAL payloads handed to the
    replication hook are (a) applied with the real Receiver.applyEntry + coordinator ingest handler
    and (b) written to a WAL and recovered by the overlaid arc binary through the recovery
    callbacks of cmd/arc/main.go.  Verdict per leg from the stored paths vs the permission checks
    recorded for the request; the TLC prediction is the drift detector.
"""
import json

from vlib import InfraError

LEVEL = "model_checking"

ACTIONS = ("Handle", "Buffer", "Recover", "Replicate")


def run(ctx):
    size = "small" if ctx.quick() else "large"
    mc = ctx.tlc("writeauth", "WriteAuth", "MC_%s.cfg" % size, coverage=True, timeout=1800)
    for a in ACTIONS:
        if mc.coverage.get(a, (0, 0))[0] == 0:
            raise InfraError("vacuous model: action %s never fired" % a)
    ctx.note("tlc_model_check", {"cfg": "MC_%s.cfg" % size, "distinct": mc.distinct, "generated": mc.generated,
                                 "depth": mc.depth, "invariants": ["TypeOK", "LiveOK", "ReplayOK", "ReplicaOK", "RejectedStoresNothing"],
                                 "actions_fired": {k: v[0] for k, v in mc.coverage.items() if k in ACTIONS}})
    # negative control: the constants of the code BEFORE the repairs 6d2312a / 138d6b9 (user columns
    # override the routing keys, replica falls to "default", CSV preamble falls through) must be
    # rejected by TLC -- shows the invariants can fail.
    neg = ctx.tlc("writeauth", "WriteAuth", "MC_prefix.cfg", allow_violation=True, timeout=900, workers=2)
    if not neg.violated:
        raise InfraError("negative control MC_prefix.cfg was not rejected by TLC: the invariants are vacuous")
    ctx.note("tlc_negative_control", {"cfg": "MC_prefix.cfg", "violated": neg.violated,
                                      "meaning": "pre-repair behaviour; expected to be rejected"})
    # negative control 2: a typed fast path that keeps the FIRST of two top-level "m" keys while every
    # other decoder is last-wins must break ReplayOK / ReplicaOK.
    neg2 = ctx.tlc("writeauth", "WriteAuth", "MC_dupfirst.cfg", allow_violation=True, timeout=900, workers=2)
    if not neg2.violated:
        raise InfraError("negative control MC_dupfirst.cfg was not rejected by TLC")
    ctx.note("tlc_negative_control_dup", {"cfg": "MC_dupfirst.cfg", "violated": neg2.violated})

    gen = ctx.tlc("writeauth", "WriteAuth", "Gen_%s.cfg" % size, timeout=1800, workers=4)
    if not gen.traces:
        raise InfraError("generator emitted nothing")
    scs = gen.traces
    sp = ctx.path("scenarios.json")
    json.dump(scs, open(sp, "w"))
    ctx.log("TLC emitted %d requests" % len(scs))

    # sequence leg (WalSeq.tla): two accepted requests of two tenants through ONE WAL / replication stream
    sq = ctx.tlc("writeauth", "WalSeq", "Seq.cfg", timeout=600, workers=2)
    if not sq.traces:
        raise InfraError("WalSeq generator emitted nothing")
    negs = ctx.tlc("writeauth", "WalSeq", "Seq_merge.cfg", allow_violation=True, timeout=600, workers=1)
    if not negs.violated:
        raise InfraError("negative control Seq_merge.cfg was not rejected by TLC")
    nega = ctx.tlc("writeauth", "WalSeq", "Seq_alias.cfg", allow_violation=True, timeout=600, workers=1)
    if not nega.violated:
        raise InfraError("negative control Seq_alias.cfg was not rejected by TLC")
    ctx.note("tlc_sequence_negative_control_alias", {"cfg": "Seq_alias.cfg", "violated": nega.violated})
    ctx.note("tlc_sequence_model", {"cfg": "Seq.cfg", "distinct": sq.distinct, "sequences": len(sq.traces),
                                    "negative_control": {"cfg": "Seq_merge.cfg", "violated": negs.violated}})
    qp = ctx.path("sequences.json")
    json.dump(sq.traces, open(qp, "w"))

    ov = ctx.make_overlay(["writeauth"])
    binp = ctx.go_build("writeauth", overlay=ov)
    arc = ctx.go_build_arc(overlay=ov)
    tmp = ctx.path("wa_tmp")
    import os
    os.makedirs(tmp, exist_ok=True)
    rp = ctx.path("result.json")
    ctx.run([binp, "-scenarios", sp, "-seq", qp, "-out", rp, "-tmp", tmp, "-arc", arc], timeout=3000)
    r = json.load(open(rp))
    if r.get("infra"):
        raise InfraError("writeauth driver: " + r["infra"])
    if r["requests"] != len(scs):
        raise InfraError("driver replayed %d of %d requests" % (r["requests"], len(scs)))
    if not r["replay_leg"] or r["replay_jobs"] == 0:
        raise InfraError("the WAL replay leg did not run")
    if r["accepted"] == 0 or r["rejected"] == 0:
        raise InfraError("vacuous replay: accepted=%d rejected=%d" % (r["accepted"], r["rejected"]))
    for leg in ("live", "replica", "replay"):
        if not r["files_per_leg"].get(leg):
            raise InfraError("leg %s stored nothing: the binding is vacuous" % leg)
    if r.get("sequences", 0) != len(sq.traces):
        raise InfraError("driver replayed %d of %d sequences" % (r.get("sequences", 0), len(sq.traces)))
    for leg in ("live", "replica", "replay"):
        if not (r.get("sequence_rows_per_leg") or {}).get(leg):
            raise InfraError("sequence leg %s stored no rows: the binding is vacuous" % leg)
    ctx.note("sequences_replayed", r["sequences"])
    ctx.note("sequence_rows_per_leg", r["sequence_rows_per_leg"])
    ctx.count(evaluations=r["sequences"] * 3, nontrivial_keys=["seq|" + json.dumps(t["reqs"], sort_keys=True) for t in sq.traces])
    ctx.count(evaluations=r["requests"] * 3,
              nontrivial_keys=["%s|%s|%s|%s|%s" % (s["form"] + "/" + s["dup"], s["hdr"], s["q"], s["meas"],
                                                  ",".join("%s:%s:%s" % (d["name"], d["pos"], d["vt"]) for d in s["decoys"]))
                               for s in scs if s["decoys"] or s["rejected"] or s["dup"] != "none"])
    ctx.traces_validated(len(scs))
    ctx.note("requests", r["requests"])
    ctx.note("accepted", r["accepted"])
    ctx.note("rejected", r["rejected"])
    ctx.note("wal_entries_captured", r["wal_entries"])
    ctx.note("replay_jobs", r["replay_jobs"])
    ctx.note("requests_per_form", r["per_form"])
    ctx.note("stored_pairs_per_leg", r["files_per_leg"])
    ctx.note("exhaustive", True)
    ctx.note("rule", "9 request forms x header db {none, prod, other} x query db {none, prod, other} x measurement set "
             "{allowed, denied, mixed, two allowed} x payload names {database,_database,measurement,_measurement,m} as "
             "tag/field/column with string or integer value, singly and in pairs (%s); for single-map MessagePack forms "
             "also duplicate top-level keys (m first/last differing both ways, database/_database); three legs per request"
             % ("(integer, string) pairs of one family" if ctx.quick() else "all pairs of distinct names"))
    for s in (r.get("samples") or []):
        ctx.sample(s)
    ctx.assume("a stored file path database/measurement/... identifies where its rows landed (one request per flush window)")
    ctx.assume("'the database the request named' is the x-arc-database header, the db/bucket query parameter or 'default'; "
               "which of them wins is not judged, only that it is the one whose permission was checked")
    ctx.assume("the replication hook payload is byte-identical to the WAL entry payload (wal.Writer builds both from the same bytes)")
    ctx.assume("Parquet and TLE imports are not replayed (same importPreamble as CSV for Parquet)")
    for d in (r.get("drift") or []):
        ctx.spec_drift("%s witness=%s" % (d["signature"], json.dumps(d["witness"])[:400]))
    for v in (r.get("violations") or []):
        ctx.violation(v["signature"], v["witness"])

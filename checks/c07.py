"""C07 -- backpressure and storage outages never lose or duplicate acknowledged writes
(DESIGN section 5, C07).

(M) TLC exhausts specs/ingest/Ingest.tla with the queue-full path, storage outages, the WAL
    directory (rotation, file ages), the maintenance tick, the shutdown coordinator (hooks, then
    components) and restart, WAL off and on, in small scope: Accounted, LossExplained,
    DupOnlyByReplay (every loss/duplicate of the model goes through a modelled mechanism).
(G) Coarse-mode behaviours (exhaustive with the WAL off and for a 2-write WAL-on core, seeded
    simulation for the larger WAL-on scope) are
    forced on the REAL ArrowBuffer + wal.Writer + shutdown.Coordinator; the maintenance-tick body,
    safeAge and the shutdown registrations are copied verbatim from cmd/arc/main.go at check
    time (harness/cmd/ingestgen); WAL file ages are set with os.Chtimes.
(T) traces validated by TLC against IngestProp; a row acknowledged and not stored exactly once
    when the run is quiescent (storage up, flush, tick, graceful shutdown, restart + recovery)
    is the verdict; the signature is the row's lifecycle (memory fate : WAL fate).
"""
import ingestlib as L

LEVEL = "model_checking"

ACT_OFF = ("WStart", "WLock", "WEnq", "WSel", "WkTake", "WkExit", "IOPick", "IOStep", "StorageDown", "StorageUp",
           "FAStart", "ShStart", "ShPurge", "ShDone", "CCancel", "CFlush")
ACT_ON = ACT_OFF + ("AgeFile", "TickStart", "TickNext", "Restart")


def run(ctx):
    q = ctx.quick()
    mcs = [L.model_check(ctx, "MC_c07_waloff.cfg", ACT_OFF, True, ["TypeOK", "Accounted", "LossExplained", "DupOnlyByReplay"]),
           L.model_check(ctx, "MC_c07_small.cfg", ACT_ON, True, ["TypeOK", "Accounted", "LossExplained", "DupOnlyByReplay"])]
    ctx.note("tlc_model_check", mcs)
    mcs.append(L.model_check(ctx, "MC_c07_keys.cfg", ACT_OFF + ("FANext", "AgStart", "AgNext"), True,
                             ["TypeOK", "Accounted", "LossExplained", "DupOnlyByReplay", "FlushAckHonest"]))
    base = {"MaxBuf": 1, "QCap": 1, "NWorkers": 1, "RPB": 1, "NHours": 1, "C07": True, "NKeys": 1, "NW": 1, "NBatch": 3}
    s_off, g_off = L.generate(ctx, "Gen_c07_waloff.cfg", dict(base, WalOn=False))
    # exhaustive small WAL-on generator (2 writes, 1 rotation, 1 outage, 1 tick): reaches every listed WAL mechanism deterministically
    s_core, g_core = L.generate(ctx, "Gen_c07_core.cfg", dict(base, WalOn=True))
    s_on, g_on = L.generate(ctx, "Gen_c07_walon.cfg", dict(base, WalOn=True), simulate=30 if q else 1500)
    # two buffer keys in one shard, WAL off, FlushAll with a transient failure on one key (all 82 scripts are run)
    s_keys, g_keys = L.generate(ctx, "Gen_c07_keys.cfg", dict(base, WalOn=False, NKeys=2, NBatch=2, MaxBuf=3))
    # WAL on, worker blocked, two size-triggered writes queued, one dropped (queue full), graceful shutdown
    s_qf, g_qf = L.generate(ctx, "Gen_c07_qfull.cfg", dict(base, WalOn=True, NBatch=4, QCap=2))
    ctx.note("tlc_generation", [g_off, g_core, g_on, g_keys, g_qf])
    allscripts = (L.pick(s_off, 50 if q else 400, 30 if q else 400, ctx.seed)
                  + L.pick(s_core, 150 if q else 1028, 20 if q else 600, ctx.seed + 2)
                  + L.pick(s_on, 60 if q else 3000, 30 if q else 1500, ctx.seed + 1)
                  + L.pick(s_keys, 100, 100, ctx.seed + 3)
                  + L.pick(s_qf, 40 if q else 400, 10 if q else 100, ctx.seed + 4))
    for i, s in enumerate(allscripts):
        s["index"] = i
        s["consts"] = dict(s["consts"], Variant=i % 3)   # schema/hour pool slice, see mkBatch/realSig in the driver
    binp = L.build_driver(ctx)
    tp, results = L.run_driver(ctx, binp, allscripts, 60 if q else 1200, True, "c07")
    info = L.judge(ctx, "C07", tp, results, allscripts, False)
    ctx.note("real_runs", info)
    ctx.count(evaluations=info["events"],
              nontrivial_keys=["script:%d" % r["script"] if r["kind"] == "script" else "stress:%s:%d" % (r["cfg"], r["run"]) for r in results])
    ctx.traces_validated(info["runs"])
    ctx.note("scripts_model_predicts_loss_or_dup", sum(1 for s in allscripts if s["predicts_loss"] or s["predicts_dup"]))
    for r in results[:2] + results[-2:]:
        ctx.sample({k: r[k] for k in ("run", "kind", "cfg", "diverged", "abandoned") if k in r})
    ctx.note("rule", "scripted: Coarse-mode behaviours of Ingest.tla (WAL off: exhaustive BFS; WAL on: seeded simulation), those for which the "
             "model predicts a loss/duplicate first; stress: seeded random configurations with failing storage writes")
    ctx.assume("the in-memory storage proxy completes a write whose context was cancelled, like storage.LocalBackend does")
    ctx.assume("quiescence = storage up, queue drained, FlushAll, one maintenance tick with every rotated file older than MinFileAge, "
               "graceful shutdown through the real coordinator, restart with startup recovery, FlushAll, Close")
    ctx.assume("WAL ages are set with os.Chtimes (mid = 10 s, old = safeAge + 60 s) instead of waiting")
    ctx.assume("timestamps are in 2024 so that the WAL replay's unit normalisation leaves them unchanged")

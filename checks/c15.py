"""C15 -- SQL normalisation agrees with DuckDB's lexer and is reversible (DESIGN section 5, C15).

(M) TLC checks the structural invariants of specs/sqlfront/SqlFront.tla (DuckLex = DuckDB's lexical
    grammar, ArcNorm = MaskStringLiterals -> stripSQLComments transliterated) over every enumerated
    string and, separately, is asked for the candidate property Agree (allow_violation: a TLC
    counterexample is a candidate, never a verdict).
(G) the same enumeration prints, for every string, DuckLex's view, ArcNorm's predicted view, the
    predicted masked/stripped texts and the class of the first role divergence.  The Go driver
    concretises each string, runs the REAL arc functions, and reports a violation only when arc's real
    view differs from DuckLex's AND the real DuckDB parser parses the string exactly like the
    canonical rewriting of DuckLex's view (so the oracle is confirmed on that very string).
    Unmask(Mask(s)) = s is judged on the real functions alone.
"""
import json

from vlib import InfraError

LEVEL = "model_checking"

FAMILY = "sqlfront"


def build(ctx):
    ov = ctx.make_overlay([FAMILY])
    return ctx.go_build(FAMILY, tags=("verif",), overlay=ov, timeout=2400)


def run(ctx):
    size = "small" if ctx.quick() else "large"
    cand = ctx.tlc(FAMILY, "SqlFront", "MC_agree.cfg", allow_violation=True, timeout=600, workers=2)
    ctx.note("tlc_candidate", {"cfg": "MC_agree.cfg", "invariant": "Agree", "violated": cand.violated,
                               "counterexample_tail": [l for l in cand.counterexample if l.startswith("/\\ s =")][-1:]})
    # stripSQLComments after arc commit b6c6321: NoDrop must hold on the current model and must be REJECTED by
    # TLC on the as-written-before variant (negative control: the model can express the repaired defect)
    nod = ctx.tlc(FAMILY, "SqlFront", "MC_nodrop.cfg", timeout=600, workers=2)
    neg = ctx.tlc(FAMILY, "SqlFront", "MC_stripbug.cfg", allow_violation=True, timeout=600, workers=2)
    if neg.violated != "NoDrop":
        raise InfraError("negative control MC_stripbug.cfg was not rejected by TLC (violated=%s)" % neg.violated)
    ctx.note("tlc_negative_control", {"MC_nodrop.cfg": {"distinct": nod.distinct, "holds": True},
                                      "MC_stripbug.cfg": {"violated": neg.violated}})
    # one TLC run does both: model checking of the structural invariant Sane over every enumerated string
    # and generation (EmitInv prints the analysis of every complete string)
    gen = ctx.tlc(FAMILY, "SqlFront", "Gen_%s.cfg" % size, timeout=3000, workers=6)
    ctx.note("tlc_model_check", {"cfg": "Gen_%s.cfg" % size, "distinct": gen.distinct, "generated": gen.generated,
                                 "depth": gen.depth, "invariants": ["Sane", "EmitInv"]})
    if not gen.traces:
        raise InfraError("generator emitted nothing")
    # vacuity: every decision point of the two lexers the property depends on must have been exercised
    labs = {}
    for t in gen.traces:
        labs[t["lab"]] = labs.get(t["lab"], 0) + 1
        labs["V:" + t["labV"]] = labs.get("V:" + t["labV"], 0) + 1
    need = ["none", "bslash-quote", "estring-escaped-backslash", "quote-in-line-comment", "quote-in-block-comment",
            "nested-block-comment", "cr-ends-line-comment", "dollar-tag-non-ascii", "V:backtick-as-quote"]
    missing = [l for l in need if not labs.get(l)]
    if missing:
        raise InfraError("vacuous enumeration: no string exercises %s" % missing)
    if not any(t.get("labB") == "strip-drops-last-byte" for t in gen.traces):
        raise InfraError("vacuous enumeration: no string would expose the repaired last-byte defect")
    if not any(not t["rt"] for t in gen.traces):
        raise InfraError("vacuous enumeration: no placeholder look-alike precedes a literal")
    ctx.note("tlc_generation", {"cfg": "Gen_%s.cfg" % size, "strings": len(gen.traces), "distinct": gen.distinct,
                                "generated": gen.generated, "predicted_divergence_classes": labs})
    binp = build(ctx)
    ip, rp = ctx.path("lex_in.json"), ctx.path("lex_out.json")
    json.dump({"syms": {}, "traces": gen.traces, "oracle_stride": 7 if ctx.quick() else 2, "seed": ctx.seed}, open(ip, "w"))
    ctx.run([binp, "-mode", "lex", "-in", ip, "-out", rp], timeout=3000)
    r = json.load(open(rp))
    if r.get("infra"):
        raise InfraError("sqlfront driver: " + r["infra"])
    if r["strings"] != len(gen.traces):
        raise InfraError("driver judged %d of %d strings" % (r["strings"], len(gen.traces)))
    c = r["counts"]
    unj = sum(v for k, v in c.items() if k.startswith("unjudged"))
    if unj > len(gen.traces) // 100:
        raise InfraError("driver could not judge %d strings: %s" % (unj, c))
    refuted, confirmed = c.get("oracle_refuted", 0), c.get("oracle_confirmed", 0)
    if confirmed == 0:
        raise InfraError("DuckDB confirmed the oracle on no string")
    if refuted * 50 > confirmed:
        raise InfraError("DuckDB refutes DuckLex on %d strings (confirmed %d): the oracle is wrong: %s"
                         % (refuted, confirmed, r.get("notes")))
    ctx.count(evaluations=r["evaluations"], nontrivial_keys=r["keys"])
    ctx.traces_validated(len(gen.traces))
    ctx.note("judgement_counts", c)
    ctx.note("per_signature", r["per_signature"])
    ctx.note("oracle_refuted_examples", r.get("notes"))
    ctx.note("exhaustive", True)
    ctx.note("rule", "every string over the listed sub-alphabets up to the listed lengths (SqlFront.tla Jobs%s); "
             "distinct_nontrivial = distinct (signature, DuckDB view) pairs confirmed by DuckDB" % ("Quick" if ctx.quick() else "Thorough"))
    for s in r.get("samples") or []:
        ctx.sample(s)
    ctx.assume("a verdict needs a statement (template + string) that DuckDB parses; strings DuckDB rejects lexically are not judged")
    ctx.assume("json_serialize_sql equality with the canonical rewriting is taken as DuckDB's confirmation of DuckLex's segmentation")
    for d in r.get("drift") or []:
        ctx.spec_drift("%s x%d witness=%s" % (d["signature"], r["per_signature"].get("drift:" + d["signature"], 1),
                                               json.dumps(d["witness"])[:400]))
    for v in r.get("violations") or []:
        w = dict(v["witness"])
        w["occurrences"] = r["per_signature"].get(v["signature"], 1)
        ctx.violation(v["signature"], w)

"""C23 -- cluster role assignments stay consistent (DESIGN section 5, C23).

(M) TLC checks specs/clusterfsm/ClusterFSM.tla: RBACParentsExist (and the C22 invariants) hold in
    the model; AtMostOnePrimary, PrimaryExistsAndMarked and ReRegisterKeepsAssignment are probed --
    add/update-node replace the whole record, so the model of the current code still violates them
    (promote-before-validate and remove-node-leaves-primaryWriterID were repaired: c0a37a3, 0053d98).
(G) every explored transition of the node/writer/compactor family (3 nodes, thorough: also 4) and
    of the RBAC families, plus seeded random histories, is replayed into a real ClusterFSM; the four
    invariants are evaluated on the real state dump after every command.  A step is judged only
    when the state before it was coherent (the root cause is reported, not its consequences).
"""
import clusterfsm_lib as lib
from vlib import InfraError

LEVEL = "model_checking"


def run(ctx):
    q = ctx.quick()
    sims = [("Sim_node.cfg", 200 if q else 1500, 12), ("Sim_auth.cfg", 120 if q else 800, 20)]
    sp, n = lib.generate(ctx, ["node", "failover", "deep", "dup", "chain", "auth"], sims, ["Probe_AtMostOnePrimary", "Probe_PrimaryExistsAndMarked", "Probe_ReRegisterKeepsAssignment"])
    r = lib.replay(ctx, sp, n)
    lib.need(r, ["AddNode", "UpdateNode", "RemoveNode", "UpdateNodeState", "PromoteWriter", "DemoteWriter", "AssignCompactor",
                 "CreateOrg", "CreateTeam", "CreateRole", "CreateMPerm", "AddTokenToTeam", "DeleteOrg", "DeleteTeam", "DeleteRole",
                 "DeleteToken", "RemoveTokenFromTeam"])
    if not lib.restricted() and (r["cascade_steps"] == 0):
        raise InfraError("no cascading delete was exercised")
    ctx.note("exhaustive", True)
    ctx.note("rule", "every (distinct model state, command) transition of the node family to depth %d over 3 nodes%s and of the RBAC "
             "families, replayed into the real FSM; invariants evaluated on the real dump after every command"
             % (4, "" if q else " (depth 3 over 4 nodes)"))
    ctx.assume("AddNode/UpdateNode payloads are built field-for-field like Coordinator.handleJoinRequest / registerSelfInFSMWhenLeader "
               "(no writer_state) or carry an explicit writer_state; the coordinator itself is not started")
    ctx.assume("a step is judged only from a coherent pre-state (<=1 marked primary, named primary registered and marked, marked primary is the named one)")
    for v in r.get("c23") or []:
        ctx.violation(v["signature"], v["witness"])

"""C04 -- no request payload can crash the server (DESIGN section 5, C04).

Level: exploration. The input quantifier ("arbitrary byte strings") cannot be enumerated; what is
enumerated -- by TLC, from specs/reqcrash/ReqCrash.tla -- is the space of short request SEQUENCES
over endpoint x codec x column-name class x value type to one buffer key followed by a flush,
i.e. the part of the space where flushes merge batches of different requests.

(M) TLC checks NoPanic on the buffering mechanism (schema signature, schema-change flush, merge)
    as the code is now (both panic sites repaired by 1d2ff04: holds) and, as a negative control,
    as the code was written before (TLC must find the one-request sequence that reaches a panic).
(G) every enumerated sequence is sent through the real fiber app of api.NewServer (recover
    middleware included), the real msgpack / line-protocol handlers and a real ArrowBuffer on a
    LocalBackend in a CHILD process, followed by FlushAll on a goroutine without recover (the
    background flush goroutines have none either). Verdict from the real run only: child alive,
    every request answered, rows of rejected requests absent, rows of accepted requests readable
    (DuckDB read-back). A single request class that kills the child alone is not repeated inside
    longer sequences (every such sequence would only restart children).
"""
import json
import random

from vlib import InfraError

LEVEL = "exploration"


def _seqs(traces):
    by = {}
    for t in traces:
        k = json.dumps(t["seq"], sort_keys=True)
        s = by.setdefault(k, {"reqs": t["seq"], "pred": {}})
        s["pred"]["".join("T" if a else "F" for a in t["acc"])] = t["panic"]
    out = []
    for i, k in enumerate(sorted(by)):
        by[k]["id"] = i
        out.append(by[k])
    return out


def _key(r):
    return "%s/%s/%s/%s" % (r["ep"], r["codec"], r["name"], r["typ"])


def _drive(ctx, binp, seqs, tag, workers=8, timeout=3000):
    sp = ctx.path("seq_%s.json" % tag)
    json.dump(seqs, open(sp, "w"))
    rp = ctx.path("res_%s.json" % tag)
    ctx.run([binp, "-sequences", sp, "-out", rp, "-workers", str(workers)], timeout=timeout)
    r = json.load(open(rp))
    if r.get("infra"):
        raise InfraError("reqcrash driver (%s): %s" % (tag, r["infra"]))
    if r["sequences"] != len(seqs):
        raise InfraError("driver ran %d of %d sequences" % (r["sequences"], len(seqs)))
    return r


def run(ctx):
    quick = ctx.quick()
    rnd = random.Random(ctx.seed)
    fixed = ctx.tlc("reqcrash", "ReqCrash", "MC_fixed.cfg" if quick else "MC_fixed_large.cfg", coverage=quick, timeout=1500 if quick else 3600)
    if quick:
        for a in ("Send", "Flush"):
            if fixed.coverage.get(a, (0, 0))[0] == 0:
                raise InfraError("vacuous model: action %s never fired" % a)
    asb = ctx.tlc("reqcrash", "ReqCrash", "MC_aswritten.cfg", allow_violation=True, timeout=900)  # negative control
    if asb.violated != "NoPanic":
        raise InfraError("negative control: TLC did not reject the as-written model (MC_aswritten.cfg)")
    ctx.note("tlc_model_check", {
        "current_code": {"distinct": fixed.distinct, "generated": fixed.generated, "depth": fixed.depth, "invariant": "NoPanic", "holds": True},
        "negative_control_as_written_before_1d2ff04": {"violated": asb.violated, "counterexample": [l.strip() for l in asb.counterexample if "seq =" in l or l.strip().startswith("[ep")][-3:]}})
    g1 = ctx.tlc("reqcrash", "ReqCrash", "Gen_single.cfg", timeout=900, workers=4)
    g2 = ctx.tlc("reqcrash", "ReqCrash", "Gen_pairs.cfg", timeout=1500, workers=4)
    singles, pairs = _seqs(g1.traces), _seqs(g2.traces)
    pairs = [p for p in pairs if len(p["reqs"]) == 2]
    if not singles or not pairs:
        raise InfraError("generator emitted nothing")

    binp = ctx.go_build("reqcrash")
    r1 = _drive(ctx, binp, singles, "single")
    # request classes that kill the server on their own (observed, not predicted)
    killers = set(r1.get("killer_classes") or [])

    def usable(p):
        return not any(_key(q) in killers for q in p["reqs"])
    pool = [p for p in pairs if usable(p)]
    diag = [p for p in pool if p["reqs"][0]["name"] == p["reqs"][1]["name"] and p["reqs"][0]["typ"] != p["reqs"][1]["typ"]]
    rest = [p for p in pool if not (p["reqs"][0]["name"] == p["reqs"][1]["name"] and p["reqs"][0]["typ"] != p["reqs"][1]["typ"])]
    if quick:
        # always: same column, int <-> float, over {mpcol, lp} x {mpcol, lp}; then seeded samples
        core = [p for p in diag if all(q["ep"] in ("mpcol", "lp") and q["typ"] in ("int", "float") for q in p["reqs"])]
        others = [p for p in diag if p not in core]
        chosen = core + rnd.sample(others, min(300, len(others))) + rnd.sample(rest, min(150, len(rest)))
    else:
        chosen = pool
    for i, s in enumerate(chosen):
        s["id"] = i
    ctx.log("TLC emitted %d single and %d two-request sequences; %d kill the server alone; replaying %d pairs"
            % (len(singles), len(pairs), len(killers), len(chosen)))
    r2 = _drive(ctx, binp, chosen, "pairs", timeout=3000 if quick else 9000)

    evals = r1["requests"] + r2["requests"]
    ctx.count(evaluations=evals)
    ctx._nontrivial = set(range(r1["distinct_nontrivial"] + r2["distinct_nontrivial"]))
    ctx.traces_validated(r1["sequences"] + r2["sequences"])
    ctx.note("sequences", {"single": r1["sequences"], "pairs_enumerated": len(pairs), "pairs_replayed": r2["sequences"],
                           "pairs_skipped_because_a_member_kills_alone": len(pairs) - len(pool)})
    ctx.note("child_deaths", r1["child_deaths"] + r2["child_deaths"])
    ctx.note("status_counts", {"single": r1["status_counts"], "pairs": r2["status_counts"]})
    ctx.note("observations_not_judged", {k: r1["notes"].get(k, 0) + r2["notes"].get(k, 0) for k in set(r1["notes"]) | set(r2["notes"])})
    ctx.note("signature_counts", {"single": r1["signature_counts"], "pairs": r2["signature_counts"]})
    ctx.note("killer_classes", sorted(killers))
    ctx.note("exhaustive", False)
    ctx.note("rule", "sequences are enumerated by TLC (all single requests over 7 endpoints x 5 name classes x 6 value types + codec "
                     "variants; all ordered pairs over 3 endpoints x 5 x 6, quick tier: every same-name/different-type pair + a seeded "
                     "sample of the rest); evaluations = HTTP requests sent to the real handlers; a sequence is non-trivial when a request "
                     "was rejected, or an accepted request used an unusual name / nil / mixed values / a codec, or the child died; "
                     "distinct = distinct request sequences")
    for s in (r1.get("samples") or [])[:3] + (r2.get("samples") or [])[:3]:
        ctx.sample(s)
    ctx.assume("import (CSV/Parquet) and TLE endpoints and raw byte-level mutation of bodies are not exercised by this check")
    ctx.assume("FlushAll called on a goroutine without recover stands for the background flush goroutines (periodicFlush, flush workers), which have no recover either")
    ctx.assume("a handler panic caught by arc's fiber recover middleware (HTTP 500) is recorded but not judged a process crash")
    for r in (r1, r2):
        for d in (r.get("drift") or []):
            ctx.spec_drift("%s witness=%s" % (d["signature"], json.dumps(d["witness"])[:400]))
        for v in (r.get("violations") or []):
            ctx.violation(v["signature"], v["witness"])

"""C06 -- the WAL reader returns only intact entries in append order (DESIGN section 5, C06).

(M) TLC exhausts specs/walfile/WalFile.tla (reader automaton as written, every layout x every
    abstract fault) and checks Safety; with -coverage the per-action counts are recorded.
(G) the same run emits one line per terminal state (layout, fault, predicted output); the Go
    driver builds each layout with the real wal.Writer, expands each abstract fault to every
    concrete byte offset/value, runs the real Reader.ReadAll and Recovery.RecoverWithOptions
    and judges the property on the real output; the TLC prediction is the drift detector.
"""
import json
import os

from vlib import InfraError

LEVEL = "model_checking"


def run(ctx):
    size = "small" if ctx.quick() else "large"
    mc = ctx.tlc("walfile", "WalFile", "MC_%s.cfg" % size, coverage=ctx.quick(), timeout=1200)
    ctx.note("tlc_model_check", {"cfg": "MC_%s.cfg" % size, "distinct": mc.distinct, "generated": mc.generated,
                                 "depth": mc.depth, "invariants": ["StrictlyIncreasing", "OnlyAppended", "NeverAltered", "NoHide", "NoFaultAll"],
                                 "actions_fired": {k: v[0] for k, v in mc.coverage.items()}})
    for a in ("OpenFile", "ReadFrame", "Desync"):
        if mc.coverage and mc.coverage.get(a, (0, 0))[0] == 0:
            raise InfraError("vacuous model: action %s never fired" % a)
    # writer side: accepted entries reach the files in append order whatever the boundary cause
    # (size rotation, restart, write-failure rotation); the re-enqueue variant must be rejected
    wr = ctx.tlc("walfile", "WalWriter", "Writer_MC.cfg", coverage=True, timeout=600, workers=4)
    for a in ("AppendEntry", "WriteOk", "Break", "WriteFail", "Restart"):
        if wr.coverage.get(a, (0, 0))[0] == 0:
            raise InfraError("vacuous writer model: action %s never fired" % a)
    nc = ctx.tlc("walfile", "WalWriter", "Writer_NC_requeue.cfg", timeout=600, workers=4, allow_violation=True)
    if nc.violated != "WriterSafety":
        raise InfraError("negative control Writer_NC_requeue.cfg was not rejected by TLC (%s)" % nc.violated)
    ctx.note("tlc_writer_model", {"distinct": wr.distinct, "generated": wr.generated,
                                  "negative_control_rejected": "Writer_NC_requeue.cfg (re-enqueue after a failed write)"})
    gen = ctx.tlc("walfile", "WalFile", "Gen_%s.cfg" % size, timeout=1800, workers=4)
    if not gen.traces:
        raise InfraError("generator emitted nothing")
    scen = {}
    for t in gen.traces:
        lk = json.dumps(t["layout"])
        f = t["fault"]
        fk = "%s|%d|%d|%s" % (f["type"], f["file"], f["frame"], f["region"])
        s = scen.setdefault(lk, {"layout": t["layout"], "allowed": {}})
        outs = s["allowed"].setdefault(fk, [])
        if t["out"] not in outs:
            outs.append(t["out"])
    scs = list(scen.values())
    ctx.log("TLC predicted %d terminal states over %d layouts" % (len(gen.traces), len(scs)))
    sp = ctx.path("scenarios.json")
    json.dump(scs, open(sp, "w"))
    try:
        binp = ctx.go_build("walfile", overlay=ctx.make_overlay(["walfile"]))
        ctx.note("writer_lock_shim", True)
    except InfraError as e:
        # the shim only needs Writer.mu; if that no longer exists fall back to the unlocked driver
        ctx.log("overlay shim did not build (%s); building without it" % str(e).splitlines()[0][:120])
        binp = ctx.go_build("walfile")
        ctx.note("writer_lock_shim", False)
    rp = ctx.path("result.json")
    stride = 3 if ctx.quick() else 2
    ctx.run([binp, "-scenarios", sp, "-out", rp, "-recover-stride", str(stride)], timeout=6000)
    r = json.load(open(rp))
    if r.get("infra"):
        raise InfraError("walfile driver: " + r["infra"])
    if r["layouts"] != len(scs):
        raise InfraError("driver replayed %d of %d layouts" % (r["layouts"], len(scs)))
    ctx.count(evaluations=r["reads"], nontrivial_keys=[])
    # distinct non-trivial = (layout, abstract fault) pairs actually exercised on real files
    ctx._nontrivial = set(range(r["fault_keys_exercised"]))
    ctx.traces_validated(len(gen.traces))
    ctx.note("mutations_applied", r["mutations"])
    ctx.note("per_region_mutations", r["per_class"])
    ctx.note("abstract_faults_predicted", r["fault_keys_predicted"])
    ctx.note("abstract_faults_exercised", r["fault_keys_exercised"])
    ctx.note("exhaustive", True)
    ctx.note("rule", "every layout of <=%s frames over <=%s files x every byte offset (truncation) x every offset x "
             "{bit0 flip, bit7 flip, 0x00, 0xFF, +1}; distinct_nontrivial counts (layout, abstract fault class) pairs hit"
             % (("3", "2") if ctx.quick() else ("4", "2")))
    for s in (r.get("samples") or []):
        ctx.sample(s)
    ctx.assume("a desynchronised reader (after a corrupted length) cannot yield an entry without a CRC-32 collision")
    ctx.note("boundary_causes_realised", ["size rotation", "writer restart", "write-failure rotation (file handle closed under the writer mutex, later entries queued)"])
    ctx.assume("payloads generated by the driver do not embed a valid frame")
    ctx.assume("a caller may reuse the slice it passed to Append*/AppendRaw*/AppendRawWithMeta as soon as the call returned (the driver overwrites it)")
    ctx.assume("the header timestamp is outside the CRC and outside 'payload with its database'; it is not compared")
    for d in (r.get("drift") or []):
        ctx.spec_drift("%s witness=%s" % (d["signature"], json.dumps(d["witness"])[:400]))
    for v in (r.get("violations") or []):
        ctx.violation(v["signature"], v["witness"])

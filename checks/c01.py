"""C01 -- line-protocol points are stored exactly as written (DESIGN section 5, C01).

(M) TLC exhausts specs/lineproto/LineProto.tla: the InfluxDB escaping rules written as a
    grammar-directed generator and, independently, as the left-to-right reference lexer over
    character classes; invariants RoundTrip (the lexer reads back exactly the generated point:
    the generated language is unambiguous under the rules) and Deterministic.
(G) the same run emits every generated point (rendered class string + denotation + the
    microsecond timestamp computed by TLC on digit strings); the Go driver concretises the
    classes and replays them on the real LineProtocolParser (single lines and batches) and on
    the real write path: HTTP handleWrite (fiber app.Test, one long-lived handler; request sequences
    incl. TLC's dense-then-sparse two-request family) -> ArrowBuffer -> FlushAll -> Parquet, read
    back with arrow-go.  The spec is the oracle (the property names the InfluxDB rules); only
    constructs the published rules fix unambiguously (strict = TRUE) give verdicts.
"""
import json

from vlib import InfraError

LEVEL = "model_checking"

LEX_ACTIONS = ("LexEscape", "LexLiteral", "LexDelim", "LexQuoteOpen", "LexQuoteClose", "LexValue",
               "LexAfterValue", "LexTs", "LexEnd")


def run(ctx):
    size = "small" if ctx.quick() else "large"
    gen = ctx.tlc("lineproto", "LineProto", "Gen_%s.cfg" % size, timeout=3000, workers=8)
    if not gen.traces:
        raise InfraError("generator emitted nothing")
    # vacuity: which lexer actions must have fired is visible in the emitted terminal states
    fired = {a: 0 for a in LEX_ACTIONS}
    for t in gen.traces:
        fired["LexEnd"] += 1
        fired["LexLiteral"] += 1
        fired["LexDelim"] += 1
        if any(a["m"] == "esc" for f in t["foci"] for a in f["atoms"]):
            fired["LexEscape"] += 1
        if any(f["kind"] == "string" for f in t["den"]["fields"]):
            fired["LexQuoteOpen"] += 1
            fired["LexQuoteClose"] += 1
        if any(f["kind"] != "string" for f in t["den"]["fields"]):
            fired["LexValue"] += 1
        if len(t["den"]["fields"]) > 1 or t["den"]["hasTs"]:
            fired["LexAfterValue"] += 1
        if t["den"]["hasTs"]:
            fired["LexTs"] += 1
    for a, n in fired.items():
        if n == 0:
            raise InfraError("vacuous model: lexer action %s never fired" % a)
    ctx.note("tlc_model_check", {"cfg": "Gen_%s.cfg" % size, "distinct": gen.distinct, "generated": gen.generated,
                                 "depth": gen.depth, "invariants": ["RoundTrip", "Deterministic"],
                                 "terminal_states_whose_behaviour_used_action": fired})
    strict = sum(1 for t in gen.traces if t["strict"])
    ctx.log("TLC generated %d points (%d strict), %d distinct states" % (len(gen.traces), strict, gen.distinct))
    secs = set()
    for t in gen.traces:
        for f in t["foci"]:
            secs.add(f["sec"])
    for s in ("meas", "tagkey", "tagval", "fieldkey", "str"):
        if s not in secs:
            raise InfraError("generator never focused section %s" % s)
    sp = ctx.path("scenarios.json")
    json.dump(gen.traces, open(sp, "w"))
    binp = ctx.go_build("lineproto")
    rp = ctx.path("result.json")
    e2e = "4000" if ctx.quick() else "0"
    reps = "1" if ctx.quick() else "2"
    ctx.run([binp, "-scenarios", sp, "-out", rp, "-seed", str(ctx.seed), "-e2e-max", e2e, "-reps", reps], timeout=3000)
    r = json.load(open(rp))
    if r.get("infra"):
        raise InfraError("lineproto driver: " + r["infra"])
    if r["lines"] != len(gen.traces):
        raise InfraError("driver replayed %d of %d points" % (r["lines"], len(gen.traces)))
    if r["e2e_lines"] == 0 or r["e2e_parquet_files"] == 0:
        raise InfraError("write-path tier did not run")
    ctx.count(evaluations=r["parser_checks"] + r["batches"] + r["e2e_lines"])
    # distinct non-trivial = distinct generated points (each is a different class string)
    ctx._nontrivial = set(range(r["strict_lines"]))
    ctx.traces_validated(len(gen.traces))
    ctx.note("points_generated", len(gen.traces))
    ctx.note("points_strict", r["strict_lines"])
    ctx.note("points_doubled_backslash_in_name_weakly_judged", r.get("doubled_backslash_checks", 0))
    if r.get("doubled_backslash_checks", 0) == 0:
        raise InfraError("no doubled-backslash point was judged")
    ctx.note("per_family", r["per_family"])
    ctx.note("per_focus_section", r["per_focus_section"])
    ctx.note("batches", r["batches"])
    ctx.note("write_path", {"lines": r["e2e_lines"], "requests": r["e2e_batches"], "parquet_files": r["e2e_parquet_files"],
                            "dense_then_sparse_sequence_requests": r.get("sequence_requests", 0)})
    if r.get("sequence_requests", 0) < 4:
        raise InfraError("the dense-then-sparse request sequence did not run")
    ctx.note("lenient_observations_not_asserted", r["lenient_observations"])
    ctx.note("exhaustive", True)
    ctx.note("rule", "every line of the canonical templates (0-2 tags x 1-2 fields x timestamp yes/no x numeric/string "
             "context) with one section replaced by every atom sequence of length <= %d over that section's alphabet "
             "{literal, escaped, backslash-kept} x {plain, ',', ' ', '=', '\"', '\\'}; every pair of single-atom foci; "
             "every value spelling; every precision x timestamp class" % (2 if ctx.quick() else 3))
    for s in (r.get("samples") or []):
        ctx.sample(s)
    ctx.assume("two concrete characters of the same class are treated alike by the parser (class abstraction); "
               "the concretisation draws letters, digits, punctuation and non-ASCII UTF-8 per seed")
    ctx.assume("not generated (rules ambiguous or reserved): lone trailing backslash, unescaped '=' in tag/field keys and tag values, negative ns timestamps that are not multiples of "
               "1000, timestamps outside the int64 microsecond range, column names time / beginning with '_', equal tag "
               "and field keys, field type conflicts inside one measurement, unsigned values above MaxInt64")
    ctx.assume("a backslash written as a pair in a measurement, tag key/value or field key (not in the published escape "
               "tables, but named by the property statement) is judged up to the open choice: it may be stored as one or "
               "two backslashes, but it escapes nothing after it, so the point must be kept with exactly its other "
               "names/values; such points do not enter the batch and write-path tiers")
    ctx.assume("write-path tier posts every request to the real LineProtocolHandler (fiber app.Test, one long-lived handler "
               "and ArrowBuffer for the whole run), then FlushAll and Parquet read-back; gzip/zstd bodies, auth and cluster "
               "routing are not exercised")
    for v in (r.get("violations") or []):
        w = v["witness"]
        w["occurrences"] = v["count"]
        ctx.violation(v["signature"], w)

"""C14 -- a query can only read data the caller is authorized to read (DESIGN section 5, C14).

(M) TLC enumerates specs/sqlfront/SqlFront.tla over statement templates whose payload is a foreign read
    (file-reading table function, string in table position, foreign db.table) and whose holes are filled
    with every lexical disguise up to a bound; the structural invariant Sane is checked on every state and
    DuckLex / ArcNorm decide, per statement, whether the payload is live for DuckDB and visible to arc.
(G) every statement DuckLex accepts with the payload live is posted (with and without x-arc-database) to
    the REAL /api/v1/query handler: real sandboxed DuckDB over a scratch storage root with allowed/cpu and
    foreign/cpu (canary values), RBAC on through a recording checker that grants only database `allowed`.
    Verdict from real behaviour only: a 2xx answer carrying the foreign canary, or a 2xx answer for a text
    whose own DuckDB parse reads a file function / replacement scan / a table nobody asked permission for.
"""
import json
import os

from vlib import InfraError

LEVEL = "model_checking"
FAMILY = "sqlfront"


def run(ctx):
    size = "small" if ctx.quick() else "large"
    gen = ctx.tlc(FAMILY, "SqlFront", "Gen_c14_%s.cfg" % size, timeout=3000, workers=6)
    if not gen.traces:
        raise InfraError("generator emitted nothing")
    hidden = [t for t in gen.traces if not (t["avis"] and t["avisI"])]
    visible = [t for t in gen.traces if t["avis"] and t["avisI"]]
    if not hidden or not visible:
        raise InfraError("vacuous enumeration: hidden=%d visible=%d" % (len(hidden), len(visible)))
    per_tpl = {}
    for t in gen.traces:
        k = "job%d:%s" % (t["t"], "hidden" if not (t["avis"] and t["avisI"]) else "visible")
        per_tpl[k] = per_tpl.get(k, 0) + 1
    ctx.note("tlc_model_check", {"cfg": "Gen_c14_%s.cfg" % size, "distinct": gen.distinct, "generated": gen.generated,
                                 "depth": gen.depth, "invariants": ["Sane", "EmitInv"]})
    ctx.note("tlc_generation", {"statements_live_for_ducklex": len(gen.traces), "predicted_hidden_from_arc": len(hidden),
                                "predicted_visible_to_arc": len(visible), "per_job": per_tpl})
    ov = ctx.make_overlay([FAMILY])
    binp = ctx.go_build(FAMILY, tags=("verif",), overlay=ov, timeout=2400)
    root = ctx.path("root")
    os.makedirs(root)
    root = os.path.realpath(root)
    if any(c in root for c in "'\"`\\$* \t") or "--" in root:
        raise InfraError("scratch path %r contains a character of the lexical alphabet" % root)
    syms = {"K:sel": " SELECT ", "K:one": " 1 ", "K:tagrp": " , tag FROM read_parquet ( ", "K:close": " ) ",
            "K:tagfrom": " , tag FROM ", "K:tagdbt": " , tag FROM foreign.cpu ", "K:end": " ",
            "K:tagcj": " , b.tag FROM allowed.cpu a , ", "K:b": " b ",
            "K:with": " WITH", "K:cte": "cpu AS ( SELECT 1 AS one ) SELECT tag FROM cpu ",
            "K:tagwhere": " , tag FROM allowed.cpu WHERE tag <> ", "K:inj": " , tag FROM ", "K:cmt": " -- ",
            "K:cjdb": " s.tag FROM allowed.cpu c ,", "K:fsec": "foreign.cpu s ", "K:cjstar": " * FROM allowed.cpu ,",
            "K:fstar": "foreign.cpu ", "K:tagcpu": " tag FROM cpu",
            "K:trim": " trim( ", "K:as": " AS ", "K:btag": " b.tag FROM allowed.cpu a", "K:join": "JOIN",
            "K:fcpu": "foreign.cpu b ON true ", "K:subq": " ( SELECT max(tag) FROM", "K:subend": "foreign.cpu ) AS t FROM allowed.cpu ",
            "F:foreign": root + "/foreign/cpu/2024/01/01/00/f.parquet"}
    ip, rp = ctx.path("q_in.json"), ctx.path("q_out.json")
    json.dump({"syms": syms, "traces": gen.traces, "root": root, "seed": ctx.seed}, open(ip, "w"))
    ctx.run([binp, "-mode", "query", "-in", ip, "-out", rp], timeout=3000)
    r = json.load(open(rp))
    if r.get("infra"):
        raise InfraError("sqlfront driver: " + r["infra"])
    if r["strings"] != len(gen.traces):
        raise InfraError("driver posted %d of %d statements" % (r["strings"], len(gen.traces)))
    c = r["counts"]
    if c.get("request_error", 0) > 0:
        raise InfraError("request errors: %s" % c)
    ctx.count(evaluations=r["evaluations"], nontrivial_keys=r["keys"])
    ctx.traces_validated(len(gen.traces))
    ctx.note("judgement_counts", c)
    ctx.note("per_signature", r["per_signature"])
    ctx.note("exhaustive", True)
    ctx.note("endpoints", ["POST /api/v1/query (without x-arc-database, with it set to the allowed and to the foreign database)"])
    ctx.note("rule", "every hole filling up to the bounds of SqlFront.tla JobsC14%s that DuckLex accepts with the payload live; "
             "distinct_nontrivial = distinct (signature, statement) pairs" % ("Quick" if ctx.quick() else "Thorough"))
    for s in r.get("samples") or []:
        ctx.sample(s)
    ctx.assume("built without the duckdb_arrow tag: the handler falls back to database/sql after the same validation, "
               "permission check and rewrite; the estimate, measurement-listing and SHOW endpoints are not driven")
    ctx.assume("RBAC is switched on through the handler's RBACChecker interface (recording checker), not through RBACManager + licence")
    for v in r.get("violations") or []:
        w = dict(v["witness"])
        w["occurrences"] = r["per_signature"].get(v["signature"], 1)
        ctx.violation(v["signature"], w)

"""C24 -- the replicated WAL stream is ordered, gap-free and authenticated (DESIGN section 5, C24).

(M) TLC exhausts specs/replication/Replication.tla: producers (WAL sequence under w.mu, hook
    outside it, Sender.Replicate assigning its own sequence and enqueueing in two steps), bounded
    queue, distributor, per-entry tags + cumulative hash + checkpoints, a wire adversary
    (Flip/Dup/Drop/Swap/Splice/ReplayCp + the composites DelayCps and DropWindow) and the receiver's checks as
    written.  The spec models the code as it is since fix d5f2c74 (Atomic: sequence.Add and the
    enqueue are one critical section) and all invariants are checked, with one adversary step on
    2 producers x 2 entries and TWO adversary steps on a single producer.  The pre-fix shape is a
    negative control: MC_ctl_aswritten.cfg must violate HealthyNeverDropped (a prediction about the
    model, never a verdict) and Gen_ctl_aswritten.cfg supplies the schedules that realise the old
    inversion on real code if the critical section is ever removed.
(G) the same module emits producer/distributor schedules and adversary schedules.
(T) harness/cmd/replication replays them on the real wal.Writer -> Coordinator.StartReplication
    hook -> Sender -> proxy -> Receiver pipeline (schedules enforced with overlaygen gates),
    records an event log and TLC validates it against ReplicationProp.tla (a monitor that only
    knows the property statement).  Verdicts come from that log only.
"""
import json
import os
import random

from vlib import InfraError

LEVEL = "model_checking"

GATES = [
    "internal/cluster/replication/sender.go|Replicate|after-call:s.sequence.Add|rep.afterSeq",
    "internal/cluster/replication/sender.go|broadcastEntry|entry|rep.broadcast",
    "internal/wal/wal.go|AppendRaw|before-call:hook|wal.beforeHook",
    "internal/wal/wal.go|AppendRawWithMeta|before-call:hook|wal.beforeHook",
]
IMPL_ACTIONS = ("WalAssign", "SndAssign", "Dequeue", "Broadcast", "Flip", "Dup", "DropF", "Swap",
                "Splice", "ReplayCp", "DelayCps", "DropWindow", "StartRecv", "Recv")
# monitor codes that say the recording is inconsistent with itself, not that the property is broken
HARNESS_CODES = ("trace-duplicate-append", "trace-inconsistent-end", "applied-after-drop")

INVERSION_SIG = ("healthy connection poisoned: sender emits sequence numbers out of order "
                 "(Sender.Replicate assigns the sequence and enqueues in two steps)")


def _stable_paths(extra):
    """go build keys its cache on overlay file *paths*: copy the generated files to a content-addressed
    directory so that an unchanged tree re-uses the compiled internal/wal + dependents (saves ~80 s).
    Directories of other contents older than a day are pruned."""
    import hashlib
    import shutil
    import time
    h = hashlib.sha256()
    for rel in sorted(extra):
        h.update(rel.encode())
        h.update(open(extra[rel], "rb").read())
    root = "/tmp/verif-c24-ovcache"
    d = os.path.join(root, h.hexdigest()[:20])
    out = {}
    try:
        os.makedirs(d, exist_ok=True)
        for rel, src in extra.items():
            dst = os.path.join(d, rel.replace("/", "__"))
            if not os.path.exists(dst):
                tmp = dst + ".tmp%d" % os.getpid()
                shutil.copy(src, tmp)
                os.replace(tmp, dst)
            out[rel] = dst
        for other in os.listdir(root):
            po = os.path.join(root, other)
            if po != d and time.time() - os.path.getmtime(po) > 86400:
                shutil.rmtree(po, ignore_errors=True)
        return out
    except OSError:
        return extra


def _cfg_consts(ctx, cfg):
    out = {}
    for line in open(os.path.join(os.path.dirname(os.path.dirname(os.path.abspath(__file__))),
                                  "specs", "replication", cfg)):
        if "=" in line:
            k, v = [x.strip() for x in line.split("=", 1)]
            if v.isdigit():
                out[k] = int(v)
    return out


def _scenarios_from(ctx, traces, cfg, rng, limit, next_id, atomic, keep=None):
    c = _cfg_consts(ctx, cfg)
    seen = set()
    uniq = []
    for t in traces:
        key = json.dumps([t["sched"], t["adv"]])
        if key in seen:
            continue
        seen.add(key)
        uniq.append(t)
    if limit and len(uniq) > limit:
        # keep every outcome class represented, then fill up at random
        by_class = {}
        for t in uniq:
            k = (t["conn"], t["reason"], len(t["wdropped"]) > 0,
                 tuple((a["op"], a["fld"]) for a in t["adv"]))
            by_class.setdefault(k, []).append(t)
        picked = [t for t in uniq if keep and keep(t)]          # classes that are always replayed in full
        pk = {id(t) for t in picked}
        for k in sorted(by_class, key=str):
            lst = by_class[k]
            rng.shuffle(lst)
        quota = max(1, limit // max(1, len(by_class)))
        for k in sorted(by_class, key=str):
            for t in by_class[k][:quota]:
                if id(t) not in pk:
                    picked.append(t)
                    pk.add(id(t))
        rest = [t for k in sorted(by_class, key=str) for t in by_class[k][quota:] if id(t) not in pk]
        rng.shuffle(rest)
        picked.extend(rest[:max(0, limit - len(picked))])
        uniq = picked
    scs = []
    for t in uniq:
        scs.append({"id": next_id + len(scs), "kind": "sched", "nprod": c["NProd"], "perprod": c["PerProd"],
                    "buf": c["BufSize"], "cp": c["CpInterval"], "sched": t["sched"], "adv": t["adv"],
                    "seed": ctx.seed, "maxpay": 96, "atomic": atomic,
                    "pred": {"conn": t["conn"], "applied": t["applied"], "stream": t["stream"]}})
    return scs, len(seen)


def run(ctx):
    quick = ctx.quick()
    rng = random.Random(ctx.seed)

    # ------------------------------------------------------------------ (M)
    all_inv = ["AppliedIncreasing", "AppliedAuthentic", "CheckpointAnchors", "HealthyComplete", "GapsOnlyDrops",
               "HealthyNeverDropped"]
    mc_cfg = "MC_small.cfg" if quick else "MC_large.cfg"
    mc = ctx.tlc("replication", "Replication", mc_cfg, coverage=True, timeout=2400, workers=6)
    fired = {k: v[1] for k, v in mc.coverage.items()}        # <action>: distinct:total -> total evaluations
    for a in IMPL_ACTIONS:
        if fired.get(a, 0) == 0:
            raise InfraError("vacuous model: action %s never fired in %s (%s)" % (a, mc_cfg, fired))
    # two adversary steps (composite schedules such as Drop + DelayCps) on a single producer
    adv2 = ctx.tlc("replication", "Replication", "MC_adv2.cfg", coverage=True, timeout=2400, workers=6)
    fired2 = {k: v[1] for k, v in adv2.coverage.items()}
    for a in ("DropF", "DelayCps", "Swap", "ReplayCp", "Recv"):
        if fired2.get(a, 0) == 0:
            raise InfraError("vacuous model: action %s never fired in MC_adv2.cfg (%s)" % (a, fired2))
    # one adversary step on a stream of three checkpoint windows (DropWindow with windows following it)
    win = ctx.tlc("replication", "Replication", "MC_win.cfg", coverage=True, timeout=1200, workers=4)
    if win.coverage.get("DropWindow", (0, 0))[1] == 0:
        raise InfraError("vacuous model: DropWindow never fired in MC_win.cfg")
    ctl = ctx.tlc("replication", "Replication", "MC_ctl_aswritten.cfg", allow_violation=True, timeout=600, workers=2)
    if ctl.violated != "HealthyNeverDropped":
        # negative control: the pre-fix shape (two-step assign/enqueue) must still be rejected by the model
        raise InfraError("MC_ctl_aswritten.cfg: expected TLC to reject the pre-fix shape, got %r" % ctl.violated)
    ctx.note("tlc_model_check", {
        "current_code": {"cfg": mc_cfg, "distinct": mc.distinct, "generated": mc.generated, "depth": mc.depth,
                         "invariants": all_inv, "actions_fired": fired},
        "two_step_adversary": {"cfg": "MC_adv2.cfg", "distinct": adv2.distinct, "generated": adv2.generated,
                               "depth": adv2.depth, "invariants": all_inv, "actions_fired": fired2},
        "three_windows": {"cfg": "MC_win.cfg", "distinct": win.distinct, "generated": win.generated, "depth": win.depth},
        "negative_control_pre_fix_shape": {"cfg": "MC_ctl_aswritten.cfg", "violated": ctl.violated,
                                           "distinct": ctl.distinct,
                                           "counterexample_len": sum(1 for l in ctl.counterexample if l.startswith("State "))},
    })

    # ------------------------------------------------------------------ (G)
    scs = []
    gen_stats = {}

    def gen(cfg, limit, atomic, keep=None):
        res = ctx.tlc("replication", "Replication", cfg, timeout=2400, workers=6)
        if not res.traces:
            raise InfraError("generator %s emitted nothing" % cfg)
        new, total = _scenarios_from(ctx, res.traces, cfg, rng, limit, len(scs) + 1, atomic, keep)
        gen_stats[cfg] = {"distinct": res.distinct, "generated": res.generated, "behaviours": total, "replayed": len(new)}
        scs.extend(new)

    def has_delay(t):
        return any(a["op"] == "delaycps" for a in t["adv"])

    gen("Gen_sched_c.cfg", 250 if quick else None, True)          # 3 producers x 1 entry, queue 1 (writer drops)
    gen("Gen_sched_b.cfg", 250 if quick else 1500, True)          # 2 producers x 2 entries
    gen("Gen_ctl_aswritten.cfg", None, False)                     # pre-fix schedules (regression guard)
    gen("Gen_adv1.cfg", None, True)                               # every single adversary step
    gen("Gen_adv2q.cfg", 500 if quick else None, True, has_delay)  # two steps: drop/dup/swap/replaycp/delaycps
    gen("Gen_advw.cfg", None, True)                               # three windows: dropwindow alone and with drop/delaycps
    if not quick:
        gen("Gen_adv2.cfg", 1500, True, has_delay)                # two steps, all operations
    n_tlc = len(scs)

    # byte-level sweep of one entry frame and one checkpoint frame on an in-order stream (driver
    # expansion of the abstract Flip: every byte offset x two masks; quick: a stride)
    seq_sched = [1, 1, 1, 0] * 4
    stride = 7 if quick else 3
    for frame_i in (2, 3):
        for off in range(0, 400, stride):
            for x in ((0x01, 0x40) if not quick else (0x01 if (off // stride) % 2 else 0x40,)):
                scs.append({"id": len(scs) + 1, "kind": "sched", "nprod": 1, "perprod": 4, "buf": 4, "cp": 2,
                            "sched": seq_sched, "seed": ctx.seed, "maxpay": 48, "atomic": False,
                            "adv": [{"op": "flipbyte", "i": frame_i, "j": 0, "fld": "", "off": off, "xor": x}]})
    n_bytes = len(scs) - n_tlc

    # free-running stress: 1..16 goroutines, random payload sizes, random checkpoint intervals and
    # queue sizes (the quantifier of the property), with and without a random adversary step
    n_stress = 40 if quick else 100
    ops = ["flip", "dup", "drop", "swap", "splice", "replaycp", "delaycps", "dropwindow"]
    for k in range(n_stress):
        g = rng.choice([1, 2, 3, 4, 8, 12, 16])
        per = rng.choice([3, 10, 25]) if quick else rng.choice([3, 10, 25, 40])
        buf = rng.choice([1, 2, 8, 64, 10000])
        cp = rng.choice([1, 2, 3, 7, 32, 1024])
        adv = []
        if k % 3 == 2:
            for _ in range(rng.choice([1, 2])):
                op = rng.choice(ops)
                adv.append({"op": op, "i": rng.randint(1, g * per), "j": rng.randint(1, g * per),
                            "fld": rng.choice(["seq", "pay", "tag", "hash"]) if op == "flip" else rng.choice(["O", "X"])})
        scs.append({"id": len(scs) + 1, "kind": "stress", "nprod": g, "perprod": per, "buf": buf, "cp": cp,
                    "adv": adv, "seed": ctx.seed * 1000 + k, "maxpay": rng.choice([32, 256, 4096])})
    ctx.note("generation", gen_stats)
    ctx.log("scenarios: %d from TLC, %d byte flips, %d stress" % (n_tlc, n_bytes, n_stress))

    # ------------------------------------------------------------------ build (overlay: gates + export shims)
    extra = ctx.overlaygen([a for g in GATES for a in ("-gate", g)])
    missing = sorted(set(ctx.missing_gates))
    present = sorted({g.split("|")[3] for g in GATES} - set(missing))
    # a gate name is "present" only if every anchor carrying that name was found
    tags = ["verif"]
    if "internal/wal/zz_verif_gate.go" in extra:
        tags.append("c24gwal")
    if "internal/cluster/replication/zz_verif_gate.go" in extra:
        tags.append("c24grep")
    if missing:
        ctx.note("missing_gates", missing)
        ctx.log("gate anchors not found: %s (those steps run ungated; stress is the fallback)" % missing)
    extra = _stable_paths(extra)
    ov = ctx.make_overlay(["replication"], extra=extra)
    binp = ctx.go_build("replication", tags=tuple(tags), overlay=ov)

    sp = ctx.path("scenarios.json")
    json.dump(scs, open(sp, "w"))
    rp = ctx.path("result.json")
    tp = ctx.path("trace.ndjson")
    wd = ctx.path("wal")
    os.makedirs(wd)
    ctx.run([binp, "-scenarios", sp, "-out", rp, "-trace", tp, "-workdir", wd, "-gates", ",".join(present)],
            timeout=2400)
    r = json.load(open(rp))
    if r.get("infra"):
        raise InfraError("replication driver: " + r["infra"][:6000])
    runs = {x["id"]: x for x in r["runs"]}
    if len(runs) != len(scs):
        raise InfraError("driver ran %d of %d scenarios" % (len(runs), len(scs)))

    # ------------------------------------------------------------------ (T) TLC judges the event log
    accepted, res = ctx.tlc_validate("replication", "ReplicationTrace", "Trace.cfg", tp, timeout=2400)
    if not accepted:
        rej = [p for p in res.prints if "REJECTED_AT" in p]
        raise InfraError("event log not explained by ReplicationProp (malformed trace?) %s %s" % (rej, res.error))
    verdicts = {t["run"]: t["viol"] for t in res.traces}
    if len(verdicts) != len(scs):
        raise InfraError("TLC judged %d of %d runs" % (len(verdicts), len(scs)))
    ctx.traces_validated(len(verdicts))
    ctx.count(evaluations=r["events"])

    # ------------------------------------------------------------------ accounting + verdicts
    by_id = {s["id"]: s for s in scs}
    classes = {}
    drift = {}
    realized_inversions = 0
    deviated = 0
    for rid, info in runs.items():
        sc = by_id[rid]
        advk = ",".join(sorted({a["op"] + ("." + a["fld"] if a["op"] == "flip" else "") for a in sc.get("adv") or []}))
        outcome = "up" if info["up"] else "dropped:" + ";".join(sorted(set(info.get("reasons") or ["?"])))[:80]
        key = "%s|p=%d|adv=%s|inv=%s|wdrop=%s|%s" % (sc["kind"], sc["nprod"], advk, info["inverted"],
                                                      bool(info.get("wdropped")), outcome)
        classes[key] = classes.get(key, 0) + 1
        if info["inverted"]:
            realized_inversions += 1
        if info.get("deviations"):
            deviated += 1
        if info.get("drift"):
            d = info["drift"].split(" predicted")[0] + "|" + advk
            drift.setdefault(d, info)
    ctx.count(nontrivial_keys=list(classes))
    ctx.note("scenario_classes", dict(sorted(classes.items(), key=lambda kv: -kv[1])[:60]))
    ctx.note("driver_counts", r["counts"])
    ctx.note("gates_present", present)
    ctx.note("schedules_with_deviation", deviated)
    ctx.note("writer_streams_out_of_order", realized_inversions)
    ctx.note("bounds", {"producers": "1-3 gated (TLC schedules), 1-16 free running", "queue": "1-4 gated, 1-10000 stress",
                        "checkpoint_interval": "2 gated, 1-1024 stress", "adversary_steps": "<=1 quick / <=2 thorough (TLC), + byte flips"})
    for s in [x for x in r["runs"] if x["inverted"]][:2] + [x for x in r["runs"] if x.get("adv_applied")][:2] + r["runs"][:1]:
        ctx.sample({k: s[k] for k in ("id", "kind", "sched", "adv_applied", "stream", "applied", "up", "reasons") if k in s and s[k] not in (None, [])})
    ctx.assume("SHA-256 / HMAC collisions do not occur; the adversary does not know the cluster secret")
    ctx.assume("the receiver is purely reactive on the writer->reader direction, so capture-tamper-deliver at the proxy "
               "covers every interleaving of sender, adversary and receiver")
    ctx.assume("the entry timestamp field (ts) is outside the tag and is not applied by the receiver; altering it is not "
               "'applying an altered entry'")
    ctx.assume("a connection drop by the receiver is what happens on the socket (it closes with delivered bytes unread -> reset, "
               "or our write fails) or its own total_errors counter; log records only supply the reason text")
    ctx.assume("entries skipped after a wire-level frame drop are tolerated until the next checkpoint, which must reject the stream")

    for d, info in sorted(drift.items())[:8]:
        ctx.spec_drift("%s: %s (scenario %s)" % (d, info["drift"][:300], json.dumps(by_id[info["id"]].get("adv") or by_id[info["id"]].get("sched"))[:200]))

    for rid in sorted(verdicts):
        codes = sorted(verdicts[rid])
        if not codes:
            continue
        info = runs[rid]
        sc = by_id[rid]
        real = [c for c in codes if c not in HARNESS_CODES]
        if not real:
            ctx.spec_drift("recording inconsistent with itself in run %d: %s" % (rid, codes))
            continue
        healthy = not (info.get("adv_applied") or [])      # scripted steps that changed nothing do not count
        if healthy and info["inverted"]:
            sig = INVERSION_SIG
        else:
            advk = "none" if healthy else "+".join(a["op"] + ("." + a["fld"] if a["op"] == "flip" else "")
                                                   for a in sc.get("adv") or [])
            sig = "%s [adversary=%s]" % ("+".join(real), advk)
        wit = {"verdict_codes": codes, "scenario": {k: v for k, v in sc.items() if k != "pred"},
               "observed": {k: (v[:60] if isinstance(v, list) else v) for k, v in info.items()},
               "trace_first_line": info["first_line"]}
        ctx.violation(sig, wit)

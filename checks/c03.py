"""C03 -- accepted rows are flushed exactly once into their hour partition (DESIGN section 5, C03).

(M) TLC exhausts specs/ingest/Ingest.tla without WAL/faults/overflow (writers x schema change x
    size/age/explicit/close flush): TypeOK, Accounted, NoDup, NoLoss hold for the code as it is
    (Close flushes what is still queued, d59f85d); the pre-repair variant (CloseDrains=FALSE) is a
    negative control that TLC must reject.
(G) the same module in Coarse mode emits command scripts; the Go driver forces them on the real
    ArrowBuffer with a blocking storage proxy (lock released mid-flush, Close with a non-empty
    queue); plus concurrent stress runs (1-8 writers, random thresholds, multi-hour and pre-1970
    timestamps, nulls, all-null columns, type changes).
(T) every storage write is decoded (unique id column) and the traces are validated by TLC
    against IngestProp.
"""
import ingestlib as L
from vlib import InfraError

LEVEL = "model_checking"

ACTIONS = ("WStart", "WLock", "WEnq", "WSel", "WkTake", "WkExit", "IOStep", "FAStart", "FANext", "AgStart", "AgNext",
           "CStart", "CCancel", "CFlush")


def run(ctx):
    q = ctx.quick()
    mcs = [L.model_check(ctx, "MC_c03_small.cfg" if q else "MC_c03_large.cfg", ACTIONS, True,
                         ["TypeOK", "Accounted", "NoDup", "NoLoss"])]
    # negative control: the code before d59f85d (Close did not flush queued tasks) must be rejected
    neg = ctx.tlc("ingest", "Ingest", "NEG_c03_aswritten.cfg", timeout=900, workers=6, heap="5g", allow_violation=True)
    if neg.violated != "NoLoss":
        raise InfraError("negative control NEG_c03_aswritten.cfg: TLC did not reject NoLoss (%s)" % neg.violated)
    ctx._states -= neg.distinct
    ctx._transitions -= neg.generated
    mcs.append({"cfg": "NEG_c03_aswritten.cfg", "negative_control": "NoLoss violated as expected", "distinct_until_violation": neg.distinct})
    ctx.note("tlc_model_check", mcs)
    consts = {"MaxBuf": 3, "QCap": 4, "NWorkers": 1, "RPB": 2, "NHours": 1, "WalOn": False, "C07": False}
    scripts, ginfo = L.generate(ctx, "Gen_c03_small.cfg", consts)
    consts2 = dict(consts, NHours=2, MaxBuf=2, QCap=3)
    scripts2, ginfo2 = L.generate(ctx, "Gen_c03_hours.cfg", consts2)
    ctx.note("tlc_generation", [ginfo, ginfo2])
    chosen = L.pick(scripts, 60 if q else 300, 120 if q else 700, ctx.seed) + []
    more = L.pick(scripts2, 30 if q else 150, 60 if q else 250, ctx.seed + 1)
    allscripts = chosen + more
    for i, s in enumerate(allscripts):
        s["index"] = i
        s["consts"] = dict(s["consts"], Variant=i % 3)   # schema/hour pool slice, see mkBatch/realSig in the driver
    binp = L.build_driver(ctx)
    tp, results = L.run_driver(ctx, binp, allscripts, 150 if q else 1000, False, "c03", timeout=3000)
    info = L.judge(ctx, "C03", tp, results, allscripts, "exact")
    ctx.note("real_runs", info)
    ctx.count(evaluations=info["events"],
              nontrivial_keys=["script:%d" % r["script"] if r["kind"] == "script" else "stress:%s:%d" % (r["cfg"], r["run"]) for r in results])
    ctx.traces_validated(info["runs"])
    ctx.note("scripts_model_predicts_loss", sum(1 for s in allscripts if s["predicts_loss"]))
    for r in results[:2] + results[-2:]:
        ctx.sample({k: r[k] for k in ("run", "kind", "cfg", "diverged", "abandoned") if k in r})
    ctx.note("rule", "scripted: every Coarse-mode behaviour of Ingest.tla for which the model predicts a loss (capped) + a seeded "
             "sample of the others; stress: seeded random configurations; distinct_nontrivial counts distinct scripts / stress configurations")
    ctx.assume("the in-memory storage proxy completes a write whose context was cancelled, like storage.LocalBackend does")
    ctx.assume("writes are not issued concurrently with Close (the property's quantifier: writers, then explicit flush and close)")
    ctx.assume("row identity is the unique 'id' column added by the driver; values are compared column by column with the submitted batch")

"""C25 -- peer file replication never exposes a bad file and converges (DESIGN section 5, C25).

(M) TLC exhausts specs/puller/Puller.tla (processEntry / pullOnce / tryResumeFromPartial /
    FetchClient.Fetch / the LocalBackend staging protocol as written) over every bounded
    sequence of per-attempt outcomes x file sizes x staging files left by earlier attempts:
      - FinalGood, CountedPresent, Converges, GateSound must hold on the model of the code as it is now;
      - negative controls: the model of the puller as it was written before the repairs
        (/repo 11c4172, bd40fd9) must be rejected by TLC on CountedPresent / Converges / GateSound.
(G) every behaviour TLC enumerates (Gen_*.cfg, one line per maximal behaviour with the
    predicted state after every attempt) is replayed against the real Puller + real
    FetchClient + real LocalBackend with a scripted loop-back peer that applies the scripted
    defect to real bytes. The verdict is taken from the real bytes at the final/.part paths and
    the puller's counters after every attempt; TLC's prediction is the drift detector.
"""
import json

from vlib import InfraError

LEVEL = "model_checking"

ACTIONS = ("StartSession", "Stop", "PreCheck", "Resolve", "Transfer", "ObserveMidAttempt", "Post", "After")


def run(ctx):
    size = "small" if ctx.quick() else "large"
    mc = ctx.tlc("puller", "Puller", "MC_%s.cfg" % size, coverage=True, timeout=900, workers=4)
    for a in ACTIONS:
        if mc.coverage.get(a, (0, 0))[0] == 0:
            raise InfraError("vacuous model: action %s never fired" % a)
    note = {"cfg": "MC_%s.cfg" % size, "distinct": mc.distinct, "generated": mc.generated, "depth": mc.depth,
            "invariants_holding": ["TypeOK", "FinalGood", "CountedPresent", "Converges", "GateSound", "FreshOffsetPerPeer"],
            "actions_fired": {k: v[0] for k, v in mc.coverage.items() if k in ACTIONS}}
    # negative controls: the model of the puller as it was written before the two repairs must be REJECTED by TLC
    # (otherwise the invariants have lost their power to see the defects the repairs removed)
    ncs = {}
    for cfg, inv in (("NC_presence.cfg", "CountedPresent"), ("NC_converge.cfg", "Converges"), ("NC_gate.cfg", "GateSound")):
        r = ctx.tlc("puller", "Puller", cfg, timeout=600, workers=4, allow_violation=True)
        if r.violated != inv:
            raise InfraError("negative control %s was not rejected by TLC (violated=%s)" % (cfg, r.violated))
        ncs[cfg] = "rejected: %s (counterexample of %d states)" % (inv, len([l for l in r.counterexample if l.startswith("State ")]))
    note["negative_controls"] = ncs
    ctx.note("tlc_model_check", note)

    gen = ctx.tlc("puller", "Puller", "Gen_%s.cfg" % size, timeout=1500, workers=4)
    if not gen.traces:
        raise InfraError("generator emitted nothing")
    ctx.log("TLC enumerated %d behaviours (%d distinct states)" % (len(gen.traces), gen.distinct))
    scen = gen.traces
    sp = ctx.path("scenarios.json")
    json.dump(scen, open(sp, "w"))
    retry, maxscript = (2, 2) if ctx.quick() else (3, 3)
    binp = ctx.go_build("puller")
    rp = ctx.path("result.json")
    ctx.run([binp, "-scenarios", sp, "-out", rp, "-retry", str(retry), "-maxsess", str(maxscript + 2),
             "-seed", str(ctx.seed), "-big-every", "12" if ctx.quick() else "8"], timeout=2400)
    r = json.load(open(rp))
    if r.get("infra"):
        raise InfraError("puller driver: " + r["infra"])
    if r["scenarios"] != len(scen):
        raise InfraError("driver replayed %d of %d behaviours" % (r["scenarios"], len(scen)))
    for need in ("trunc", "corrupt", "ok", "dial", "wronghash", "wrongsize", "notfound", "errack", "badoffset", "nopeer"):
        if not r["per_outcome"].get(need):
            raise InfraError("outcome %s was never served to the real puller" % need)
    if not r["two_candidate_attempts"] or not r["second_candidate_fetches"] or not r["mid_attempt_observations"]:
        raise InfraError("replay never offered two candidates / never reached the second one / never observed mid-attempt: %s"
                         % {k: r[k] for k in ("two_candidate_attempts", "second_candidate_fetches", "mid_attempt_observations")})
    if not r["resumed_attempts"] or not r["promotions"] or not r["calm_runs"]:
        raise InfraError("replay never resumed / promoted / reached faults-stopped: %s" % {k: r[k] for k in ("resumed_attempts", "promotions", "calm_runs")})
    ctx.count(evaluations=r["attempts"], nontrivial_keys=r["nontrivial_keys"])
    ctx.traces_validated(r["runs"])
    ctx.note("replay", {k: r[k] for k in ("scenarios", "runs", "attempts", "sessions", "calm_runs", "per_outcome",
                                          "resumed_attempts", "promotions", "two_candidate_attempts", "second_candidate_fetches",
                                          "mid_attempt_observations", "scales_used", "wall_s")})
    ctx.note("exhaustive", True)
    ctx.note("rule", "every behaviour of Puller.tla with sizes %s units, <=%d scripted outcomes, RetryMaxAttempts=%d, every staging "
                     "file left over (absent, every good/bad prefix length, complete, oversize); unit = 1 byte, and a seed-chosen "
                     "1/%d of the behaviours again with unit = 33000 bytes" % ("{1,3}" if ctx.quick() else "{1,2,4}", maxscript, retry,
                                                                                12 if ctx.quick() else 8))
    for s in (r.get("samples") or [])[:3]:
        ctx.sample(s)
    ctx.assume("faults stop = every later fetch succeeds and the entry is enqueued again (FSM callback / catch-up scan)")
    ctx.assume("the peer is scripted at the TCP level; HMAC validation on the serving side is not part of this property")
    ctx.assume("SHA-256 collisions are impossible; corrupt = one flipped byte")
    for d in (r.get("drift") or []):
        ctx.spec_drift("%s witness=%s" % (d["signature"], json.dumps(d["witness"].get("difference"))[:300]))
    for v in (r.get("violations") or []):
        ctx.violation(v["signature"], v["witness"])
